(* The Feldman-VSS-Qual handlers of an honest non-dealer refine the monotone fact set of
   Spec/DkgQualFacts.v: after ANY input list, if the instance is not disqualified its flags
   and complaint map are the abstraction of the facts and Phi is false; if it is, Phi is true. *)
From Coq Require Import ZArith List Bool Arith Lia.
From V Require Import Model.DkgVss Model.DkgQual Spec.DkgApiSpec Spec.DkgQualFacts
  Proofs.DkgTactics Proofs.DkgC10Proofs.
Import ListNotations.
Open Scope Z_scope.

Local Opaque peval fixpoly r.
Arguments nph : simpl never.
Arguments ph : simpl never.
Arguments Nat.ltb : simpl never.
Arguments Nat.leb : simpl never.

Section Refine.
Variable cf : cfg.
Variable d : nat.
Hypothesis Hp : (c_my cf < c_n cf)%nat.
Hypothesis Hd : (d < c_n cf)%nat.
Hypothesis Hpd : c_my cf <> d.

Let n := c_n cf.
Let t := c_t cf.
Let p := c_my cf.

Notation vecF := (vecF d).
Notation vecOk := (vecOk cf d).
Notation ansF := (ansF cf d).
Notation ansEarly := (ansEarly cf d).
Notation fatal := (fatal cf d).
Notation compF := (compF cf d).
Notation shF := (shF d).
Notation forced := (forced d).
Notation ownc := (ownc cf d).
Notation complained := (complained cf d).
Notation Phi := (Phi cf d).

(* ---------------- facts of A ++ [e] ---------------- *)
Lemma vecF_app A k x :
  vecF (A ++ [(k, x)]) =
  match vecF A with
  | Some v => Some v
  | None => match x with IB o (MVec vb) => if Nat.eqb o d && Nat.eqb k 0 then Some vb else None | _ => None end
  end.
Proof.
  induction A as [|[k' y] A IH]; cbn.
  - destruct x as [o m| | |]; try reflexivity; destruct m; reflexivity.
  - destruct y as [o m| | |]; try exact IH. destruct m; try exact IH.
    destruct (Nat.eqb o d && Nat.eqb k' 0); [reflexivity|exact IH].
Qed.

Lemma shF_app A k x :
  shF (A ++ [(k, x)]) =
  match shF A with
  | Some v => Some v
  | None => match x with IP o m => if Nat.eqb o d && Nat.eqb k 0 then Some m else None | _ => None end
  end.
Proof.
  induction A as [|[k' y] A IH]; cbn.
  - destruct x as [o m|o m| |]; reflexivity.
  - destruct y as [o m|o m| |]; try exact IH.
    destruct (Nat.eqb o d && Nat.eqb k' 0); [reflexivity|exact IH].
Qed.

Definition ans_of (c : nat) (x : item) : option Z :=
  match x with IB o m => answer_for cf d c o m | _ => None end.

Lemma ansF_app A k x c :
  ansF (A ++ [(k, x)]) c = match ansF A c with Some z => Some z | None => ans_of c x end.
Proof.
  induction A as [|[k' y] A IH]; cbn.
  - destruct x as [o m| | |]; try reflexivity. cbn. destruct (answer_for cf d c o m); reflexivity.
  - destruct y as [o m| | |]; try exact IH. destruct (answer_for cf d c o m); [reflexivity|exact IH].
Qed.

Lemma ansEarly_app A k x c :
  ansEarly (A ++ [(k, x)]) c = ansEarly A c || (match ans_of c x with Some _ => Nat.ltb k 2 | None => false end).
Proof.
  induction A as [|[k' y] A IH]; cbn.
  - destruct x as [o m| | |]; cbn; try reflexivity. rewrite orb_false_r. reflexivity.
  - destruct y as [o m| | |]; try exact IH. rewrite IH. rewrite orb_assoc. reflexivity.
Qed.

Definition fatal_of (k : nat) (x : item) : bool :=
  match x with IB o m => Nat.eqb o d && fatal_msg cf k m | _ => false end.

Lemma fatal_app A k x : fatal (A ++ [(k, x)]) = fatal A || fatal_of k x.
Proof.
  induction A as [|[k' y] A IH]; cbn.
  - destruct x as [o m| | |]; cbn; try reflexivity. rewrite orb_false_r. reflexivity.
  - destruct y as [o m| | |]; try exact IH. rewrite IH. rewrite orb_assoc. reflexivity.
Qed.

Definition comp_of (c k : nat) (x : item) : bool :=
  match x with IB o m => complaint_of cf d c k o m | _ => false end.

Lemma compF_app A k x c : compF (A ++ [(k, x)]) c = compF A c || comp_of c k x.
Proof.
  induction A as [|[k' y] A IH]; cbn.
  - destruct x as [o m| | |]; cbn; try reflexivity. rewrite orb_false_r. reflexivity.
  - destruct y as [o m| | |]; try exact IH. rewrite IH. rewrite orb_assoc. reflexivity.
Qed.

Lemma forced_app A k x :
  forced (A ++ [(k, x)]) = forced A || match x with IForce j => Nat.eqb j d | _ => false end.
Proof.
  induction A as [|[k' y] A IH]; cbn.
  - destruct x; cbn; try reflexivity. rewrite orb_false_r. reflexivity.
  - destruct y; try exact IH. rewrite IH. rewrite orb_assoc. reflexivity.
Qed.

Lemma nph_app A k x :
  nph (A ++ [(k, x)]) = if is_timeout x then Nat.min 2 (S (length (filter (fun kx => is_timeout (snd kx)) A))) else nph A.
Proof.
  unfold nph. rewrite filter_app, app_length. cbn [filter snd]. destruct (is_timeout x); cbn [length]; [rewrite Nat.add_1_r|rewrite Nat.add_0_r]; reflexivity.
Qed.

(* ---------------- the abstraction ---------------- *)
Definition absEntry (rc : bool) (a : option Z) : option complaint :=
  match rc, a with
  | false, None => None
  | _, Some z => Some (mkC rc true z)
  | true, None => Some (mkC true false 0)
  end.

Definition isSome {X} (o : option X) : bool := match o with Some _ => true | None => false end.

Record StateAbs (A : alist) (q : qinst) : Prop := mkSA {
  sa_st : q_st q = Nat.leb 1 (nph A);
  sa_ct : q_ct q = Nat.leb 2 (nph A);
  sa_vr : v_vArecv (q_v q) = isSome (vecF A);
  sa_vok : forall a, vecOk A = Some a -> v_vA (q_v q) = VAFull a /\ v_y (q_v q) = Some (pubkeys cf a);
  sa_vnone : vecOk A = None -> v_y (q_v q) = None;
  sa_xr : v_xrecv (q_v q) = isSome (shF A);
  sa_compl : forall c, q_compl q c = absEntry (complained A c) (ansF A c);
  sa_early : (nph A < 2)%nat -> forall c, ansEarly A c = isSome (ansF A c);
  (* the private share *)
  sa_x : forall a, vecOk A = Some a -> isSome (shF A) = true \/ (1 <= nph A)%nat ->
         v_x (q_v q) = peval a (Z.of_nat p + 1) \/ (complained A p = true /\ ansF A p = None);
  sa_x0 : vecF A = None -> complained A p = true -> forall z, ansF A p = Some z -> v_x (q_v q) = z;
  sa_x1 : vecF A = None -> forall z, shF A = Some (MShare (SVal z)) -> readable z = true -> v_x (q_v q) = z
}.

Definition Refines (A : alist) (q : qinst) : Prop :=
  (q_disq q = false -> StateAbs A q /\ Phi A = false) /\
  (q_disq q = true -> Phi A = true).

(* facts only enter through these basic functions *)
Definition same_facts (A B : alist) : Prop :=
  vecF A = vecF B /\ shF A = shF B /\ (forall c, ansF A c = ansF B c) /\
  (forall c, ansEarly A c = ansEarly B c) /\ fatal A = fatal B /\
  (forall c, compF A c = compF B c) /\ forced A = forced B /\ nph A = nph B.

Lemma existsb_ext' {X} (f g : X -> bool) l : (forall x, f x = g x) -> existsb f l = existsb g l.
Proof. intro H. induction l as [|a l IH]; cbn; [reflexivity|]. rewrite H, IH. reflexivity. Qed.

Lemma filter_ext' {X} (f g : X -> bool) l : (forall x, f x = g x) -> filter f l = filter g l.
Proof. intro H. induction l as [|a l IH]; cbn; [reflexivity|]. rewrite H, IH. reflexivity. Qed.

Lemma same_vecOk A B : vecF A = vecF B -> vecOk A = vecOk B.
Proof. unfold DkgQualFacts.vecOk. intros ->. reflexivity. Qed.

Lemma same_ownc A B : same_facts A B -> ownc A = ownc B.
Proof.
  intros (V & S & _ & _ & _ & _ & _ & N). unfold DkgQualFacts.ownc. rewrite S, N, (same_vecOk _ _ V). reflexivity.
Qed.

Lemma same_complained A B c : same_facts A B -> complained A c = complained B c.
Proof.
  intros H. unfold DkgQualFacts.complained. rewrite (same_ownc _ _ H).
  destruct H as (_ & _ & _ & _ & _ & C & _). rewrite C. reflexivity.
Qed.

Lemma same_Phi A B : same_facts A B -> Phi A = Phi B.
Proof.
  intros H. pose proof (same_complained A B) as HC. pose proof H as (V & S & An & Ae & F & C & Fo & N).
  unfold DkgQualFacts.Phi. f_equal; [f_equal; [f_equal; [f_equal; [f_equal; [f_equal|]|]|]|]|].
  - exact Fo.
  - exact F.
  - unfold badFirst. apply existsb_ext'. intro c. rewrite An. reflexivity.
  - unfold badVec. rewrite V. reflexivity.
  - unfold noVec. rewrite N, V. reflexivity.
  - unfold tooMany, nkeys. rewrite N. f_equal. f_equal. f_equal. apply filter_ext'. intro c.
    unfold keyF. rewrite (HC c H), Ae. reflexivity.
  - unfold wrongAns. rewrite (same_vecOk _ _ V). destruct (vecOk B); [|reflexivity].
    apply existsb_ext'. intro c. rewrite (HC c H), An. reflexivity.
Qed.

Lemma same_StateAbs A B q : same_facts A B -> StateAbs A q -> StateAbs B q.
Proof.
  intros H S. pose proof (same_complained A B) as HC. pose proof H as (V & Sh & An & Ae & F & C & Fo & N).
  destruct S. constructor; rewrite <- ?N, <- ?V, <- ?Sh, <- ?(same_vecOk _ _ V); auto.
  - intro c. rewrite <- (HC c H), <- An. auto.
  - intros Hn c. rewrite <- Ae, <- An. auto.
  - intros a Ea Hs. rewrite <- (HC p H), <- An. auto.
  - intros Hv Hc z Ez. rewrite <- (HC p H) in Hc. rewrite <- An in Ez. auto.
Qed.

Lemma same_Refines A B q : same_facts A B -> Refines A q -> Refines B q.
Proof.
  intros H [R1 R2]. split.
  - intro Hq. destruct (R1 Hq) as [S P]. split; [eapply same_StateAbs; eauto|]. rewrite <- (same_Phi _ _ H). exact P.
  - intro Hq. rewrite <- (same_Phi _ _ H). auto.
Qed.

(* ---------------- monotonicity ---------------- *)
Lemma nph_le2 A : (nph A <= 2)%nat.
Proof. unfold nph. lia. Qed.

Lemma nph_mono A k x : (nph A <= nph (A ++ [(k, x)]))%nat.
Proof. rewrite nph_app. destruct (is_timeout x); [|lia]. unfold nph. lia. Qed.

Lemma vecF_keep A k x v : vecF A = Some v -> vecF (A ++ [(k, x)]) = Some v.
Proof. intro E. rewrite vecF_app, E. reflexivity. Qed.

Lemma vecF_late A k x : (1 <= k)%nat -> vecF (A ++ [(k, x)]) = vecF A.
Proof.
  intro Hk. rewrite vecF_app. destruct (vecF A); [reflexivity|].
  destruct x as [o m| | |]; try reflexivity. destruct m; try reflexivity.
  destruct k; [lia|]. rewrite andb_false_r. reflexivity.
Qed.

Lemma shF_late A k x : (1 <= k)%nat -> shF (A ++ [(k, x)]) = shF A.
Proof.
  intro Hk. rewrite shF_app. destruct (shF A); [reflexivity|].
  destruct x as [o m|o m| |]; try reflexivity.
  destruct k; [lia|]. rewrite andb_false_r. reflexivity.
Qed.

Lemma vecOk_keep A k x a : vecOk A = Some a -> vecOk (A ++ [(k, x)]) = Some a.
Proof.
  unfold DkgQualFacts.vecOk. destruct (vecF A) as [v|] eqn:E; [|discriminate].
  rewrite (vecF_keep _ k x _ E). auto.
Qed.

Lemma ansF_keep A k x c z : ansF A c = Some z -> ansF (A ++ [(k, x)]) c = Some z.
Proof. intro E. rewrite ansF_app, E. reflexivity. Qed.

Lemma ownc_mono A x : ownc A = true -> ownc (A ++ [(nph A, x)]) = true.
Proof.
  unfold DkgQualFacts.ownc. intro H.
  destruct (shF A) as [m|] eqn:Es.
  - rewrite shF_app, Es. destruct m as [|sb|vb|cb|ab|tg]; auto. destruct sb as [|z]; auto.
    destruct (readable z); auto.
    destruct (vecOk A) as [a|] eqn:Ev; [|discriminate]. rewrite (vecOk_keep _ _ _ _ Ev). exact H.
  - apply andb_prop in H as [H1 H2]. apply Nat.leb_le in H1.
    rewrite shF_late by exact H1. rewrite Es.
    destruct (vecOk A) as [a|] eqn:Ev; [|discriminate]. rewrite (vecOk_keep _ _ _ _ Ev).
    rewrite andb_true_r. apply Nat.leb_le. pose proof (nph_mono A (nph A) x). lia.
Qed.

Lemma complained_mono A x c : complained A c = true -> complained (A ++ [(nph A, x)]) c = true.
Proof.
  unfold DkgQualFacts.complained. destruct (Nat.eqb c (c_my cf)); [intro H; apply ownc_mono; exact H|].
  intro H. rewrite compF_app, H. reflexivity.
Qed.

Lemma existsb_mono {X} (f g : X -> bool) l : (forall x, f x = true -> g x = true) -> existsb f l = true -> existsb g l = true.
Proof.
  intros H E. apply existsb_exists in E as (x & Hin & Hx). apply existsb_exists. exists x. split; auto.
Qed.

Lemma filter_mono_len {X} (f g : X -> bool) l : (forall x, f x = true -> g x = true) ->
  (length (filter f l) <= length (filter g l))%nat.
Proof.
  intro H. induction l as [|a l IH]; cbn; [lia|].
  destruct (f a) eqn:Ef; [rewrite (H a Ef); cbn; lia|]. destruct (g a); cbn; lia.
Qed.

Lemma Phi_mono A x : Phi A = true -> Phi (A ++ [(nph A, x)]) = true.
Proof.
  unfold DkgQualFacts.Phi. intro H.
  repeat (apply orb_true_iff in H as [H|H]).
  - rewrite forced_app, H. reflexivity.
  - rewrite fatal_app, H. cbn. rewrite !orb_true_r. reflexivity.
  - assert (E : badFirst cf d (A ++ [(nph A, x)]) = true).
    { unfold badFirst in *. eapply existsb_mono; [|exact H]. intros c Hc. cbn in Hc.
      destruct (ansF A c) as [z|] eqn:Ez; [|discriminate]. rewrite (ansF_keep _ _ _ _ _ Ez). exact Hc. }
    rewrite E. rewrite !orb_true_r. reflexivity.
  - assert (E : badVec d (A ++ [(nph A, x)]) = true).
    { unfold badVec in *. destruct (vecF A) as [v|] eqn:Ev; [|discriminate]. rewrite (vecF_keep _ _ _ _ Ev). exact H. }
    rewrite E. rewrite !orb_true_r. reflexivity.
  - assert (E : noVec d (A ++ [(nph A, x)]) = true).
    { unfold noVec in *. apply andb_prop in H as [H1 H2]. apply Nat.leb_le in H1.
      rewrite vecF_late by exact H1. rewrite H2, andb_true_r. apply Nat.leb_le.
      pose proof (nph_mono A (nph A) x). lia. }
    rewrite E. rewrite !orb_true_r. reflexivity.
  - assert (E : tooMany cf d (A ++ [(nph A, x)]) = true).
    { unfold tooMany in *. apply andb_prop in H as [H1 H2]. apply Nat.leb_le in H1. apply Nat.ltb_lt in H2.
      apply andb_true_intro. split.
      - apply Nat.leb_le. pose proof (nph_mono A (nph A) x). lia.
      - apply Nat.ltb_lt. eapply Nat.lt_le_trans; [exact H2|]. unfold nkeys. apply filter_mono_len.
        intros c Hc. unfold keyF in *. apply orb_true_iff in Hc as [Hc|Hc].
        + rewrite (complained_mono _ _ _ Hc). reflexivity.
        + rewrite ansEarly_app, Hc. cbn. rewrite orb_true_r. reflexivity. }
    rewrite E. rewrite !orb_true_r. reflexivity.
  - assert (E : wrongAns cf d (A ++ [(nph A, x)]) = true).
    { unfold wrongAns in *. destruct (vecOk A) as [a|] eqn:Ev; [|discriminate]. rewrite (vecOk_keep _ _ _ _ Ev).
      eapply existsb_mono; [|exact H]. intros c Hc. cbn in Hc. apply andb_prop in Hc as [H1 H2].
      rewrite (complained_mono _ _ _ H1). cbn.
      destruct (ansF A c) as [z|] eqn:Ez; [|discriminate]. rewrite (ansF_keep _ _ _ _ _ Ez). exact H2. }
    rewrite E. rewrite !orb_true_r. reflexivity.
Qed.

(* ---------------- consequences of Phi = false ---------------- *)
Lemma Phi_false_inv A : Phi A = false ->
  forced A = false /\ fatal A = false /\ badFirst cf d A = false /\ badVec d A = false /\
  noVec d A = false /\ tooMany cf d A = false /\ wrongAns cf d A = false.
Proof.
  unfold DkgQualFacts.Phi. intro H. repeat (apply orb_false_iff in H as [H ?]). repeat split; assumption.
Qed.

Lemma Phi_false_intro A :
  forced A = false -> fatal A = false -> badFirst cf d A = false -> badVec d A = false ->
  noVec d A = false -> tooMany cf d A = false -> wrongAns cf d A = false -> Phi A = false.
Proof. unfold DkgQualFacts.Phi. intros -> -> -> -> -> -> ->. reflexivity. Qed.

Lemma answer_for_lt c o m z : answer_for cf d c o m = Some z -> (c < n)%nat /\ o = d.
Proof.
  unfold answer_for. destruct m as [|sb|vb|cb|ab|tg]; try discriminate. destruct ab as [|b z']; try discriminate.
  destruct (Nat.eqb_spec o d); cbn; [|discriminate].
  destruct (Z.of_nat (c_n cf) <=? b) eqn:E; cbn; [discriminate|].
  destruct (Nat.eqb_spec (Z.to_nat b) c); [|discriminate]. intros _. apply Z.leb_gt in E. unfold n. split; [lia|assumption].
Qed.

Lemma ansF_lt A c z : ansF A c = Some z -> (c < n)%nat.
Proof.
  induction A as [|[k y] A IH]; cbn; [discriminate|].
  destruct y as [o m| | |]; auto. destruct (answer_for cf d c o m) eqn:E; auto.
  intros _. eapply answer_for_lt; eauto.
Qed.

Lemma badFirst_readable A c z : badFirst cf d A = false -> ansF A c = Some z -> readable z = true.
Proof.
  intros H E. unfold badFirst in H. pose proof (ansF_lt _ _ _ E) as Hc.
  destruct (readable z) eqn:Er; [reflexivity|]. exfalso.
  assert (X : existsb (fun c => match ansF A c with Some z => negb (readable z) | None => false end) (seq 0 (c_n cf)) = true).
  { apply existsb_exists. exists c. split; [apply in_seq; unfold n in Hc; lia|]. rewrite E, Er. reflexivity. }
  congruence.
Qed.

Lemma compF_props A c : compF A c = true -> c <> d /\ c <> p /\ (c < n)%nat.
Proof.
  induction A as [|[k y] A IH]; cbn; [discriminate|].
  destruct y as [o m| | |]; auto. intro H. apply orb_true_iff in H as [H|H]; auto.
  unfold complaint_of in H. destruct m; try discriminate. destruct c0; try discriminate.
  repeat (apply andb_prop in H as [H ?]).
  repeat match goal with E : negb _ = true |- _ => apply negb_true_iff in E end.
  repeat match goal with E : Nat.eqb _ _ = false |- _ => apply Nat.eqb_neq in E end.
  match goal with E : Nat.ltb c _ = true |- _ => apply Nat.ltb_lt in E end. auto.
Qed.

Lemma complained_lt A c : complained A c = true -> (c < n)%nat.
Proof.
  unfold DkgQualFacts.complained. destruct (Nat.eqb_spec c (c_my cf)); [intros _; subst; exact Hp|].
  intro H. apply compF_props in H. tauto.
Qed.

Lemma read_star_readable z old : readable z = true -> read_star z old = (true, z).
Proof. unfold readable, read_star. intros ->. reflexivity. Qed.

Lemma read_star_unreadable z old : readable z = false -> fst (read_star z old) = false.
Proof. unfold readable, read_star. intros ->. destruct (z =? 0); reflexivity. Qed.

Lemma pubkeys_nth_error a c : (c < n)%nat -> nth_error (pubkeys cf a) c = Some (peval a (Z.of_nat c + 1)).
Proof.
  intro Hc. unfold pubkeys. rewrite nth_error_map, nth_error_nth' with (d := 0%nat) by (rewrite seq_length; exact Hc).
  rewrite seq_nth by exact Hc. reflexivity.
Qed.

Lemma in_range_of_nat o : in_range cf (Z.of_nat o) = Nat.ltb o n.
Proof.
  unfold in_range. destruct (Nat.ltb_spec o n) as [H|H].
  - apply andb_true_intro. split; [apply Z.leb_le|apply Z.ltb_lt]; unfold n in *; lia.
  - apply andb_false_iff. right. apply Z.ltb_ge. unfold n in *. lia.
Qed.

(* processing one input of a running instance *)
Definition istep (q : qinst) (x : item) : qinst * list event :=
  let '(s', _, ev) := qual_step cf d (mkQS true q) (call_of x) in (qs_q s', ev).

Lemma same_facts_irrelevant A k x :
  is_timeout x = false ->
  match x with IB o (MVec _) => Nat.eqb o d && Nat.eqb k 0 | _ => false end = false ->
  match x with IP o _ => Nat.eqb o d && Nat.eqb k 0 | _ => false end = false ->
  (forall c, ans_of c x = None) -> fatal_of k x = false -> (forall c, comp_of c k x = false) ->
  match x with IForce j => Nat.eqb j d | _ => false end = false ->
  same_facts A (A ++ [(k, x)]).
Proof.
  intros Ht Hv Hs Ha Hf Hc Hfo. unfold same_facts.
  split; [|split; [|split; [|split; [|split; [|split; [|split]]]]]].
  - rewrite vecF_app. destruct (vecF A); [reflexivity|].
    destruct x as [o m| | |]; try reflexivity. destruct m; try reflexivity. rewrite Hv. reflexivity.
  - rewrite shF_app. destruct (shF A); [reflexivity|].
    destruct x as [o m|o m| |]; try reflexivity. rewrite Hs. reflexivity.
  - intro c. rewrite ansF_app, Ha. destruct (ansF A c); reflexivity.
  - intro c. rewrite ansEarly_app, Ha. rewrite orb_false_r. reflexivity.
  - rewrite fatal_app, Hf, orb_false_r. reflexivity.
  - intro c. rewrite compF_app, Hc, orb_false_r. reflexivity.
  - rewrite forced_app, Hfo, orb_false_r. reflexivity.
  - rewrite nph_app, Ht. reflexivity.
Qed.

(* a broadcast that is not from the dealer only matters if it is a valid complaint *)
Lemma not_dealer_irrelevant A k o m :
  o <> d -> (forall c, complaint_of cf d c k o m = false) -> same_facts A (A ++ [(k, IB o m)]).
Proof.
  intros Ho Hc. apply same_facts_irrelevant; cbn; auto.
  - destruct m; try reflexivity. rewrite (proj2 (Nat.eqb_neq o d) Ho). reflexivity.
  - intro c. unfold answer_for. destruct m; try reflexivity. destruct a; try reflexivity.
    rewrite (proj2 (Nat.eqb_neq o d) Ho). reflexivity.
  - rewrite (proj2 (Nat.eqb_neq o d) Ho). reflexivity.
Qed.

Lemma complaint_of_self k m c : complaint_of cf d c k p m = false.
Proof.
  unfold complaint_of. destruct m; try reflexivity. destruct c0; try reflexivity.
  destruct (Nat.eqb_spec p c); [|reflexivity]. subst c.
  unfold p. rewrite (Nat.eqb_refl (c_my cf)). cbn [negb]. rewrite !andb_false_r. reflexivity.
Qed.

Lemma complaint_of_far k o m c : (n <= o)%nat -> complaint_of cf d c k o m = false.
Proof.
  intro Ho. unfold complaint_of. destruct m; try reflexivity. destruct c0; try reflexivity.
  destruct (Nat.eqb_spec o c); [|reflexivity]. subst c.
  assert (E : Nat.ltb o (c_n cf) = false) by (apply Nat.ltb_ge; exact Ho).
  rewrite E. rewrite !andb_false_r. reflexivity.
Qed.

(* a disqualified instance stays disqualified *)
Lemma istep_disq q x : q_disq q = true -> q_disq (fst (istep q x)) = true.
Proof.
  intro Hq. unfold istep. destruct x as [o m|o m| |j]; cbn [call_of qual_step qs_run qs_q].
  - unfold q_broadcast. cbn [negb]. destruct (in_range cf (Z.of_nat o)); cbn; [|exact Hq].
    destruct (Nat.eqb (c_my cf) (Z.to_nat (Z.of_nat o))); cbn; [exact Hq|]. rewrite Hq. cbn. exact Hq.
  - unfold q_private. cbn [negb]. destruct (in_range cf (Z.of_nat o)); cbn; [|exact Hq].
    destruct (Nat.eqb (c_my cf) (Z.to_nat (Z.of_nat o))); cbn; [exact Hq|]. rewrite Hq. cbn. exact Hq.
  - unfold q_next_timeout. cbn [negb]. destruct (q_ct q); cbn; [exact Hq|]. rewrite Hq.
    destruct (negb (q_st q)); cbn; exact Hq.
  - unfold q_force. cbn [negb]. destruct (in_range cf (Z.of_nat j)); cbn; [|exact Hq].
    destruct (Nat.eqb (Z.to_nat (Z.of_nat j)) d); cbn; [reflexivity|exact Hq].
Qed.

(* ---------------- a valid complaint of another participant ---------------- *)
Section Complaint.
Variables (A : alist) (o : nat) (b : Z).
Hypothesis Ho : o <> d.
Hypothesis Hop : o <> p.
Hypothesis Hon : (o < n)%nat.
Hypothesis Hb : (Z.of_nat n <=? b) = false.
Hypothesis Hbd : Z.to_nat b = d.
Hypothesis Hk : (nph A < 2)%nat.

Let B := A ++ [(nph A, IB o (MComplaint (CIdx b)))].

Lemma cmp_vecF : vecF B = vecF A.
Proof. unfold B. rewrite vecF_app. destruct (vecF A); reflexivity. Qed.
Lemma cmp_shF : shF B = shF A.
Proof. unfold B. rewrite shF_app. destruct (shF A); reflexivity. Qed.
Lemma cmp_ansF c : ansF B c = ansF A c.
Proof. unfold B. rewrite ansF_app. cbn. destruct (ansF A c); reflexivity. Qed.
Lemma cmp_ansEarly c : ansEarly B c = ansEarly A c.
Proof. unfold B. rewrite ansEarly_app. cbn. rewrite orb_false_r. reflexivity. Qed.
Lemma cmp_fatal : fatal B = fatal A.
Proof.
  unfold B. rewrite fatal_app. cbn. rewrite (proj2 (Nat.eqb_neq o d) Ho). cbn. rewrite orb_false_r. reflexivity.
Qed.
Lemma cmp_forced : forced B = forced A.
Proof. unfold B. rewrite forced_app. rewrite orb_false_r. reflexivity. Qed.
Lemma cmp_nph : nph B = nph A.
Proof. unfold B. rewrite nph_app. reflexivity. Qed.
Lemma cmp_compF c : compF B c = compF A c || Nat.eqb o c.
Proof.
  unfold B. rewrite compF_app. f_equal. unfold comp_of, complaint_of. unfold n in Hb. rewrite Hb, Hbd, Nat.eqb_refl.
  destruct (Nat.eqb_spec o c) as [<-|]; [|reflexivity].
  rewrite (proj2 (Nat.eqb_neq o d) Ho). unfold p in Hop. rewrite (proj2 (Nat.eqb_neq o (c_my cf)) Hop).
  rewrite (proj2 (Nat.ltb_lt o (c_n cf)) Hon), (proj2 (Nat.ltb_lt (nph A) 2) Hk). reflexivity.
Qed.
Lemma cmp_vecOk : vecOk B = vecOk A.
Proof. apply same_vecOk. apply cmp_vecF. Qed.
Lemma cmp_ownc : ownc B = ownc A.
Proof. unfold DkgQualFacts.ownc. rewrite cmp_shF, cmp_nph, cmp_vecOk. reflexivity. Qed.
Lemma cmp_complained c : complained B c = complained A c || Nat.eqb o c.
Proof.
  unfold DkgQualFacts.complained. destruct (Nat.eqb_spec c (c_my cf)) as [->|Hc].
  - rewrite cmp_ownc. rewrite (proj2 (Nat.eqb_neq o (c_my cf)) Hop), orb_false_r. reflexivity.
  - apply cmp_compF.
Qed.
End Complaint.

Lemma existsb_or_point (f g : nat -> bool) o l :
  existsb (fun c => (f c || Nat.eqb o c) && g c) l
  = existsb (fun c => f c && g c) l || (existsb (Nat.eqb o) l && g o).
Proof.
  induction l as [|a l IH]; cbn; [reflexivity|]. rewrite IH.
  set (E1 := existsb (fun c => f c && g c) l). set (E2 := existsb (Nat.eqb o) l).
  destruct (Nat.eqb_spec o a) as [->|]; destruct (f a), (g a), E1, E2; reflexivity.
Qed.

Lemma existsb_eqb_seq o k : (o < k)%nat -> existsb (Nat.eqb o) (seq 0 k) = true.
Proof. intro H. apply existsb_exists. exists o. split; [apply in_seq; lia|apply Nat.eqb_refl]. Qed.

Lemma refines_same A B q : same_facts A B -> q_disq q = false -> StateAbs A q -> Phi A = false -> Refines B q.
Proof.
  intros H Hq S P. apply (same_Refines A B q H). split; [auto|congruence].
Qed.

Lemma upd_same m k e : upd m k e k = Some e.
Proof. unfold upd. rewrite Nat.eqb_refl. reflexivity. Qed.
Lemma upd_other m k e c : c <> k -> upd m k e c = m c.
Proof. intro H. unfold upd. rewrite (proj2 (Nat.eqb_neq c k) H). reflexivity. Qed.

Lemma SA_transfer A B q q' :
  StateAbs A q ->
  nph B = nph A -> vecF B = vecF A -> shF B = shF A -> (forall c, ansF B c = ansF A c) ->
  (forall c, ansEarly B c = ansEarly A c) -> complained B p = complained A p ->
  q_st q' = q_st q -> q_ct q' = q_ct q -> q_v q' = q_v q ->
  (forall c, q_compl q' c = absEntry (complained B c) (ansF B c)) ->
  StateAbs B q'.
Proof.
  intros [Sst Sct Svr Svok Svnone Sxr Scompl Searly Sx Sx0 Sx1] Fn Fv Fs Fa Fe Fp E1 E2 E3 E4.
  pose proof (same_vecOk _ _ Fv) as Fvo.
  refine (mkSA _ _ _ _ _ _ _ _ _ _ _ _ _); rewrite ?Fn, ?Fv, ?Fs, ?Fvo, ?E1, ?E2, ?E3, ?Fp; auto.
  - intros Hn c. rewrite Fe, Fa. apply Searly. exact Hn.
  - intros a Ea Hs. rewrite Fa. apply Sx; auto.
  - intros Hv Hc z0 Ez. rewrite Fa in Ez. apply Sx0; auto.
Qed.

(* ---------------- a broadcast that is not from the dealer ---------------- *)
(* when only the complaints / answers changed before the complaints timeout, Phi is decided
   by its wrong-answer and unreadable-answer clauses *)
Lemma Phi_early A B w :
  Phi A = false -> (nph A < 2)%nat ->
  forced B = forced A -> fatal B = fatal A -> vecF B = vecF A -> nph B = nph A ->
  badFirst cf d B || wrongAns cf d B = w -> Phi B = w.
Proof.
  intros P Hk Ffo Ff Fv Fn Hw. destruct (Phi_false_inv A P) as (P1 & P2 & P3 & P4 & P5 & P6 & P7).
  unfold DkgQualFacts.Phi. rewrite Ffo, Ff, P1, P2.
  assert (E4 : badVec d B = false) by (unfold badVec; rewrite Fv; exact P4).
  assert (E5 : noVec d B = false) by (unfold noVec; rewrite Fn, Fv; exact P5).
  assert (E6 : tooMany cf d B = false).
  { unfold tooMany. rewrite Fn. assert (E : Nat.leb 2 (nph A) = false) by (apply Nat.leb_gt; exact Hk). rewrite E. reflexivity. }
  rewrite E4, E5, E6. rewrite <- Hw. destruct (badFirst cf d B), (wrongAns cf d B); reflexivity.
Qed.

Lemma badFirst_same A B : (forall c, ansF B c = ansF A c) -> badFirst cf d B = badFirst cf d A.
Proof. intro H. unfold badFirst. apply existsb_ext'. intro c. rewrite H. reflexivity. Qed.

Ltac red1 := cbn [q_disq qset_disq qset_compl qset_v qset_st qset_ct q_v q_st q_ct q_compl fst snd negb andb orb
                     absEntry c_recv c_ans c_val].

Lemma step_complaint_other A q o cb :
  q_disq q = false -> StateAbs A q -> Phi A = false -> o <> d -> (o < n)%nat -> c_my cf <> o ->
  match q_receive_complaint cf d o cb q with
  | Some (q', _) => Refines (A ++ [(nph A, IB o (MComplaint cb))]) q'
  | None => False
  end.
Proof.
  intros Hq S P Ho Hon Hop. unfold q_receive_complaint.
  pose proof S as [Sst Sct Svr Svok Svnone Sxr Scompl Searly Sx Sx0 Sx1].
  destruct (q_ct q) eqn:Ect.
  { red1. apply (refines_same A); auto.
    apply not_dealer_irrelevant; auto. intro c. unfold complaint_of. destruct cb; try reflexivity.
    symmetry in Sct. apply Nat.leb_le in Sct.
    assert (E : Nat.ltb (nph A) 2 = false) by (apply Nat.ltb_ge; exact Sct). rewrite E, !andb_false_r. reflexivity. }
  assert (Hk : (nph A < 2)%nat).
  { symmetry in Sct. apply Nat.leb_gt in Sct. exact Sct. }
  rewrite (proj2 (Nat.eqb_neq o d) Ho).
  destruct cb as [|b].
  { red1. apply (refines_same A); auto. apply not_dealer_irrelevant; auto. }
  destruct (Z.of_nat (c_n cf) <=? b) eqn:Eb.
  { red1. apply (refines_same A); auto. apply not_dealer_irrelevant; auto.
    intro c. unfold complaint_of. rewrite Eb. red1. rewrite !andb_false_r. reflexivity. }
  cbn [negb].
  destruct (Nat.eqb_spec (Z.to_nat b) d) as [Ebd|Ebd]; cbn [negb].
  2:{ red1. apply (refines_same A); auto. apply not_dealer_irrelevant; auto.
      intro c. unfold complaint_of. rewrite (proj2 (Nat.eqb_neq _ _) Ebd). rewrite !andb_false_r. reflexivity. }
  (* a valid complaint against the dealer *)
  assert (Hop' : o <> p) by (unfold p; congruence).
  pose proof (cmp_vecF A o b) as Fv. pose proof (cmp_shF A o b) as Fs.
  pose proof (cmp_ansF A o b) as Fa. pose proof (cmp_ansEarly A o b) as Fe.
  pose proof (cmp_fatal A o b Ho) as Ff. pose proof (cmp_forced A o b) as Ffo.
  pose proof (cmp_nph A o b) as Fn. pose proof (cmp_vecOk A o b) as Fvo.
  pose proof (cmp_complained A o b Ho Hop' Hon Eb Ebd Hk) as Fc.
  set (B := A ++ [(nph A, IB o (MComplaint (CIdx b)))]) in *.
  destruct (Phi_false_inv A P) as (P1 & P2 & P3 & P4 & P5 & P6 & P7).
  assert (Hcomp_o : complained A o = compF A o).
  { unfold DkgQualFacts.complained. rewrite (proj2 (Nat.eqb_neq o (c_my cf)) Hop'). reflexivity. }
  assert (PB : forall w, wrongAns cf d B = w -> Phi B = w).
  { intros w Hw. apply (Phi_early A B w P Hk); auto.
    rewrite (badFirst_same A B Fa), P3. exact Hw. }
  (* wrongAns B in terms of the entry of o *)
  assert (WB : wrongAns cf d B =
               match vecOk A with
               | Some a => match ansF A o with
                           | Some z => readable z && negb (z =? peval a (Z.of_nat o + 1))
                           | None => false end
               | None => false end).
  { unfold wrongAns. rewrite Fvo. unfold wrongAns in P7. destruct (vecOk A) as [a|]; [|reflexivity].
    rewrite (existsb_ext' _ (fun c => (complained A c || Nat.eqb o c) &&
               match ansF A c with Some z => readable z && negb (z =? peval a (Z.of_nat c + 1)) | None => false end)).
    2:{ intro c. rewrite Fc, Fa. reflexivity. }
    rewrite existsb_or_point, P7, existsb_eqb_seq by exact Hon. reflexivity. }
  rewrite (Scompl o), Hcomp_o.
  destruct (compF A o) eqn:Eco; destruct (ansF A o) as [z|] eqn:Eao; cbn [absEntry c_recv c_ans c_val].
  + (* already complained and answered: flagged *)
    red1. assert (SF : same_facts A B).
    { unfold same_facts. repeat split; auto; try (intro c; auto).
      - unfold B. rewrite compF_app. unfold comp_of. destruct (compF A c) eqn:E; [reflexivity|]. red1.
        unfold complaint_of. destruct (Nat.eqb_spec o c) as [<-|]; [congruence|reflexivity]. }
    apply (refines_same A); auto.
  + red1. assert (SF : same_facts A B).
    { unfold same_facts. repeat split; auto; try (intro c; auto).
      - unfold B. rewrite compF_app. unfold comp_of. destruct (compF A c) eqn:E; [reflexivity|]. red1.
        unfold complaint_of. destruct (Nat.eqb_spec o c) as [<-|]; [congruence|reflexivity]. }
    apply (refines_same A); auto.
  + (* the answer came first *)
    pose proof (badFirst_readable A o z P3 Eao) as Hrz.
    cbn [qset_compl q_v]. rewrite (proj2 (Nat.eqb_neq (c_my cf) d) Hpd). cbn [negb andb].
    pose proof S as S0.
    assert (Fp : complained B p = complained A p).
    { rewrite Fc, (proj2 (Nat.eqb_neq o p) Hop'), orb_false_r. reflexivity. }
    assert (SAB : forall q', q_st q' = q_st q -> q_ct q' = q_ct q -> q_v q' = q_v q ->
               (forall c, q_compl q' c = upd (q_compl q) o (mkC true true z) c) -> StateAbs B q').
    { intros q' E1 E2 E3 E4. apply (SA_transfer A B q q' S0); auto.
      intro c. rewrite E4, Fc, Fa. destruct (Nat.eqb_spec c o) as [->|Hc].
      - rewrite upd_same, Nat.eqb_refl, orb_true_r, Eao. reflexivity.
      - rewrite upd_other by exact Hc. rewrite (proj2 (Nat.eqb_neq o c)) by (intro; apply Hc; symmetry; assumption). rewrite orb_false_r. apply Scompl. }
    destruct (v_vArecv (q_v q)) eqn:Er; cbn [andb].
    * (* the vector is there: check now *)
      rewrite Svr in Er. destruct (vecF A) as [vb|] eqn:Ev; [|discriminate].
      assert (Hvb : exists l, vb = VOk l).
      { unfold badVec in P4. rewrite Ev in P4. destruct vb; try discriminate. eauto. }
      destruct Hvb as [l ->].
      assert (Evo : vecOk A = Some (fixpoly (c_t cf) l)) by (unfold DkgQualFacts.vecOk; rewrite Ev; reflexivity).
      destruct (Svok _ Evo) as [EvA Ey].
      unfold check_complaint. cbn [q_v qset_compl]. rewrite Ey, (pubkeys_nth_error _ o Hon).
      rewrite Evo, Hrz in WB. cbn [andb] in WB.
      destruct (z =? peval (fixpoly (c_t cf) l) (Z.of_nat o + 1)) eqn:Ez; cbn [negb] in *.
      -- red1. split; intro Hq'; cbn [q_disq qset_disq qset_compl qset_v] in Hq'; [|discriminate]. split; [|apply PB; exact WB].
         apply SAB; auto.
      -- red1. split; intro Hq'; cbn [q_disq qset_disq qset_compl qset_v] in Hq'; [discriminate|]. apply PB. exact WB.
    * (* no vector yet: the check is deferred *)
      red1. rewrite Svr in Er. destruct (vecF A) eqn:Ev; [discriminate|].
      assert (Evo : vecOk A = None) by (unfold DkgQualFacts.vecOk; rewrite Ev; reflexivity).
      rewrite Evo in WB. split; intro Hq'; cbn [q_disq qset_disq qset_compl qset_v] in Hq'; [|rewrite Hq in Hq'; discriminate Hq']. split; [|apply PB; exact WB].
      apply SAB; auto.
  + (* a new complaint *)
    cbn [qset_compl q_v]. rewrite (proj2 (Nat.eqb_neq (c_my cf) d) Hpd). red1.
    assert (WB' : wrongAns cf d B = false) by (rewrite WB; destruct (vecOk A); reflexivity).
    split; intro Hq'; cbn [q_disq qset_disq qset_compl qset_v] in Hq'; [|rewrite Hq in Hq'; discriminate Hq']. split; [|apply PB; exact WB'].
    pose proof S as S0.
    assert (Fp : complained B p = complained A p).
    { rewrite Fc, (proj2 (Nat.eqb_neq o p) Hop'), orb_false_r. reflexivity. }
    apply (SA_transfer A B q _ S0); auto.
    intro c. red1. rewrite Fc, Fa. destruct (Nat.eqb_spec c o) as [->|Hc].
    * rewrite upd_same, Nat.eqb_refl, orb_true_r, Eao. reflexivity.
    * rewrite upd_other by exact Hc. rewrite (proj2 (Nat.eqb_neq o c)) by (intro; apply Hc; symmetry; assumption). rewrite orb_false_r. apply Scompl.
Qed.

Lemma step_IB_other A q o m :
  q_disq q = false -> StateAbs A q -> Phi A = false -> o <> d ->
  Refines (A ++ [(nph A, IB o m)]) (fst (istep q (IB o m))).
Proof.
  intros Hq S P Ho. unfold istep. cbn [call_of qual_step qs_run qs_q]. unfold q_broadcast. cbn [negb].
  rewrite in_range_of_nat, Nat2Z.id.
  destruct (Nat.ltb_spec o n) as [Hon|Hon]; cbn [negb].
  2:{ cbn. apply (refines_same A); auto. apply not_dealer_irrelevant; auto. intro c. apply complaint_of_far. exact Hon. }
  destruct (Nat.eqb_spec (c_my cf) o) as [Hop|Hop].
  { cbn. subst o. apply (refines_same A); auto. apply not_dealer_irrelevant; auto. intro c. apply complaint_of_self. }
  rewrite Hq. rewrite (proj2 (Nat.eqb_neq o d) Ho).
  destruct m as [|sb|vb|cb|ab|tg]; cbn [qpack qlift fst qs_q].
  - apply (refines_same A); auto. apply not_dealer_irrelevant; auto.
  - apply (refines_same A); auto. apply not_dealer_irrelevant; auto.
  - unfold q_receive_vector. rewrite (proj2 (Nat.eqb_neq o d) Ho). cbn.
    apply (refines_same A); auto. apply not_dealer_irrelevant; auto.
  - (* complaint *)
    pose proof (step_complaint_other A q o cb Hq S P Ho Hon Hop) as HC.
    destruct (q_receive_complaint cf d o cb q) as [[q' ev]|]; [exact HC|contradiction].
  - unfold q_receive_answer. rewrite (proj2 (Nat.eqb_neq o d) Ho). cbn.
    apply (refines_same A); auto. apply not_dealer_irrelevant; auto.
  - apply (refines_same A); auto. apply not_dealer_irrelevant; auto.
Qed.

(* ---------------- a well-formed answer of the dealer ---------------- *)
Section Answer.
Variables (A : alist) (b z : Z).
Hypothesis Hb : (Z.of_nat n <=? b) = false.
Let c := Z.to_nat b.
Let B := A ++ [(nph A, IB d (MAnswer (AVal b z)))].

Lemma ans_c_lt : (c < n)%nat.
Proof. apply Z.leb_gt in Hb. unfold c. lia. Qed.

Lemma ans_vecF : vecF B = vecF A.
Proof. unfold B. rewrite vecF_app. destruct (vecF A); reflexivity. Qed.
Lemma ans_shF : shF B = shF A.
Proof. unfold B. rewrite shF_app. destruct (shF A); reflexivity. Qed.
Lemma ans_fatal : fatal B = fatal A.
Proof. unfold B. rewrite fatal_app. unfold fatal_of, fatal_msg. unfold n in Hb. rewrite Hb, andb_false_r, orb_false_r. reflexivity. Qed.
Lemma ans_forced : forced B = forced A.
Proof. unfold B. rewrite forced_app. rewrite orb_false_r. reflexivity. Qed.
Lemma ans_nph : nph B = nph A.
Proof. unfold B. rewrite nph_app. reflexivity. Qed.
Lemma ans_compF c' : compF B c' = compF A c'.
Proof. unfold B. rewrite compF_app. cbn. rewrite orb_false_r. reflexivity. Qed.
Lemma ans_vecOk : vecOk B = vecOk A.
Proof. apply same_vecOk. apply ans_vecF. Qed.
Lemma ans_ownc : ownc B = ownc A.
Proof. unfold DkgQualFacts.ownc. rewrite ans_shF, ans_nph, ans_vecOk. reflexivity. Qed.
Lemma ans_complained c' : complained B c' = complained A c'.
Proof. unfold DkgQualFacts.complained. rewrite ans_ownc, ans_compF. reflexivity. Qed.

Lemma ans_of_this c' : ans_of c' (IB d (MAnswer (AVal b z))) = if Nat.eqb c c' then Some z else None.
Proof.
  unfold ans_of, answer_for. rewrite Nat.eqb_refl. unfold n in Hb. rewrite Hb. cbn [negb andb]. fold c. reflexivity.
Qed.

Lemma ans_ansF c' : ansF B c' = match ansF A c' with Some v => Some v | None => if Nat.eqb c c' then Some z else None end.
Proof. unfold B. rewrite ansF_app, ans_of_this. reflexivity. Qed.

Lemma ans_ansEarly c' : ansEarly B c' = ansEarly A c' || (Nat.eqb c c' && Nat.ltb (nph A) 2).
Proof. unfold B. rewrite ansEarly_app, ans_of_this. destruct (Nat.eqb c c'); reflexivity. Qed.

(* a second answer for the same complainer changes nothing *)
Lemma ans_dup v : ansF A c = Some v -> ((nph A < 2)%nat -> ansEarly A c = true) -> same_facts A B.
Proof.
  intros E He. unfold same_facts.
  split; [symmetry; apply ans_vecF|]. split; [symmetry; apply ans_shF|].
  split; [|split; [|split; [symmetry; apply ans_fatal|split; [|split; [symmetry; apply ans_forced|symmetry; apply ans_nph]]]]].
  - intro c'. rewrite ans_ansF. destruct (ansF A c') eqn:E'; [reflexivity|].
    destruct (Nat.eqb_spec c c') as [<-|]; [rewrite E in E'; discriminate|reflexivity].
  - intro c'. rewrite ans_ansEarly. destruct (Nat.eqb_spec c c') as [<-|]; [|rewrite orb_false_r; reflexivity].
    cbn [andb]. destruct (Nat.ltb_spec (nph A) 2) as [H|H]; [rewrite (He H); reflexivity|rewrite orb_false_r; reflexivity].
  - intro c'. symmetry. apply ans_compF.
Qed.

(* the first answer for c *)
Hypothesis Hfirst : ansF A c = None.

Lemma ans_badFirst : badFirst cf d B = badFirst cf d A || negb (readable z).
Proof.
  unfold badFirst.
  rewrite (existsb_ext' _ (fun c' => (match ansF A c' with Some v => negb (readable v) | None => false end || Nat.eqb c c')
                                     && (match ansF A c' with Some v => negb (readable v) | None => negb (readable z) end))).
  2:{ intro c'. rewrite ans_ansF. destruct (ansF A c') as [v|]; [destruct (readable v), (Nat.eqb c c'); reflexivity|].
      destruct (Nat.eqb c c'); reflexivity. }
  rewrite existsb_or_point, existsb_eqb_seq by exact ans_c_lt. rewrite Hfirst. cbn [andb].
  f_equal. apply existsb_ext'. intro c'. destruct (ansF A c') as [v|]; [destruct (readable v); reflexivity|reflexivity].
Qed.

Lemma ans_wrongAns :
  wrongAns cf d B = wrongAns cf d A ||
    match vecOk A with
    | Some a => complained A c && readable z && negb (z =? peval a (Z.of_nat c + 1))
    | None => false
    end.
Proof.
  unfold wrongAns. rewrite ans_vecOk. destruct (vecOk A) as [a|]; [|reflexivity].
  set (g := fun (v : Z) (c' : nat) => readable v && negb (v =? peval a (Z.of_nat c' + 1))).
  rewrite (existsb_ext' _ (fun c' => ((complained A c' && match ansF A c' with Some v => g v c' | None => false end) || Nat.eqb c c')
                                     && (complained A c' && match ansF A c' with Some v => g v c' | None => g z c' end))).
  2:{ intro c'. rewrite ans_complained, ans_ansF. unfold g. destruct (complained A c'); [|destruct (Nat.eqb c c'); reflexivity]. cbn [andb].
      destruct (ansF A c') as [v|].
      - destruct (readable v && negb (v =? peval a (Z.of_nat c' + 1))), (Nat.eqb c c'); reflexivity.
      - destruct (Nat.eqb c c'); [destruct (readable z && negb (z =? peval a (Z.of_nat c' + 1)))|]; reflexivity. }
  rewrite existsb_or_point, existsb_eqb_seq by exact ans_c_lt. rewrite Hfirst. cbn [andb].
  f_equal; [|unfold g; rewrite andb_assoc; reflexivity].
  apply existsb_ext'. intro c'. unfold g. destruct (complained A c'); [|reflexivity]. cbn [andb].
  destruct (ansF A c') as [v|]; [destruct (readable v && negb (v =? peval a (Z.of_nat c' + 1))); reflexivity|reflexivity].
Qed.

Lemma ans_tooMany : ((nph A < 2)%nat -> forall c', ansEarly A c' = isSome (ansF A c')) -> tooMany cf d A = false -> tooMany cf d B = false.
Proof.
  intros He H. unfold tooMany in *. rewrite ans_nph.
  destruct (Nat.leb_spec 2 (nph A)) as [H2|H2]; [|reflexivity]. cbn [andb] in *.
  assert (E : nkeys cf d B = nkeys cf d A).
  { unfold nkeys. f_equal. apply filter_ext'. intro c'. unfold keyF. rewrite ans_complained, ans_ansEarly.
    assert (El : Nat.ltb (nph A) 2 = false) by (apply Nat.ltb_ge; exact H2). rewrite El, andb_false_r, orb_false_r. reflexivity. }
  rewrite E. exact H.
Qed.

Lemma ans_Phi : Phi A = false ->
  ((nph A < 2)%nat -> forall c', ansEarly A c' = isSome (ansF A c')) ->
  Phi B = negb (readable z) ||
          match vecOk A with
          | Some a => complained A c && readable z && negb (z =? peval a (Z.of_nat c + 1))
          | None => false
          end.
Proof.
  intros P He. destruct (Phi_false_inv A P) as (P1 & P2 & P3 & P4 & P5 & P6 & P7).
  unfold DkgQualFacts.Phi. rewrite ans_forced, ans_fatal, P1, P2, ans_badFirst, P3, ans_wrongAns, P7.
  assert (E4 : badVec d B = false) by (unfold badVec; rewrite ans_vecF; exact P4).
  assert (E5 : noVec d B = false) by (unfold noVec; rewrite ans_nph, ans_vecF; exact P5).
  rewrite E4, E5, (ans_tooMany He P6). cbn [orb]. rewrite !orb_false_r. reflexivity.
Qed.

End Answer.

Lemma vecF_valid A q : StateAbs A q -> Phi A = false -> v_vArecv (q_v q) = true ->
  exists l, vecF A = Some (VOk l) /\ vecOk A = Some (fixpoly (c_t cf) l) /\
            v_y (q_v q) = Some (pubkeys cf (fixpoly (c_t cf) l)).
Proof.
  intros S P Er. destruct (Phi_false_inv A P) as (_ & _ & _ & P4 & _).
  rewrite (sa_vr _ _ S) in Er. destruct (vecF A) as [vb|] eqn:Ev; [|discriminate].
  unfold badVec in P4. rewrite Ev in P4. destruct vb as [|k|l]; try discriminate.
  exists l. split; [reflexivity|].
  assert (Evo : vecOk A = Some (fixpoly (c_t cf) l)) by (unfold DkgQualFacts.vecOk; rewrite Ev; reflexivity).
  split; [exact Evo|]. apply (sa_vok _ _ S _ Evo).
Qed.

Lemma vecF_none A q : StateAbs A q -> v_vArecv (q_v q) = false -> vecF A = None /\ vecOk A = None.
Proof.
  intros S Er. rewrite (sa_vr _ _ S) in Er. destruct (vecF A) eqn:Ev; [discriminate|].
  split; [reflexivity|]. unfold DkgQualFacts.vecOk. rewrite Ev. reflexivity.
Qed.

(* the state after the first, readable answer for c *)
Lemma SA_answer A q b z q' :
  (Z.of_nat n <=? b) = false ->
  let c := Z.to_nat b in
  let B := A ++ [(nph A, IB d (MAnswer (AVal b z)))] in
  StateAbs A q -> ansF A c = None -> readable z = true ->
  q_st q' = q_st q -> q_ct q' = q_ct q ->
  (forall c', q_compl q' c' = upd (q_compl q) c (mkC (complained A c) true z) c') ->
  v_vArecv (q_v q') = v_vArecv (q_v q) -> v_vA (q_v q') = v_vA (q_v q) -> v_y (q_v q') = v_y (q_v q) ->
  v_xrecv (q_v q') = v_xrecv (q_v q) ->
  (* the share: adopted when the own complaint was answered (and, with a vector, correctly) *)
  ((c = p /\ complained A p = true /\
    (forall a, vecOk A = Some a -> z = peval a (Z.of_nat p + 1)) /\ v_x (q_v q') = z)
   \/ ((c <> p \/ complained A p = false) /\ v_x (q_v q') = v_x (q_v q))) ->
  StateAbs B q'.
Proof.
  intros Hb c B S Hfirst Hrz E1 E2 E4 Evr EvA Ey Exr Hx.
  pose proof S as [Sst Sct Svr Svok Svnone Sxr Scompl Searly Sx Sx0 Sx1].
  pose proof (ans_vecF A b z) as Fv. pose proof (ans_shF A b z) as Fs. pose proof (ans_nph A b z) as Fn.
  pose proof (ans_vecOk A b z) as Fvo. pose proof (ans_complained A b z) as Fc.
  pose proof (ans_ansF A b z Hb) as Fa. pose proof (ans_ansEarly A b z Hb) as Fe.
  fold c in Fa, Fe. fold B in Fv, Fs, Fn, Fvo, Fc, Fa, Fe.
  refine (mkSA _ _ _ _ _ _ _ _ _ _ _ _ _); rewrite ?Fn, ?Fv, ?Fs, ?Fvo, ?E1, ?E2, ?Evr, ?EvA, ?Ey, ?Exr; auto.
  - intro c'. rewrite E4, Fc, Fa. destruct (Nat.eqb_spec c' c) as [->|Hc].
    + rewrite upd_same, Hfirst, Nat.eqb_refl. destruct (complained A c); reflexivity.
    + rewrite upd_other by exact Hc. rewrite Scompl.
      destruct (ansF A c'); [reflexivity|]. rewrite (proj2 (Nat.eqb_neq c c')) by (intro; apply Hc; symmetry; assumption). reflexivity.
  - intros Hn c'. rewrite Fe, Fa, (Searly Hn c'). rewrite (proj2 (Nat.ltb_lt _ _) Hn), andb_true_r.
    destruct (ansF A c'); [reflexivity|]. destruct (Nat.eqb c c'); reflexivity.
  - intros a Ea Hs. rewrite Fc, Fa.
    destruct Hx as [(Hcp & Hcm & Hz & Hx)|(Hcp & Hx)].
    + left. rewrite Hx. apply Hz. exact Ea.
    + rewrite Hx. destruct (Sx a Ea Hs) as [L|[R1 R2]]; [left; exact L|].
      destruct Hcp as [Hcp|Hcp]; [|rewrite Hcp in R1; discriminate].
      right. split; [exact R1|]. rewrite R2. rewrite (proj2 (Nat.eqb_neq c p) Hcp). reflexivity.
  - intros Hv Hcm z0 Ez. rewrite Fc in Hcm. rewrite Fa in Ez.
    destruct Hx as [(Hcp & _ & _ & Hx)|(Hcp & Hx)].
    + rewrite Hx. rewrite <- Hcp in Ez. rewrite Hfirst, Nat.eqb_refl in Ez. inversion Ez. reflexivity.
    + rewrite Hx. destruct Hcp as [Hcp|Hcp]; [|rewrite Hcp in Hcm; discriminate].
      destruct (ansF A p) eqn:E; [inversion Ez; subst; apply Sx0; auto|].
      rewrite (proj2 (Nat.eqb_neq c p) Hcp) in Ez. discriminate.
  - intros Hv z0 Es Hr0.
    destruct Hx as [(Hcp & Hcm & _ & Hx)|(Hcp & Hx)].
    + exfalso. unfold DkgQualFacts.complained in Hcm. rewrite Nat.eqb_refl in Hcm.
      unfold DkgQualFacts.ownc in Hcm. rewrite Es, Hr0 in Hcm.
      unfold DkgQualFacts.vecOk in Hcm. rewrite Hv in Hcm. discriminate.
    + rewrite Hx. apply Sx1; auto.
Qed.

Lemma step_answer A q ab :
  q_disq q = false -> StateAbs A q -> Phi A = false ->
  match q_receive_answer cf d d ab q with
  | Some (q', _) => Refines (A ++ [(nph A, IB d (MAnswer ab))]) q'
  | None => False
  end.
Proof.
  intros Hq S P. unfold q_receive_answer. rewrite Nat.eqb_refl. cbn [negb].
  pose proof S as [Sst Sct Svr Svok Svnone Sxr Scompl Searly Sx Sx0 Sx1].
  destruct ab as [|b z].
  { split; intro Hq'; [discriminate Hq'|]. apply orb_true_iff. left. apply orb_true_iff. left.
    apply orb_true_iff. left. apply orb_true_iff. left. apply orb_true_iff. left. apply orb_true_iff. right.
    rewrite fatal_app. unfold fatal_of. rewrite Nat.eqb_refl. cbn. apply orb_true_r. }
  destruct (Z.of_nat (c_n cf) <=? b) eqn:Eb.
  { split; intro Hq'; [discriminate Hq'|]. apply orb_true_iff. left. apply orb_true_iff. left.
    apply orb_true_iff. left. apply orb_true_iff. left. apply orb_true_iff. left. apply orb_true_iff. right.
    rewrite fatal_app. unfold fatal_of, fatal_msg. rewrite Nat.eqb_refl, Eb. apply orb_true_r. }
  set (c := Z.to_nat b).
  assert (Hc : (c < n)%nat) by (apply (ans_c_lt b Eb)).
  rewrite (Scompl c).
  destruct (ansF A c) as [v|] eqn:Eac.
  { (* a second answer for c: flagged *)
    assert (E : absEntry (complained A c) (Some v) = Some (mkC (complained A c) true v)) by (destruct (complained A c); reflexivity).
    rewrite E. cbn [c_ans].
    apply (refines_same A); auto. apply (ans_dup A b z Eb v Eac).
    intro Hn. fold c. rewrite (Searly Hn c), Eac. reflexivity. }
  pose proof (ans_Phi A b z Eb Eac P Searly) as PB. fold c in PB.
  destruct (complained A c) eqn:Ecm; cbn [absEntry c_recv c_ans c_val].
  - (* the complaint is registered *)
    destruct (readable z) eqn:Hrz.
    2:{ pose proof (read_star_unreadable z 0 Hrz) as Er. destruct (read_star z 0) as [ok val]. cbn in Er. subst ok. cbn [negb].
        split; intro Hq'; [discriminate Hq'|]. rewrite PB. reflexivity. }
    rewrite (read_star_readable z 0 Hrz). cbn [negb]. cbn [negb] in PB.
    cbn [q_v qset_compl]. destruct (v_vArecv (q_v q)) eqn:Er.
    + destruct (vecF_valid A q S P Er) as (l & Ev & Evo & Ey).
      unfold check_complaint. cbn [q_v qset_compl]. rewrite Ey, (pubkeys_nth_error _ c Hc).
      rewrite Evo in PB. cbn [andb orb] in PB.
      destruct (z =? peval (fixpoly (c_t cf) l) (Z.of_nat c + 1)) eqn:Ez; cbn [negb] in *.
      * (* correct answer *)
        cbn [qset_disq q_disq negb andb].
        split; intro Hq'; [|destruct (Nat.eqb c (c_my cf)); cbn in Hq'; discriminate Hq'].
        split; [|exact PB].
        apply Z.eqb_eq in Ez.
        destruct (Nat.eqb_spec c (c_my cf)) as [Ecp|Ecp].
        -- apply (SA_answer A q b z _ Eb S Eac Hrz); cbn; auto; try (intro c'; fold c; rewrite Ecm; reflexivity).
           left. fold c. split; [exact Ecp|]. split; [unfold p; rewrite <- Ecp; exact Ecm|]. split; [|reflexivity].
           intros a Ea. rewrite Evo in Ea. inversion Ea; subst a. rewrite Ez. unfold p. rewrite <- Ecp. reflexivity.
        -- apply (SA_answer A q b z _ Eb S Eac Hrz); cbn; auto; try (intro c'; fold c; rewrite Ecm; reflexivity).
           all: try (right; fold c; split; [left; exact Ecp|reflexivity]).
      * split; intro Hq'; [cbn in Hq'; discriminate Hq'|]. exact PB.
    + destruct (vecF_none A q S Er) as [Ev Evo]. rewrite Evo in PB. cbn [orb] in PB.
      cbn [q_disq qset_compl]. rewrite Hq. cbn [negb andb].
      split; intro Hq'; [|destruct (Nat.eqb c (c_my cf)); cbn in Hq'; rewrite Hq in Hq'; discriminate Hq'].
      split; [|exact PB].
      destruct (Nat.eqb_spec c (c_my cf)) as [Ecp|Ecp].
      * apply (SA_answer A q b z _ Eb S Eac Hrz); cbn; auto; try (intro c'; fold c; rewrite Ecm; reflexivity).
        left. fold c. split; [exact Ecp|]. split; [unfold p; rewrite <- Ecp; exact Ecm|]. split; [|reflexivity].
        intros a Ea. rewrite Evo in Ea. discriminate Ea.
      * apply (SA_answer A q b z _ Eb S Eac Hrz); cbn; auto; try (intro c'; fold c; rewrite Ecm; reflexivity).
        all: try (right; fold c; split; [left; exact Ecp|reflexivity]).
  - (* an unsolicited answer: stored *)
    cbn [andb] in PB.
    assert (PB' : Phi (A ++ [(nph A, IB d (MAnswer (AVal b z)))]) = negb (readable z)).
    { rewrite PB. destruct (vecOk A); rewrite orb_false_r; reflexivity. }
    destruct (readable z) eqn:Hrz.
    2:{ pose proof (read_star_unreadable z 0 Hrz) as Er. destruct (read_star z 0) as [ok val]. cbn in Er. subst ok.
        split; intro Hq'; [discriminate Hq'|]. exact PB'. }
    rewrite (read_star_readable z 0 Hrz).
    split; intro Hq'; [|cbn in Hq'; rewrite Hq in Hq'; discriminate Hq'].
    split; [|exact PB'].
    apply (SA_answer A q b z _ Eb S Eac Hrz); cbn; auto; try (intro c'; fold c; rewrite Ecm; reflexivity).
    right. fold c. split; [|reflexivity]. destruct (Nat.eqb_spec c p) as [Ecp|Ecp]; [right; rewrite <- Ecp; exact Ecm|left; exact Ecp].
Qed.

(* ---------------- the dealer's verification vector ---------------- *)
Lemma bad_answer_in_spec v (rc : nat -> bool) (an : nat -> option Z) m a js :
  v_y v = Some (pubkeys cf a) -> (forall c, m c = absEntry (rc c) (an c)) ->
  (forall c, In c js -> (c < n)%nat) ->
  bad_answer_in v m js =
  Some (existsb (fun c => rc c && match an c with Some z => negb (z =? peval a (Z.of_nat c + 1)) | None => false end) js).
Proof.
  intros Ey Hm. induction js as [|c js IH]; intro Hj; cbn [bad_answer_in existsb]; [reflexivity|].
  rewrite IH by (intros; apply Hj; right; assumption).
  rewrite (Hm c). unfold check_complaint. rewrite Ey.
  destruct (rc c), (an c) as [z|]; cbn [absEntry c_recv c_ans c_val andb orb]; try reflexivity.
  rewrite (pubkeys_nth_error a c) by (apply Hj; left; reflexivity).
  destruct (z =? peval a (Z.of_nat c + 1)); reflexivity.
Qed.

Lemma vec_dup_same A k vb v : vecF A = Some v -> same_facts A (A ++ [(k, IB d (MVec vb))]).
Proof.
  intro E. unfold same_facts.
  split; [rewrite vecF_app, E; reflexivity|]. split; [rewrite shF_app; destruct (shF A); reflexivity|].
  split; [intro c; rewrite ansF_app; cbn; destruct (ansF A c); reflexivity|].
  split; [intro c; rewrite ansEarly_app; cbn; rewrite orb_false_r; reflexivity|].
  split; [rewrite fatal_app; cbn; rewrite andb_false_r, orb_false_r; reflexivity|].
  split; [intro c; rewrite compF_app; cbn; rewrite orb_false_r; reflexivity|].
  split; [rewrite forced_app, orb_false_r; reflexivity|rewrite nph_app; reflexivity].
Qed.

Lemma vec_late_same A k vb : (1 <= k)%nat -> same_facts A (A ++ [(k, IB d (MVec vb))]).
Proof.
  intro Hk. unfold same_facts.
  split; [symmetry; apply vecF_late; exact Hk|]. split; [rewrite shF_app; destruct (shF A); reflexivity|].
  split; [intro c; rewrite ansF_app; cbn; destruct (ansF A c); reflexivity|].
  split; [intro c; rewrite ansEarly_app; cbn; rewrite orb_false_r; reflexivity|].
  split; [rewrite fatal_app; cbn; rewrite andb_false_r, orb_false_r; reflexivity|].
  split; [intro c; rewrite compF_app; cbn; rewrite orb_false_r; reflexivity|].
  split; [rewrite forced_app, orb_false_r; reflexivity|rewrite nph_app; reflexivity].
Qed.

Section Vector.
Variables (A : alist) (vb : vbody).
Hypothesis Hnone : vecF A = None.
Hypothesis Hk : nph A = 0%nat.
Let B := A ++ [(nph A, IB d (MVec vb))].

Lemma vec_vecF : vecF B = Some vb.
Proof. unfold B. rewrite vecF_app, Hnone, Hk, !Nat.eqb_refl. reflexivity. Qed.
Lemma vec_shF : shF B = shF A.
Proof. unfold B. rewrite shF_app. destruct (shF A); reflexivity. Qed.
Lemma vec_ansF c : ansF B c = ansF A c.
Proof. unfold B. rewrite ansF_app. cbn. destruct (ansF A c); reflexivity. Qed.
Lemma vec_ansEarly c : ansEarly B c = ansEarly A c.
Proof. unfold B. rewrite ansEarly_app. cbn. rewrite orb_false_r. reflexivity. Qed.
Lemma vec_fatal : fatal B = fatal A.
Proof. unfold B. rewrite fatal_app. cbn. rewrite andb_false_r, orb_false_r. reflexivity. Qed.
Lemma vec_forced : forced B = forced A.
Proof. unfold B. rewrite forced_app, orb_false_r. reflexivity. Qed.
Lemma vec_nph : nph B = nph A.
Proof. unfold B. rewrite nph_app. reflexivity. Qed.
Lemma vec_compF c : compF B c = compF A c.
Proof. unfold B. rewrite compF_app. cbn. rewrite orb_false_r. reflexivity. Qed.
Lemma vec_vecOk_A : vecOk A = None.
Proof. unfold DkgQualFacts.vecOk. rewrite Hnone. reflexivity. Qed.
Lemma vec_complained c : c <> p -> complained B c = complained A c.
Proof.
  intro Hc. unfold DkgQualFacts.complained. rewrite (proj2 (Nat.eqb_neq c (c_my cf)) Hc). apply vec_compF.
Qed.
End Vector.

Lemma existsb_or_point' (f g : nat -> bool) o bb l :
  existsb (fun c => (f c || (Nat.eqb o c && bb)) && g c) l
  = existsb (fun c => f c && g c) l || (existsb (Nat.eqb o) l && bb && g o).
Proof.
  induction l as [|a l IH]; cbn; [reflexivity|]. rewrite IH.
  set (E1 := existsb (fun c => f c && g c) l). set (E2 := existsb (Nat.eqb o) l).
  destruct (Nat.eqb_spec o a) as [->|]; destruct (f a), (g a), E1, E2, bb; reflexivity.
Qed.

Lemma Phi_of_badVec A : badVec d A = true -> Phi A = true.
Proof. intro H. unfold DkgQualFacts.Phi. rewrite H. rewrite !orb_true_r. reflexivity. Qed.
Lemma Phi_of_wrongAns A : wrongAns cf d A = true -> Phi A = true.
Proof. intro H. unfold DkgQualFacts.Phi. rewrite H. rewrite !orb_true_r. reflexivity. Qed.
Lemma Phi_of_fatal A : fatal A = true -> Phi A = true.
Proof. intro H. unfold DkgQualFacts.Phi. rewrite H. rewrite !orb_true_r. reflexivity. Qed.
Lemma Phi_of_forced A : forced A = true -> Phi A = true.
Proof. intro H. unfold DkgQualFacts.Phi. rewrite H. reflexivity. Qed.
Lemma Phi_of_noVec A : noVec d A = true -> Phi A = true.
Proof. intro H. unfold DkgQualFacts.Phi. rewrite H. rewrite !orb_true_r. reflexivity. Qed.
Lemma Phi_of_tooMany A : tooMany cf d A = true -> Phi A = true.
Proof. intro H. unfold DkgQualFacts.Phi. rewrite H. rewrite !orb_true_r. reflexivity. Qed.

Section VectorOk.
Variables (A : alist) (l : list Z) (q : qinst).
Hypothesis Hnone : vecF A = None.
Hypothesis Hk : nph A = 0%nat.
Hypothesis S : StateAbs A q.
Hypothesis P : Phi A = false.
Let a := fixpoly (c_t cf) l.
Let B := A ++ [(nph A, IB d (MVec (VOk l)))].
Let g (c : nat) : bool := match ansF A c with Some z => negb (z =? peval a (Z.of_nat c + 1)) | None => false end.
Let W : bool := existsb (fun c => complained A c && g c) (seq 0 n).

Lemma vok_vecOk : vecOk B = Some a.
Proof. unfold DkgQualFacts.vecOk. unfold B. rewrite (vec_vecF A (VOk l) Hnone Hk). reflexivity. Qed.

Lemma vok_complained c : complained B c = complained A c || (Nat.eqb p c && ownc B).
Proof.
  destruct (Nat.eqb_spec p c) as [<-|Hc].
  - unfold DkgQualFacts.complained. unfold p. rewrite Nat.eqb_refl. cbn [andb].
    destruct (ownc A) eqn:E; [|reflexivity]. cbn [orb]. unfold B. apply ownc_mono. exact E.
  - cbn [andb]. rewrite orb_false_r. unfold B. apply vec_complained. intro; apply Hc; symmetry; assumption.
Qed.

Lemma vok_wrongAns : wrongAns cf d B = W || (ownc B && g p).
Proof.
  destruct (Phi_false_inv A P) as (_ & _ & P3 & _).
  unfold wrongAns. rewrite vok_vecOk.
  rewrite (existsb_ext' _ (fun c => (complained A c || (Nat.eqb p c && ownc B)) && g c)).
  2:{ intro c. rewrite vok_complained. unfold B. rewrite vec_ansF. unfold g.
      destruct (ansF A c) as [z|] eqn:Ez; [|reflexivity]. rewrite (badFirst_readable A c z P3 Ez). reflexivity. }
  rewrite existsb_or_point', existsb_eqb_seq by exact Hp. reflexivity.
Qed.

Lemma vok_Phi : Phi B = W || (ownc B && g p).
Proof.
  destruct (Phi_false_inv A P) as (P1 & P2 & P3 & P4 & P5 & P6 & P7).
  pose proof (vec_forced A (VOk l)) as Ffo. pose proof (vec_fatal A (VOk l)) as Ff.
  pose proof (vec_nph A (VOk l)) as Fn. pose proof (vec_vecF A (VOk l) Hnone Hk) as Fv.
  fold B in Ffo, Ff, Fn, Fv.
  unfold DkgQualFacts.Phi. rewrite Ffo, Ff, P1, P2.
  rewrite (badFirst_same A B (vec_ansF A (VOk l))), P3.
  assert (E4 : badVec d B = false) by (unfold badVec; rewrite Fv; reflexivity).
  assert (E5 : noVec d B = false) by (unfold noVec; rewrite Fn, Hk; reflexivity).
  assert (E6 : tooMany cf d B = false) by (unfold tooMany; rewrite Fn, Hk; reflexivity).
  rewrite E4, E5, E6, vok_wrongAns. reflexivity.
Qed.

(* the state after the vector was accepted *)
Lemma SA_vector q' :
  q_st q' = q_st q -> q_ct q' = q_ct q ->
  v_vArecv (q_v q') = true -> v_vA (q_v q') = VAFull a -> v_y (q_v q') = Some (pubkeys cf a) ->
  v_xrecv (q_v q') = v_xrecv (q_v q) ->
  (forall c, q_compl q' c = if Nat.eqb c p then absEntry (ownc B) (ansF A p) else q_compl q c) ->
  (isSome (shF A) = true -> v_x (q_v q') = peval a (Z.of_nat p + 1) \/ (ownc B = true /\ ansF A p = None)) ->
  StateAbs B q'.
Proof.
  intros E1 E2 Er EvA Ey Exr Ec Hx.
  pose proof S as [Sst Sct Svr Svok Svnone Sxr Scompl Searly Sx Sx0 Sx1].
  pose proof (vec_nph A (VOk l)) as Fn. pose proof (vec_vecF A (VOk l) Hnone Hk) as Fv.
  pose proof (vec_shF A (VOk l)) as Fs. pose proof (vec_ansF A (VOk l)) as Fa. pose proof (vec_ansEarly A (VOk l)) as Fe.
  fold B in Fn, Fv, Fs, Fa, Fe.
  refine (mkSA _ _ _ _ _ _ _ _ _ _ _ _ _); rewrite ?Fn, ?Fs, ?Fv, ?E1, ?E2, ?Exr; auto.
  - intros a' Ea. rewrite vok_vecOk in Ea. inversion Ea; subst a'. auto.
  - rewrite vok_vecOk. discriminate.
  - intro c. rewrite Ec. rewrite Fa.
    destruct (Nat.eqb_spec c p) as [->|Hc].
    + unfold DkgQualFacts.complained. unfold p. rewrite Nat.eqb_refl. reflexivity.
    + pose proof (vec_complained A (VOk l) c Hc) as Fc. fold B in Fc. rewrite Fc. apply Scompl.
  - intros Hn c. rewrite Fe, Fa. apply Searly. exact Hn.
  - intros a' Ea Hs. rewrite vok_vecOk in Ea. inversion Ea; subst a'. rewrite Hk in Hs.
    destruct Hs as [Hs|Hs]; [|lia]. destruct (Hx Hs) as [L|[R1 R2]]; [left; exact L|right].
    rewrite Fa. split; [|exact R2]. unfold DkgQualFacts.complained. unfold p. rewrite Nat.eqb_refl. exact R1.
  - discriminate.
  - discriminate.
Qed.

Lemma vok_ownc :
  ownc B = match shF A with
           | Some (MShare (SVal z)) => if readable z then negb (z =? peval a (Z.of_nat p + 1)) else true
           | Some _ => true
           | None => false
           end.
Proof.
  pose proof (vec_nph A (VOk l)) as Fn. pose proof (vec_shF A (VOk l)) as Fs. fold B in Fn, Fs.
  unfold DkgQualFacts.ownc. rewrite Fs, Fn, Hk, vok_vecOk. reflexivity.
Qed.

End VectorOk.

Lemma existsb_false_in {X} (f : X -> bool) l x : existsb f l = false -> In x l -> f x = false.
Proof.
  intros H Hin. destruct (f x) eqn:E; [|reflexivity].
  assert (existsb f l = true) by (apply existsb_exists; eauto). congruence.
Qed.

Lemma verify_share_pub v a : v_y v = Some (pubkeys cf a) ->
  verify_share cf v = Some (v_x v =? peval a (Z.of_nat p + 1)).
Proof. intro Ey. unfold verify_share. rewrite Ey, (pubkeys_nth_error a (c_my cf) Hp). reflexivity. Qed.

Lemma check_complaint_pub v a c val : v_y v = Some (pubkeys cf a) -> (c < n)%nat ->
  check_complaint v c val = Some (negb (val =? peval a (Z.of_nat c + 1))).
Proof. intros Ey Hc. unfold check_complaint. rewrite Ey, (pubkeys_nth_error a c Hc). reflexivity. Qed.

Lemma step_vector A q vb :
  q_disq q = false -> StateAbs A q -> Phi A = false ->
  match q_receive_vector cf d d vb q with
  | Some (q', _) => Refines (A ++ [(nph A, IB d (MVec vb))]) q'
  | None => False
  end.
Proof.
  intros Hq S P. unfold q_receive_vector. rewrite Nat.eqb_refl. cbn [negb].
  pose proof S as [Sst Sct Svr Svok Svnone Sxr Scompl Searly Sx Sx0 Sx1].
  destruct (q_st q) eqn:Est.
  { apply (refines_same A); auto. apply vec_late_same. symmetry in Sst. apply Nat.leb_le in Sst. exact Sst. }
  assert (Hk : nph A = 0%nat).
  { symmetry in Sst. apply Nat.leb_gt in Sst. lia. }
  destruct (v_vArecv (q_v q)) eqn:Er.
  { rewrite Svr in Er. destruct (vecF A) as [v0|] eqn:Ev; [|discriminate].
    apply (refines_same A); auto. eapply vec_dup_same; eauto. }
  destruct (vecF_none A q S Er) as [Hnone Hvo].
  destruct vb as [|k|l].
  - split; intro Hq'; [discriminate Hq'|]. apply Phi_of_badVec. unfold badVec.
    rewrite (vec_vecF A VBadLen Hnone Hk). reflexivity.
  - split; intro Hq'; [discriminate Hq'|]. apply Phi_of_badVec. unfold badVec.
    rewrite (vec_vecF A (VBad k) Hnone Hk). reflexivity.
  - set (a := fixpoly (c_t cf) l).
    set (v2 := set_y (set_vA (set_vArecv (q_v q) true) (VAFull a)) (Some (pubkeys cf a))).
    set (q1 := qset_v q v2).
    set (B := A ++ [(nph A, IB d (MVec (VOk l)))]).
    pose proof (vok_Phi A l Hnone Hk P) as PB. pose proof (vok_ownc A l Hnone Hk) as OB.
    fold a B in PB, OB.
    assert (Ey2 : v_y v2 = Some (pubkeys cf a)) by reflexivity.
    assert (Evr2 : v_vArecv v2 = true) by reflexivity.
    assert (Exr2 : v_xrecv v2 = v_xrecv (q_v q)) by reflexivity.
    assert (Ex2 : v_x v2 = v_x (q_v q)) by reflexivity.
    rewrite (bad_answer_in_spec v2 (complained A) (ansF A) (q_compl q1) a (seq 0 (c_n cf)) Ey2 Scompl).
    2:{ intros c Hin. apply in_seq in Hin. unfold n. lia. }
    match goal with |- context[if ?e then Some (qset_disq _ true, _) else _] => destruct e eqn:EW end.
    { (* a registered complaint has a wrong answer *)
      split; intro Hq'; [discriminate Hq'|]. rewrite PB. unfold n. rewrite EW. reflexivity. }
    unfold n in PB. rewrite EW in PB. cbn [orb] in PB.
    set (gp := match ansF A p with Some z => negb (z =? peval a (Z.of_nat p + 1)) | None => false end) in *.
    assert (SAq : forall q', q_st q' = q_st q -> q_ct q' = q_ct q ->
              v_vArecv (q_v q') = true -> v_vA (q_v q') = VAFull a -> v_y (q_v q') = Some (pubkeys cf a) ->
              v_xrecv (q_v q') = v_xrecv (q_v q) ->
              (forall c, q_compl q' c = if Nat.eqb c p then absEntry (ownc B) (ansF A p) else q_compl q c) ->
              (isSome (shF A) = true -> v_x (q_v q') = peval a (Z.of_nat p + 1) \/ (ownc B = true /\ ansF A p = None)) ->
              StateAbs B q').
    { intros q' E1 E2 E3 E4 E5 E6 E7 Hx. apply (SA_vector A l q Hnone Hk S q'); auto. }
    assert (Ecp : q_compl q p = absEntry (ownc A) (ansF A p)).
    { rewrite (Scompl p). unfold DkgQualFacts.complained. unfold p. rewrite Nat.eqb_refl. reflexivity. }
    assert (Ecq : forall ob, ob = ownc A -> forall c, q_compl q c = if Nat.eqb c p then absEntry ob (ansF A p) else q_compl q c).
    { intros ob -> c. destruct (Nat.eqb_spec c p) as [->|]; [exact Ecp|reflexivity]. }
    rewrite Exr2, Sxr.
    destruct (shF A) as [m|] eqn:Esh; cbn [isSome].
    2:{ (* no share yet *)
        rewrite OB in PB. cbn [andb] in PB.
        split; intro Hq'; [|cbn in Hq'; rewrite Hq in Hq'; discriminate Hq'].
        split; [|exact PB]. apply SAq; auto; [|intro; discriminate].
        apply Ecq. rewrite OB. unfold DkgQualFacts.ownc. rewrite Esh, Hk. reflexivity. }
    rewrite (verify_share_pub v2 a Ey2), Ex2.
    assert (Hmal : ownc A = true -> ownc B = true ->
               match (if v_x (q_v q) =? peval a (Z.of_nat p + 1) then Some (q1, @nil event) else build_complaint cf d q1) with
               | Some (q', _) => Refines B q'
               | None => False
               end).
    { (* the complaint was built when the malformed share came: nothing happens now *)
      intros OA OBt. rewrite OBt in PB. cbn [andb] in PB.
      assert (Hg : gp = false).
      { pose proof (existsb_false_in _ _ p EW) as HW. cbn beta in HW.
        unfold DkgQualFacts.complained in HW at 1. unfold p in HW at 1 2. rewrite Nat.eqb_refl, OA in HW. cbn [andb] in HW.
        apply HW. apply in_seq. unfold p. lia. }
      rewrite Hg in PB.
      assert (R1 : Refines B q1).
      { split; intro Hq'; [|cbn in Hq'; rewrite Hq in Hq'; discriminate Hq'].
        split; [|exact PB]. apply SAq; auto; [apply Ecq; congruence|].
        intros _.
        assert (Ecm : complained A p = true) by (unfold DkgQualFacts.complained; unfold p; rewrite Nat.eqb_refl; exact OA).
        pose proof (Sx0 Hnone Ecm) as HX. unfold gp in Hg.
        destruct (ansF A p) as [z'|]; [left|right; auto].
        change (v_x (q_v q1)) with (v_x (q_v q)). rewrite (HX z' eq_refl). apply negb_false_iff in Hg. apply Z.eqb_eq in Hg. exact Hg. }
      destruct (v_x (q_v q) =? peval a (Z.of_nat p + 1)); [exact R1|].
      unfold build_complaint, q1. cbn [q_compl qset_v]. fold p. rewrite Ecp, OA.
      destruct (ansF A p); cbn [absEntry c_recv]; exact R1. }
    destruct m as [|sb|vb'|cb|ab|tg];
      try (assert (OA : ownc A = true) by (unfold DkgQualFacts.ownc; rewrite Esh; reflexivity);
           assert (OBt : ownc B = true) by (rewrite OB; reflexivity);
           pose proof (Hmal OA OBt) as HM;
           destruct (v_x (q_v q) =? peval a (Z.of_nat p + 1)); exact HM).
    destruct sb as [|z];
      try (assert (OA : ownc A = true) by (unfold DkgQualFacts.ownc; rewrite Esh; reflexivity);
           assert (OBt : ownc B = true) by (rewrite OB; reflexivity);
           pose proof (Hmal OA OBt) as HM;
           destruct (v_x (q_v q) =? peval a (Z.of_nat p + 1)); exact HM).
    destruct (readable z) eqn:Hrz.
    2:{ assert (OA : ownc A = true) by (unfold DkgQualFacts.ownc; rewrite Esh, Hrz; reflexivity).
        assert (OBt : ownc B = true) by (rewrite OB; reflexivity).
        pose proof (Hmal OA OBt) as HM.
        destruct (v_x (q_v q) =? peval a (Z.of_nat p + 1)); exact HM. }
    (* a readable share came before the vector *)
    assert (OA : ownc A = false) by (unfold DkgQualFacts.ownc; rewrite Esh, Hrz, Hvo; reflexivity).
    rewrite (Sx1 Hnone z eq_refl Hrz).
    destruct (z =? peval a (Z.of_nat p + 1)) eqn:Ez; cbn [negb] in OB.
    + (* it matches *)
      rewrite OB in PB. cbn [andb] in PB.
      split; intro Hq'; [|cbn in Hq'; rewrite Hq in Hq'; discriminate Hq'].
      split; [|exact PB]. apply SAq; auto; [apply Ecq; congruence|].
      intros _. left. change (v_x (q_v q1)) with (v_x (q_v q)). rewrite (Sx1 Hnone z eq_refl Hrz). apply Z.eqb_eq. exact Ez.
    + (* it does not: the own complaint is built now *)
      rewrite OB in PB. cbn [andb] in PB.
      unfold build_complaint, q1. cbn [q_compl qset_v]. fold p. rewrite Ecp, OA.
      destruct (ansF A p) as [z'|] eqn:Ez'; cbn [absEntry c_recv c_ans c_val].
      * (* an unsolicited answer is stored: it is checked now *)
        cbn [q_v qset_v qset_compl]. rewrite Evr2, Exr2, Sxr. cbn [isSome andb].
        rewrite (verify_share_pub v2 a Ey2). cbn [andb].
        rewrite (check_complaint_pub v2 a p z' Ey2 Hp).
        unfold gp in PB. cbn beta iota in PB.
        destruct (z' =? peval a (Z.of_nat p + 1)) eqn:Ez2; cbn [negb] in *.
        -- split; intro Hq'; [|cbn in Hq'; discriminate Hq'].
           split; [|exact PB]. apply SAq; cbn; auto.
           ++ intro c. unfold upd. destruct (Nat.eqb c p); [rewrite OB; reflexivity|reflexivity].
           ++ intros _. left. apply Z.eqb_eq. exact Ez2.
        -- split; intro Hq'; [cbn in Hq'; discriminate Hq'|]. exact PB.
      * cbn [q_v qset_v qset_compl]. rewrite Evr2, Exr2, Sxr. cbn [isSome andb].
        rewrite (verify_share_pub v2 a Ey2). cbn [andb].
        unfold gp in PB. cbn beta iota in PB.
        split; intro Hq'; [|cbn in Hq'; rewrite Hq in Hq'; discriminate Hq'].
        split; [|exact PB]. apply SAq; cbn; auto.
        intro c. unfold upd. destruct (Nat.eqb c p); [rewrite OB; reflexivity|reflexivity].
Qed.

(* ---------------- the other broadcasts of the dealer ---------------- *)
Lemma dealer_fatal A k m : fatal_msg cf k m = true -> fatal (A ++ [(k, IB d m)]) = true.
Proof. intro H. rewrite fatal_app. unfold fatal_of. rewrite Nat.eqb_refl, H. apply orb_true_r. Qed.

Lemma step_dealer_complaint A q cb :
  q_disq q = false -> StateAbs A q -> Phi A = false ->
  match q_receive_complaint cf d d cb q with
  | Some (q', _) => Refines (A ++ [(nph A, IB d (MComplaint cb))]) q'
  | None => False
  end.
Proof.
  intros Hq S P. unfold q_receive_complaint.
  assert (Hirr : fatal_msg cf (nph A) (MComplaint cb) = false -> same_facts A (A ++ [(nph A, IB d (MComplaint cb))])).
  { intro Hf. apply same_facts_irrelevant; auto.
    - unfold fatal_of. rewrite Hf. apply andb_false_r.
    - intro c. unfold comp_of, complaint_of. destruct cb; try reflexivity.
      destruct (Nat.eqb_spec d c) as [<-|]; [|reflexivity]. rewrite Nat.eqb_refl. reflexivity. }
  destruct (q_ct q) eqn:Ect.
  { pose proof (sa_ct _ _ S) as Sct. rewrite Ect in Sct. symmetry in Sct. apply Nat.leb_le in Sct.
    apply (refines_same A); auto. apply Hirr.
    assert (E : Nat.ltb (nph A) 2 = false) by (apply Nat.ltb_ge; exact Sct).
    cbn. rewrite E. destruct cb; reflexivity. }
  assert (Hk : Nat.ltb (nph A) 2 = true).
  { pose proof (sa_ct _ _ S) as Sct. rewrite Ect in Sct. symmetry in Sct. apply Nat.leb_gt in Sct. apply Nat.ltb_lt. exact Sct. }
  rewrite Nat.eqb_refl.
  destruct cb as [|b].
  { split; intro Hq'; [discriminate Hq'|]. apply Phi_of_fatal. apply dealer_fatal. cbn. exact Hk. }
  destruct (Z.of_nat (c_n cf) <=? b) eqn:Eb.
  { split; intro Hq'; [discriminate Hq'|]. apply Phi_of_fatal. apply dealer_fatal. cbn. rewrite Hk, Eb. reflexivity. }
  apply (refines_same A); auto. apply Hirr. cbn. rewrite Eb. apply andb_false_r.
Qed.

Lemma step_dealer_garbage A q m :
  q_disq q = false -> (match m with MEmpty | MShare _ | MOther _ => True | _ => False end) ->
  Refines (A ++ [(nph A, IB d m)]) (qset_disq q true).
Proof.
  intros Hq Hm. split; intro Hq'; [discriminate Hq'|]. apply Phi_of_fatal. apply dealer_fatal.
  destruct m; try contradiction; reflexivity.
Qed.

(* ---------------- every broadcast ---------------- *)
Lemma step_IB A q o m :
  q_disq q = false -> StateAbs A q -> Phi A = false ->
  Refines (A ++ [(nph A, IB o m)]) (fst (istep q (IB o m))).
Proof.
  intros Hq S P. destruct (Nat.eqb_spec o d) as [->|Ho]; [|apply step_IB_other; assumption].
  unfold istep. cbn [call_of qual_step qs_run qs_q]. unfold q_broadcast. cbn [negb].
  rewrite in_range_of_nat, Nat2Z.id. rewrite (proj2 (Nat.ltb_lt d n) Hd). cbn [negb].
  rewrite (proj2 (Nat.eqb_neq (c_my cf) d) Hpd), Hq, Nat.eqb_refl.
  destruct m as [|sb|vb|cb|ab|tg]; cbn [qpack qlift fst qs_q].
  - apply step_dealer_garbage; auto.
  - apply step_dealer_garbage; auto.
  - pose proof (step_vector A q vb Hq S P) as H.
    destruct (q_receive_vector cf d d vb q) as [[q' ev]|]; [exact H|contradiction].
  - pose proof (step_dealer_complaint A q cb Hq S P) as H.
    destruct (q_receive_complaint cf d d cb q) as [[q' ev]|]; [exact H|contradiction].
  - pose proof (step_answer A q ab Hq S P) as H.
    destruct (q_receive_answer cf d d ab q) as [[q' ev]|]; [exact H|contradiction].
  - apply step_dealer_garbage; auto.
Qed.

(* ---------------- the dealer's private message ---------------- *)
Lemma share_other_same A k o m : Nat.eqb o d && Nat.eqb k 0 = false -> same_facts A (A ++ [(k, IP o m)]).
Proof. intro H. apply same_facts_irrelevant; auto. Qed.

Lemma share_dup_same A k o m v : shF A = Some v -> same_facts A (A ++ [(k, IP o m)]).
Proof.
  intro E. unfold same_facts.
  split; [rewrite vecF_app; destruct (vecF A); reflexivity|]. split; [rewrite shF_app, E; reflexivity|].
  split; [intro c; rewrite ansF_app; cbn; destruct (ansF A c); reflexivity|].
  split; [intro c; rewrite ansEarly_app; cbn; rewrite orb_false_r; reflexivity|].
  split; [rewrite fatal_app; cbn; rewrite orb_false_r; reflexivity|].
  split; [intro c; rewrite compF_app; cbn; rewrite orb_false_r; reflexivity|].
  split; [rewrite forced_app, orb_false_r; reflexivity|rewrite nph_app; reflexivity].
Qed.

Section Share.
Variables (A : alist) (m : msg) (q : qinst).
Hypothesis Hnone : shF A = None.
Hypothesis Hk : nph A = 0%nat.
Hypothesis S : StateAbs A q.
Hypothesis P : Phi A = false.
Let B := A ++ [(nph A, IP d m)].

Lemma sh_shF : shF B = Some m.
Proof. unfold B. rewrite shF_app, Hnone, Hk, !Nat.eqb_refl. reflexivity. Qed.
Lemma sh_vecF : vecF B = vecF A.
Proof. unfold B. rewrite vecF_app. destruct (vecF A); reflexivity. Qed.
Lemma sh_ansF c : ansF B c = ansF A c.
Proof. unfold B. rewrite ansF_app. cbn. destruct (ansF A c); reflexivity. Qed.
Lemma sh_ansEarly c : ansEarly B c = ansEarly A c.
Proof. unfold B. rewrite ansEarly_app. cbn. rewrite orb_false_r. reflexivity. Qed.
Lemma sh_fatal : fatal B = fatal A.
Proof. unfold B. rewrite fatal_app. cbn. rewrite orb_false_r. reflexivity. Qed.
Lemma sh_forced : forced B = forced A.
Proof. unfold B. rewrite forced_app, orb_false_r. reflexivity. Qed.
Lemma sh_nph : nph B = nph A.
Proof. unfold B. rewrite nph_app. reflexivity. Qed.
Lemma sh_compF c : compF B c = compF A c.
Proof. unfold B. rewrite compF_app. cbn. rewrite orb_false_r. reflexivity. Qed.
Lemma sh_vecOk : vecOk B = vecOk A.
Proof. apply same_vecOk. apply sh_vecF. Qed.

Lemma sh_ownc_A : ownc A = false.
Proof. unfold DkgQualFacts.ownc. rewrite Hnone, Hk. reflexivity. Qed.

Lemma sh_ownc :
  ownc B = match m with
           | MShare (SVal z) =>
               if readable z then match vecOk A with Some a => negb (z =? peval a (Z.of_nat p + 1)) | None => false end
               else true
           | _ => true
           end.
Proof. unfold DkgQualFacts.ownc. rewrite sh_shF, sh_vecOk. reflexivity. Qed.

Lemma sh_complained c : complained B c = complained A c || (Nat.eqb p c && ownc B).
Proof.
  unfold DkgQualFacts.complained. destruct (Nat.eqb_spec p c) as [<-|Hc].
  - unfold p. rewrite Nat.eqb_refl. fold p. rewrite sh_ownc_A. reflexivity.
  - rewrite (proj2 (Nat.eqb_neq c (c_my cf))) by (intro; apply Hc; symmetry; assumption).
    cbn [andb]. rewrite orb_false_r. apply sh_compF.
Qed.

Lemma sh_Phi :
  Phi B = match vecOk A with
          | Some a => ownc B && match ansF A p with Some z => negb (z =? peval a (Z.of_nat p + 1)) | None => false end
          | None => false
          end.
Proof.
  destruct (Phi_false_inv A P) as (P1 & P2 & P3 & P4 & P5 & P6 & P7).
  unfold DkgQualFacts.Phi. rewrite sh_forced, sh_fatal, P1, P2.
  rewrite (badFirst_same A B sh_ansF), P3.
  assert (E4 : badVec d B = false) by (unfold badVec; rewrite sh_vecF; exact P4).
  assert (E5 : noVec d B = false) by (unfold noVec; rewrite sh_nph, Hk; reflexivity).
  assert (E6 : tooMany cf d B = false) by (unfold tooMany; rewrite sh_nph, Hk; reflexivity).
  rewrite E4, E5, E6. cbn [orb].
  unfold wrongAns. rewrite sh_vecOk. unfold wrongAns in P7. destruct (vecOk A) as [a|]; [|reflexivity].
  set (g := fun c => match ansF A c with Some z => readable z && negb (z =? peval a (Z.of_nat c + 1)) | None => false end).
  rewrite (existsb_ext' _ (fun c => (complained A c || (Nat.eqb p c && ownc B)) && g c)).
  2:{ intro c. rewrite sh_complained, sh_ansF. reflexivity. }
  assert (P7' : existsb (fun c => complained A c && g c) (seq 0 (c_n cf)) = false) by exact P7.
  rewrite existsb_or_point', existsb_eqb_seq by exact Hp. rewrite P7'. cbn [orb andb].
  unfold g. destruct (ansF A p) as [z|] eqn:Ez; [|reflexivity]. rewrite (badFirst_readable A p z P3 Ez). reflexivity.
Qed.

(* the state after the private message was taken in *)
Lemma SA_share q' :
  q_st q' = q_st q -> q_ct q' = q_ct q ->
  v_vArecv (q_v q') = v_vArecv (q_v q) -> v_vA (q_v q') = v_vA (q_v q) -> v_y (q_v q') = v_y (q_v q) ->
  v_xrecv (q_v q') = true ->
  (forall c, q_compl q' c = if Nat.eqb c p then absEntry (ownc B) (ansF A p) else q_compl q c) ->
  (forall a, vecOk A = Some a -> v_x (q_v q') = peval a (Z.of_nat p + 1) \/ (ownc B = true /\ ansF A p = None)) ->
  (vecF A = None -> ownc B = true -> forall z, ansF A p = Some z -> v_x (q_v q') = z) ->
  (vecF A = None -> forall z, m = MShare (SVal z) -> readable z = true -> v_x (q_v q') = z) ->
  StateAbs B q'.
Proof.
  intros E1 E2 Er EvA Ey Exr Ec Hx Hx0 Hx1.
  pose proof S as [Sst Sct Svr Svok Svnone Sxr Scompl Searly Sx Sx0 Sx1].
  refine (mkSA _ _ _ _ _ _ _ _ _ _ _ _ _); rewrite ?sh_nph, ?sh_vecF, ?sh_vecOk, ?sh_shF, ?E1, ?E2, ?Er, ?EvA, ?Ey, ?Exr; auto.
  - intro c. rewrite Ec, sh_ansF. destruct (Nat.eqb_spec c p) as [->|Hc].
    + unfold DkgQualFacts.complained. unfold p. rewrite Nat.eqb_refl. reflexivity.
    + rewrite sh_complained. rewrite (proj2 (Nat.eqb_neq p c)) by (intro; apply Hc; symmetry; assumption).
      cbn [andb]. rewrite orb_false_r. apply Scompl.
  - intros Hn c. rewrite sh_ansEarly, sh_ansF. apply Searly. exact Hn.
  - intros a Ea _. rewrite sh_ansF. destruct (Hx a Ea) as [L|[R1 R2]]; [left; exact L|right].
    split; [|exact R2]. unfold DkgQualFacts.complained. unfold p. rewrite Nat.eqb_refl. exact R1.
  - intros Hv Hc z Ez. rewrite sh_ansF in Ez. unfold DkgQualFacts.complained in Hc. unfold p in Hc. rewrite Nat.eqb_refl in Hc.
    apply Hx0; auto.
  - intros Hv z Es Hr. inversion Es; subst m. apply Hx1; auto.
Qed.

End Share.

(* the own complaint is built for the first time (a malformed or mismatching share, or the
   shares timeout): B extends A by an input that made [ownc] true and left the broadcast
   facts alone *)
Section OwnComplaint.
Variables (A B : alist) (q q1 : qinst).
Hypothesis S : StateAbs A q.
Hypothesis P : Phi A = false.
Hypothesis Hq : q_disq q = false.
Hypothesis Fv : vecF B = vecF A.
Hypothesis Fa : forall c, ansF B c = ansF A c.
Hypothesis Fe : forall c, ansEarly B c = ansEarly A c.
Hypothesis Ff : fatal B = fatal A.
Hypothesis Ffo : forced B = forced A.
Hypothesis Fc : forall c, compF B c = compF A c.
Hypothesis OA : ownc A = false.
Hypothesis OB : ownc B = true.
Hypothesis HnB : (nph B <= 1)%nat.
Hypothesis HnA : (nph A < 2)%nat.
Hypothesis HnoVec : noVec d B = false.
Hypothesis E1 : q_st q1 = Nat.leb 1 (nph B).
Hypothesis E2 : q_ct q1 = false.
Hypothesis Ed : q_disq q1 = false.
Hypothesis Ec : q_compl q1 = q_compl q.
Hypothesis Er : v_vArecv (q_v q1) = v_vArecv (q_v q).
Hypothesis EvA : v_vA (q_v q1) = v_vA (q_v q).
Hypothesis Ey : v_y (q_v q1) = v_y (q_v q).
Hypothesis Exr : v_xrecv (q_v q1) = isSome (shF B).
Hypothesis Hnr : vecF A = None -> forall z, shF B = Some (MShare (SVal z)) -> readable z = true -> False.

Lemma oc_vecOk : vecOk B = vecOk A.
Proof. apply same_vecOk. exact Fv. Qed.

Lemma oc_complained c : complained B c = complained A c || Nat.eqb p c.
Proof.
  unfold DkgQualFacts.complained. destruct (Nat.eqb_spec p c) as [<-|Hc].
  - unfold p. rewrite Nat.eqb_refl. fold p. rewrite OA, OB. reflexivity.
  - rewrite (proj2 (Nat.eqb_neq c (c_my cf))) by (intro; apply Hc; symmetry; assumption).
    rewrite orb_false_r. apply Fc.
Qed.

Lemma oc_Phi :
  Phi B = match vecOk A with
          | Some a => match ansF A p with Some z => negb (z =? peval a (Z.of_nat p + 1)) | None => false end
          | None => false
          end.
Proof.
  destruct (Phi_false_inv A P) as (P1 & P2 & P3 & P4 & P5 & P6 & P7).
  unfold DkgQualFacts.Phi. rewrite Ffo, Ff, P1, P2, (badFirst_same A B Fa), P3, HnoVec.
  assert (E4 : badVec d B = false) by (unfold badVec; rewrite Fv; exact P4).
  assert (E6 : tooMany cf d B = false).
  { unfold tooMany. assert (E : Nat.leb 2 (nph B) = false) by (apply Nat.leb_gt; lia). rewrite E. reflexivity. }
  rewrite E4, E6. cbn [orb].
  unfold wrongAns. rewrite oc_vecOk. unfold wrongAns in P7. destruct (vecOk A) as [a|]; [|reflexivity].
  set (g := fun c => match ansF A c with Some z => readable z && negb (z =? peval a (Z.of_nat c + 1)) | None => false end).
  rewrite (existsb_ext' _ (fun c => (complained A c || Nat.eqb p c) && g c)).
  2:{ intro c. rewrite oc_complained, Fa. reflexivity. }
  assert (P7' : existsb (fun c => complained A c && g c) (seq 0 (c_n cf)) = false) by exact P7.
  rewrite existsb_or_point, existsb_eqb_seq by exact Hp. rewrite P7'. cbn [orb andb].
  unfold g. destruct (ansF A p) as [z|] eqn:Ez; [|reflexivity]. rewrite (badFirst_readable A p z P3 Ez). reflexivity.
Qed.

Lemma oc_SA q' :
  q_st q' = q_st q1 -> q_ct q' = q_ct q1 ->
  v_vArecv (q_v q') = v_vArecv (q_v q1) -> v_vA (q_v q') = v_vA (q_v q1) -> v_y (q_v q') = v_y (q_v q1) ->
  v_xrecv (q_v q') = v_xrecv (q_v q1) ->
  (forall c, q_compl q' c = upd (q_compl q) p (match ansF A p with Some z => mkC true true z | None => mkC true false 0 end) c) ->
  (forall a, vecOk A = Some a -> v_x (q_v q') = peval a (Z.of_nat p + 1) \/ ansF A p = None) ->
  (vecF A = None -> forall z, ansF A p = Some z -> v_x (q_v q') = z) ->
  StateAbs B q'.
Proof.
  intros F1 F2 F3 F4 F5 F6 F7 Hx Hx0.
  pose proof S as [Sst Sct Svr Svok Svnone Sxr Scompl Searly Sx Sx0 Sx1].
  refine (mkSA _ _ _ _ _ _ _ _ _ _ _ _ _); rewrite ?Fv, ?oc_vecOk, ?F1, ?F2, ?F3, ?F4, ?F5, ?F6, ?Er, ?EvA, ?Ey; auto.
  - rewrite E2. symmetry. apply Nat.leb_gt. lia.
  - intro c. rewrite F7, oc_complained, Fa. unfold upd. destruct (Nat.eqb_spec c p) as [->|Hc].
    + rewrite Nat.eqb_refl, orb_true_r. destruct (ansF A p); reflexivity.
    + rewrite (proj2 (Nat.eqb_neq p c)) by (intro; apply Hc; symmetry; assumption). rewrite orb_false_r. apply Scompl.
  - intros Hn c. rewrite Fe, Fa. apply Searly. exact HnA.
  - intros a Ea _. rewrite oc_complained, Fa, Nat.eqb_refl, orb_true_r.
    destruct (Hx a Ea) as [L|R]; [left; exact L|right; auto].
  - intros Hv _ z Ez. rewrite Fa in Ez. apply Hx0; auto.
  - intros Hv z Es Hr. exfalso. eapply Hnr; eauto.
Qed.

Lemma own_complaint_refines :
  match build_complaint cf d q1 with
  | Some (q', _) => Refines B q'
  | None => False
  end.
Proof.
  pose proof S as [Sst Sct Svr Svok Svnone Sxr Scompl Searly Sx Sx0 Sx1].
  pose proof oc_Phi as PB.
  assert (Ecp : q_compl q1 p = absEntry false (ansF A p)).
  { rewrite Ec, (Scompl p). unfold DkgQualFacts.complained. unfold p. rewrite Nat.eqb_refl. fold p. rewrite OA. reflexivity. }
  unfold build_complaint. fold p. rewrite Ecp.
  assert (Hcase : v_vArecv (q_v q) = true \/ v_vArecv (q_v q) = false) by (destruct (v_vArecv (q_v q)); auto).
  destruct (ansF A p) as [z'|] eqn:Ez'; cbn [absEntry c_recv c_ans c_val].
  - (* an unsolicited answer is already stored *)
    rewrite Er. destruct Hcase as [Er'|Er']; rewrite Er'.
    + destruct (vecF_valid A q S P Er') as (l & Ev & Evo & Eyq).
      set (a := fixpoly (c_t cf) l) in *.
      assert (Ey1 : v_y (q_v q1) = Some (pubkeys cf a)) by (rewrite Ey; exact Eyq).
      rewrite (verify_share_pub (q_v q1) a Ey1). rewrite andb_false_r.
      cbn [q_v qset_compl]. rewrite (check_complaint_pub (q_v q1) a p z' Ey1 Hp).
      rewrite Evo in PB.
      destruct (z' =? peval a (Z.of_nat p + 1)) eqn:Ez2; cbn [negb] in PB |- *.
      * split; intro Hq'; [|cbn in Hq'; discriminate Hq'].
        split; [|exact PB]. apply oc_SA; cbn; auto.
        all: try (intro c; rewrite Ec, ?Ez'; reflexivity).
        all: try (intros a' Ea'; rewrite Evo in Ea'; inversion Ea'; subst a'; left; apply Z.eqb_eq; exact Ez2).
        all: try (intros _ z Ez; rewrite Ez' in Ez; inversion Ez; reflexivity).
        all: try (intros _ z Ez; inversion Ez; reflexivity).
      * split; intro Hq'; [cbn in Hq'; discriminate Hq'|]. exact PB.
    + cbn [andb]. cbn [q_disq qset_compl]. rewrite Ed.
      destruct (vecF_none A q S Er') as [Ev Evo]. rewrite Evo in PB.
      split; intro Hq'; [|cbn in Hq'; rewrite Ed in Hq'; discriminate Hq'].
      split; [|exact PB]. apply oc_SA; cbn; auto.
      all: try (intro c; rewrite Ec, ?Ez'; reflexivity).
      all: try (intros a' Ea'; rewrite Evo in Ea'; discriminate Ea').
      all: try (intros _ z Ez; rewrite Ez' in Ez; inversion Ez; reflexivity).
  - assert (PB' : Phi B = false) by (rewrite PB; destruct (vecOk A); reflexivity).
    assert (Hnp : (v_vArecv (q_v q1) && v_xrecv (q_v q1) &&
                   match verify_share cf (q_v q1) with Some _ => false | None => true end) = false).
    { rewrite Er. destruct Hcase as [Er'|Er']; rewrite Er'; [|reflexivity].
      destruct (vecF_valid A q S P Er') as (l & Ev & Evo & Eyq).
      assert (Ey1 : v_y (q_v q1) = Some (pubkeys cf (fixpoly (c_t cf) l))) by (rewrite Ey; exact Eyq).
      rewrite (verify_share_pub (q_v q1) _ Ey1). apply andb_false_r. }
    rewrite Hnp.
    split; intro Hq'; [|cbn in Hq'; rewrite Ed in Hq'; discriminate Hq'].
    split; [|exact PB']. apply oc_SA; cbn; auto.
    all: try (intro c; rewrite Ec, ?Ez'; reflexivity).
    all: try (intros _ z Ez; rewrite Ez' in Ez; discriminate Ez).
    all: try (intros a' Ea'; right; exact Ez').
Qed.

End OwnComplaint.

(* the own complaint is built for the first time by a state q1 that differs from the
   abstracted state q only in the private share fields *)
Lemma build_first_complaint A q q1 m :
  shF A = None -> nph A = 0%nat -> StateAbs A q -> Phi A = false -> q_disq q = false ->
  let B := A ++ [(nph A, IP d m)] in
  ownc B = true ->
  q_st q1 = q_st q -> q_ct q1 = q_ct q -> q_disq q1 = false -> q_compl q1 = q_compl q ->
  v_vArecv (q_v q1) = v_vArecv (q_v q) -> v_vA (q_v q1) = v_vA (q_v q) -> v_y (q_v q1) = v_y (q_v q) ->
  v_xrecv (q_v q1) = true ->
  (vecF A = None -> forall z, m = MShare (SVal z) -> readable z = true -> False) ->
  match build_complaint cf d q1 with
  | Some (q', _) => Refines B q'
  | None => False
  end.
Proof.
  intros Hnone Hk S P Hq B OB E1 E2 Ed Ec Er EvA Ey Exr Hnr.
  pose proof S as [Sst Sct Svr Svok Svnone Sxr Scompl Searly Sx Sx0 Sx1].
  pose proof (sh_Phi A m Hnone Hk P) as PB. fold B in PB. rewrite OB in PB. cbn [andb] in PB.
  pose proof (sh_ownc_A A Hnone Hk) as OA.
  assert (Ecp : q_compl q1 p = absEntry false (ansF A p)).
  { rewrite Ec, (Scompl p). unfold DkgQualFacts.complained. unfold p. rewrite Nat.eqb_refl. fold p. rewrite OA. reflexivity. }
  unfold build_complaint. fold p. rewrite Ecp.
  assert (SAq : forall q', q_st q' = q_st q1 -> q_ct q' = q_ct q1 ->
            v_vArecv (q_v q') = v_vArecv (q_v q1) -> v_vA (q_v q') = v_vA (q_v q1) -> v_y (q_v q') = v_y (q_v q1) ->
            v_xrecv (q_v q') = true ->
            (forall c, q_compl q' c = upd (q_compl q) p (match ansF A p with Some z => mkC true true z | None => mkC true false 0 end) c) ->
            (forall a, vecOk A = Some a -> v_x (q_v q') = peval a (Z.of_nat p + 1) \/ ansF A p = None) ->
            (vecF A = None -> forall z, ansF A p = Some z -> v_x (q_v q') = z) ->
            StateAbs B q').
  { intros q' F1 F2 F3 F4 F5 F6 F7 Hx Hx0.
    apply (SA_share A m q Hnone Hk S q'); try congruence.
    - intro c. rewrite F7. fold B. rewrite OB. unfold upd. destruct (Nat.eqb c p); [destruct (ansF A p); reflexivity|reflexivity].
    - intros a Ea. fold B. rewrite OB. destruct (Hx a Ea) as [L|R]; auto.
    - intros Hv _ z Ez. apply Hx0; auto.
    - intros Hv z Em Hr. exfalso. eapply Hnr; eauto. }
  destruct (ansF A p) as [z'|] eqn:Ez'; cbn [absEntry c_recv c_ans c_val].
  - (* an unsolicited answer is already stored *)
    destruct (v_vArecv (q_v q1)) eqn:Er1.
    + symmetry in Er. destruct (vecF_valid A q S P Er) as (l & Ev & Evo & Eyq).
      set (a := fixpoly (c_t cf) l) in *.
      assert (Ey1 : v_y (q_v q1) = Some (pubkeys cf a)) by (rewrite Ey; exact Eyq).
      rewrite Exr, (verify_share_pub (q_v q1) a Ey1). cbn [andb].
      cbn [q_v qset_compl]. rewrite (check_complaint_pub (q_v q1) a p z' Ey1 Hp).
      rewrite Evo in PB.
      destruct (z' =? peval a (Z.of_nat p + 1)) eqn:Ez2; cbn [negb] in *.
      * split; intro Hq'; [|cbn in Hq'; discriminate Hq'].
        split; [|exact PB]. apply SAq; cbn; auto.
        all: try (intro c; rewrite Ec; reflexivity).
        all: try (intros a' Ea'; rewrite Evo in Ea'; inversion Ea'; subst a'; left; apply Z.eqb_eq; exact Ez2).
        all: try (intros _ z Ez; inversion Ez; reflexivity).
      * split; intro Hq'; [cbn in Hq'; discriminate Hq'|]. exact PB.
    + cbn [andb]. cbn [q_disq qset_compl]. rewrite Ed.
      symmetry in Er. destruct (vecF_none A q S Er) as [Ev Evo]. rewrite Evo in PB.
      split; intro Hq'; [|cbn in Hq'; rewrite Ed in Hq'; discriminate Hq'].
      split; [|exact PB]. apply SAq; cbn; auto.
      all: try (intro c; rewrite Ec; reflexivity).
      all: try (intros a' Ea'; rewrite Evo in Ea'; discriminate Ea').
      all: try (intros _ z Ez; inversion Ez; reflexivity).
  - assert (PB' : Phi B = false) by (rewrite PB; destruct (vecOk A); reflexivity).
    assert (Hnp : (v_vArecv (q_v q1) && v_xrecv (q_v q1) &&
                   match verify_share cf (q_v q1) with Some _ => false | None => true end) = false).
    { destruct (v_vArecv (q_v q1)) eqn:Er1; [|reflexivity].
      symmetry in Er. destruct (vecF_valid A q S P Er) as (l & Ev & Evo & Eyq).
      assert (Ey1 : v_y (q_v q1) = Some (pubkeys cf (fixpoly (c_t cf) l))) by (rewrite Ey; exact Eyq).
      rewrite (verify_share_pub (q_v q1) _ Ey1). apply andb_false_r. }
    rewrite Hnp.
    split; intro Hq'; [|cbn in Hq'; rewrite Ed in Hq'; discriminate Hq'].
    split; [|exact PB']. apply SAq; cbn; auto.
    all: try (intro c; rewrite Ec; reflexivity).
    all: try (intros _ z Ez; discriminate Ez).
Qed.

Lemma istep_lift q h :
  fst (let '(s', _, ev) := qpack (qlift true q h) in (qs_q s', ev)) =
  match h with Some (q', _) => q' | None => q end.
Proof. destruct h as [[q' ev]|]; reflexivity. Qed.

Lemma step_IP A q o m :
  q_disq q = false -> StateAbs A q -> Phi A = false ->
  Refines (A ++ [(nph A, IP o m)]) (fst (istep q (IP o m))).
Proof.
  intros Hq S P. unfold istep. cbn [call_of qual_step qs_run qs_q]. unfold q_private. cbn [negb].
  rewrite in_range_of_nat, Nat2Z.id.
  destruct (Nat.ltb_spec o n) as [Hon|Hon]; cbn [negb].
  2:{ cbn. apply (refines_same A); auto. apply share_other_same.
      destruct (Nat.eqb_spec o d) as [->|]; [unfold n in Hon; lia|reflexivity]. }
  destruct (Nat.eqb_spec (c_my cf) o) as [Hop|Hop].
  { cbn. apply (refines_same A); auto. apply share_other_same. rewrite <- Hop.
    rewrite (proj2 (Nat.eqb_neq (c_my cf) d) Hpd). reflexivity. }
  rewrite Hq. rewrite istep_lift. unfold q_receive_share.
  destruct (Nat.eqb_spec o d) as [->|Ho]; cbn [negb].
  2:{ cbn. apply (refines_same A); auto. apply share_other_same. rewrite (proj2 (Nat.eqb_neq o d) Ho). reflexivity. }
  pose proof S as [Sst Sct Svr Svok Svnone Sxr Scompl Searly Sx Sx0 Sx1].
  destruct (q_st q) eqn:Est.
  { cbn. apply (refines_same A); auto. apply share_other_same.
    symmetry in Sst. apply Nat.leb_le in Sst. destruct (nph A); [lia|]. apply andb_false_r. }
  assert (Hk : nph A = 0%nat).
  { symmetry in Sst. apply Nat.leb_gt in Sst. lia. }
  destruct (v_xrecv (q_v q)) eqn:Ex.
  { cbn. rewrite Sxr in Ex. destruct (shF A) as [m0|] eqn:Es; [|discriminate].
    apply (refines_same A); auto. eapply share_dup_same; eauto. }
  assert (Hnone : shF A = None).
  { rewrite Sxr in Ex. destruct (shF A); [discriminate|reflexivity]. }
  set (B := A ++ [(nph A, IP d m)]).
  set (q1 := qset_v q (set_xrecv (q_v q) true)).
  pose proof (sh_ownc A m Hnone Hk) as OB. fold B in OB.
  pose proof (sh_Phi A m Hnone Hk P) as PB. fold B in PB.
  (* malformed private message: complain and flag *)
  assert (Hmal : forall q2, ownc B = true -> q_st q2 = q_st q -> q_ct q2 = q_ct q -> q_disq q2 = false ->
            q_compl q2 = q_compl q -> v_vArecv (q_v q2) = v_vArecv (q_v q) -> v_vA (q_v q2) = v_vA (q_v q) ->
            v_y (q_v q2) = v_y (q_v q) -> v_xrecv (q_v q2) = true ->
            (vecF A = None -> forall z, m = MShare (SVal z) -> readable z = true -> False) ->
            Refines B (match (match build_complaint cf d q2 with Some (q3, ev) => Some (q3, ev ++ [EvFlag d]) | None => None end)
                       with Some (q', _) => q' | None => q end)).
  { intros q2 OBt F1 F2 F3 F4 F5 F6 F7 F8 Hnr.
    pose proof (build_first_complaint A q q2 m Hnone Hk S P Hq OBt F1 F2 F3 F4 F5 F6 F7 F8 Hnr) as HB.
    destruct (build_complaint cf d q2) as [[q3 ev]|]; [exact HB|contradiction]. }
  destruct m as [|sb|vb|cb|ab|tg];
    try (apply (Hmal q1); cbn; auto; intros _ z Em; discriminate Em).
  destruct sb as [|z]; [apply (Hmal q1); cbn; auto; intros _ z Em; discriminate Em|].
  cbn [q_v q1 qset_v v_x set_xrecv].
  destruct (readable z) eqn:Hrz.
  2:{ pose proof (read_star_unreadable z (v_x (q_v q)) Hrz) as Er.
      destruct (read_star z (v_x (q_v q))) as [ok x']. cbn in Er. subst ok. cbn [negb].
      apply (Hmal (qset_v q1 (set_x (q_v q1) x'))); cbn; auto.
      intros _ z0 Em. inversion Em; subst z0. congruence. }
  rewrite (read_star_readable z _ Hrz). cbn [negb].
  set (q2 := qset_v q1 (set_x (q_v q1) z)).
  assert (SAq : ownc B = false -> (forall a, vecOk A = Some a -> z = peval a (Z.of_nat p + 1)) -> StateAbs B q2).
  { intros OBf Hz. apply (SA_share A (MShare (SVal z)) q Hnone Hk S q2); cbn; auto.
    all: try (intro c; fold B; rewrite OBf; destruct (Nat.eqb_spec c p) as [->|]; [|reflexivity];
              rewrite (Scompl p); unfold DkgQualFacts.complained; unfold p; rewrite Nat.eqb_refl; fold p;
              rewrite (sh_ownc_A A Hnone Hk); reflexivity).
    all: try (intros a Ea; left; apply Hz; exact Ea).
    all: try (fold B; rewrite OBf; intros _ Hf; discriminate Hf).
    all: try (intros _ z0 Em _; inversion Em; reflexivity). }
  cbn [q_v q2 qset_v q1 v_vArecv set_x set_xrecv].
  destruct (v_vArecv (q_v q)) eqn:Er.
  - destruct (vecF_valid A q S P Er) as (l & Ev & Evo & Ey).
    set (a := fixpoly (c_t cf) l) in *.
    rewrite (verify_share_pub (set_x (set_xrecv (q_v q) true) z) a Ey). cbn [v_x set_x].
    change (qset_v q1 (set_x (set_xrecv (q_v q) true) z)) with q2.
    rewrite Evo in OB, PB.
    destruct (z =? peval a (Z.of_nat p + 1)) eqn:Ez; cbn [negb] in OB.
    + cbn. rewrite OB in PB. cbn [andb] in PB.
      split; intro Hq'; [|cbn in Hq'; rewrite Hq in Hq'; discriminate Hq'].
      split; [|exact PB]. apply SAq; auto. intros a' Ea'. rewrite Evo in Ea'. inversion Ea'; subst a'. apply Z.eqb_eq. exact Ez.
    + pose proof (build_first_complaint A q q2 (MShare (SVal z)) Hnone Hk S P Hq OB) as HB.
      destruct (build_complaint cf d q2) as [[q3 ev]|]; cbn.
      * apply HB; cbn; auto. intros Hv. rewrite Hv in Ev. discriminate Ev.
      * exfalso. apply HB; cbn; auto. intros Hv. rewrite Hv in Ev. discriminate Ev.
  - destruct (vecF_none A q S Er) as [Ev Evo]. rewrite Evo in OB, PB. cbn.
    split; intro Hq'; [|cbn in Hq'; rewrite Hq in Hq'; discriminate Hq'].
    split; [|exact PB]. apply SAq; auto. intros a' Ea'. rewrite Evo in Ea'. discriminate Ea'.
Qed.

(* ---------------- ForceDisqualify ---------------- *)
Lemma step_force A q j :
  q_disq q = false -> StateAbs A q -> Phi A = false ->
  Refines (A ++ [(nph A, IForce j)]) (fst (istep q (IForce j))).
Proof.
  intros Hq S P. unfold istep. cbn [call_of qual_step qs_run qs_q]. unfold q_force. cbn [negb].
  rewrite in_range_of_nat, Nat2Z.id.
  destruct (Nat.ltb_spec j n) as [Hj|Hj]; cbn [negb].
  2:{ cbn. apply (refines_same A); auto. apply same_facts_irrelevant; auto.
      destruct (Nat.eqb_spec j d) as [->|]; [unfold n in Hj; lia|reflexivity]. }
  destruct (Nat.eqb_spec j d) as [->|Hjd]; cbn.
  - split; intro Hq'; [discriminate Hq'|]. apply Phi_of_forced. rewrite forced_app, Nat.eqb_refl. apply orb_true_r.
  - apply (refines_same A); auto. apply same_facts_irrelevant; auto. apply Nat.eqb_neq. exact Hjd.
Qed.

(* ---------------- NextTimeout ---------------- *)
Section Timeout.
Variable A : alist.
Let B := A ++ [(nph A, ITimeout)].

Lemma to_vecF : vecF B = vecF A.
Proof. unfold B. rewrite vecF_app. destruct (vecF A); reflexivity. Qed.
Lemma to_shF : shF B = shF A.
Proof. unfold B. rewrite shF_app. destruct (shF A); reflexivity. Qed.
Lemma to_ansF c : ansF B c = ansF A c.
Proof. unfold B. rewrite ansF_app. cbn. destruct (ansF A c); reflexivity. Qed.
Lemma to_ansEarly c : ansEarly B c = ansEarly A c.
Proof. unfold B. rewrite ansEarly_app. cbn. rewrite orb_false_r. reflexivity. Qed.
Lemma to_fatal : fatal B = fatal A.
Proof. unfold B. rewrite fatal_app. cbn. rewrite orb_false_r. reflexivity. Qed.
Lemma to_forced : forced B = forced A.
Proof. unfold B. rewrite forced_app, orb_false_r. reflexivity. Qed.
Lemma to_compF c : compF B c = compF A c.
Proof. unfold B. rewrite compF_app. cbn. rewrite orb_false_r. reflexivity. Qed.
Lemma to_vecOk : vecOk B = vecOk A.
Proof. apply same_vecOk. apply to_vecF. Qed.

Lemma to_nph : nph B = Nat.min 2 (S (nph A)).
Proof.
  unfold B. rewrite nph_app. cbn [is_timeout]. unfold nph.
  set (k := length (filter (fun kx => is_timeout (snd kx)) A)). lia.
Qed.

Lemma to_same_at_2 : nph A = 2%nat -> same_facts A B.
Proof.
  intro H. unfold same_facts.
  split; [symmetry; apply to_vecF|]. split; [symmetry; apply to_shF|].
  split; [intro c; symmetry; apply to_ansF|]. split; [intro c; symmetry; apply to_ansEarly|].
  split; [symmetry; apply to_fatal|]. split; [intro c; symmetry; apply to_compF|].
  split; [symmetry; apply to_forced|]. rewrite to_nph, H. reflexivity.
Qed.

(* the own complaint only looks at the number of timeouts when no share came *)
Lemma to_ownc_keep : (1 <= nph A)%nat \/ shF A <> None -> ownc B = ownc A.
Proof.
  intro H. unfold DkgQualFacts.ownc. rewrite to_shF, to_vecOk. destruct (shF A) as [m|] eqn:Es; [reflexivity|].
  destruct H as [H|H]; [|congruence]. rewrite to_nph.
  assert (E1 : Nat.leb 1 (nph A) = true) by (apply Nat.leb_le; exact H).
  assert (E2 : Nat.leb 1 (Nat.min 2 (S (nph A))) = true) by (apply Nat.leb_le; lia).
  rewrite E1, E2. reflexivity.
Qed.

Lemma to_complained_keep c : (1 <= nph A)%nat \/ shF A <> None -> complained B c = complained A c.
Proof. intro H. unfold DkgQualFacts.complained. rewrite (to_ownc_keep H), to_compF. reflexivity. Qed.

End Timeout.

Lemma Phi_timeout A :
  let B := A ++ [(nph A, ITimeout)] in
  Phi A = false -> (forall c, complained B c = complained A c) ->
  Phi B = noVec d B || tooMany cf d B.
Proof.
  intros B P Hc. destruct (Phi_false_inv A P) as (P1 & P2 & P3 & P4 & P5 & P6 & P7).
  unfold DkgQualFacts.Phi. unfold B at 1 2. rewrite to_forced, to_fatal, P1, P2.
  rewrite (badFirst_same A B (to_ansF A)), P3.
  assert (E4 : badVec d B = false) by (unfold badVec, B; rewrite to_vecF; exact P4).
  assert (E7 : wrongAns cf d B = false).
  { rewrite <- P7. unfold wrongAns, B. rewrite to_vecOk. destruct (vecOk A); [|reflexivity].
    apply existsb_ext'. intro c. fold B. rewrite Hc. unfold B. rewrite to_ansF. reflexivity. }
  rewrite E4, E7. cbn [orb]. rewrite orb_false_r. reflexivity.
Qed.

Lemma ncompl_nkeys A q :
  StateAbs A q -> (nph A < 2)%nat ->
  ncompl cf (q_compl q) = length (filter (fun c => complained A c || ansEarly A c) (seq 0 (c_n cf))).
Proof.
  intros S Hn. unfold ncompl. f_equal. apply filter_ext'. intro c.
  rewrite (sa_compl _ _ S c), (sa_early _ _ S Hn c).
  destruct (complained A c), (ansF A c); reflexivity.
Qed.

Lemma step_timeout A q :
  q_disq q = false -> StateAbs A q -> Phi A = false ->
  Refines (A ++ [(nph A, ITimeout)]) (fst (istep q ITimeout)).
Proof.
  intros Hq S P. unfold istep. cbn [call_of qual_step qs_run qs_q]. unfold q_next_timeout. cbn [negb].
  pose proof S as [Sst Sct Svr Svok Svnone Sxr Scompl Searly Sx Sx0 Sx1].
  set (B := A ++ [(nph A, ITimeout)]).
  pose proof (nph_le2 A) as Hle.
  destruct (q_ct q) eqn:Ect.
  { cbn. symmetry in Sct. apply Nat.leb_le in Sct.
    apply (refines_same A); auto. apply to_same_at_2. lia. }
  symmetry in Sct. apply Nat.leb_gt in Sct.
  rewrite Hq. destruct (q_st q) eqn:Est; cbn [negb].
  - (* the complaints timeout *)
    symmetry in Sst. apply Nat.leb_le in Sst.
    assert (Hn1 : nph A = 1%nat) by lia.
    pose proof (to_nph A) as NB. fold B in NB. rewrite Hn1 in NB. cbn in NB.
    assert (Hc : forall c, complained B c = complained A c).
    { intro c. apply to_complained_keep. left. lia. }
    pose proof (Phi_timeout A P Hc) as PB. fold B in PB.
    assert (ENV : noVec d B = false).
    { destruct (Phi_false_inv A P) as (_ & _ & _ & _ & P5 & _). unfold noVec in *. unfold B. rewrite to_vecF. fold B.
      rewrite NB. rewrite Hn1 in P5. exact P5. }
    assert (EK : nkeys cf d B = ncompl cf (q_compl q)).
    { rewrite (ncompl_nkeys A q S Sct). unfold nkeys. f_equal. apply filter_ext'. intro c. unfold keyF.
      rewrite Hc. unfold B. rewrite to_ansEarly. reflexivity. }
    assert (ETM : tooMany cf d B = Nat.ltb (c_t cf) (ncompl cf (q_compl q))).
    { unfold tooMany. rewrite NB, EK. reflexivity. }
    rewrite ENV, ETM in PB. cbn [orb] in PB.
    unfold set_complaints_timeout. cbn [q_compl qset_ct].
    assert (SB : forall q', q_st q' = q_st q -> q_ct q' = true -> q_v q' = q_v q -> q_compl q' = q_compl q -> StateAbs B q').
    { intros q' F1 F2 F3 F4.
      refine (mkSA _ _ _ _ _ _ _ _ _ _ _ _ _); unfold B; rewrite ?to_vecF, ?to_vecOk, ?to_shF, ?F1, ?F2, ?F3, ?F4; fold B; rewrite ?NB; auto.
      all: try (rewrite Est; reflexivity).
      all: try (intro c; rewrite Hc; unfold B; rewrite to_ansF; apply Scompl).
      all: try (intro Hn; lia).
      all: try (intros a Ea _; rewrite Hc; unfold B; rewrite to_ansF; apply Sx; auto; right; lia).
      all: try (intros Hv Hcm z Ez; rewrite Hc in Hcm; unfold B in Ez; rewrite to_ansF in Ez; apply Sx0; auto). }
    destruct (Nat.ltb (c_t cf) (ncompl cf (q_compl q))) eqn:Et; cbn.
    + split; intro Hq'; [discriminate Hq'|]. exact PB.
    + split; intro Hq'; [|cbn in Hq'; rewrite Hq in Hq'; discriminate Hq'].
      split; [|exact PB]. apply SB; auto.
  - (* the shares timeout *)
    symmetry in Sst. apply Nat.leb_gt in Sst.
    assert (Hn0 : nph A = 0%nat) by lia.
    pose proof (to_nph A) as NB. fold B in NB. rewrite Hn0 in NB. cbn in NB.
    rewrite istep_lift. unfold set_shares_timeout. cbn [q_v qset_st negb].
    destruct (v_vArecv (q_v q)) eqn:Er; cbn [negb].
    2:{ (* no vector: disqualified *)
        destruct (vecF_none A q S Er) as [Ev Evo].
        split; intro Hq'; [discriminate Hq'|]. apply Phi_of_noVec. unfold noVec, B. rewrite to_vecF. fold B. rewrite NB, Ev. reflexivity. }
    destruct (vecF_valid A q S P Er) as (l & Ev & Evo & Ey).
    assert (ENV : noVec d B = false) by (unfold noVec, B; rewrite to_vecF, Ev; apply andb_false_r).
    destruct (v_xrecv (q_v q)) eqn:Ex; cbn [negb].
    + (* vector and share are there *)
      rewrite Sxr in Ex. destruct (shF A) as [m|] eqn:Es; [|discriminate].
      assert (Hc : forall c, complained B c = complained A c).
      { intro c. apply to_complained_keep. right. congruence. }
      pose proof (Phi_timeout A P Hc) as PB. fold B in PB. rewrite ENV in PB.
      assert (ETM : tooMany cf d B = false) by (unfold tooMany; rewrite NB; reflexivity).
      rewrite ETM in PB.
      split; intro Hq'; [|cbn in Hq'; rewrite Hq in Hq'; discriminate Hq'].
      split; [|exact PB].
      refine (mkSA _ _ _ _ _ _ _ _ _ _ _ _ _); unfold B; rewrite ?to_vecF, ?to_vecOk, ?to_shF; fold B; rewrite ?NB; cbn; auto.
      all: try (rewrite Er; exact Svr).
      all: try (intros Hv; rewrite Hv in Ev; discriminate Ev).
      all: try (rewrite Es; exact Ex).
      all: try (intro c; rewrite Hc; unfold B; rewrite to_ansF; apply Scompl).
      all: try (intros _ c; unfold B; rewrite to_ansEarly, to_ansF; apply Searly; lia).
      all: try (intros a Ea _; rewrite Hc; unfold B; rewrite to_ansF; apply Sx; auto; left; rewrite Es; reflexivity).
      all: try (intros Hv Hcm z Ez; rewrite Hc in Hcm; unfold B in Ez; rewrite to_ansF in Ez; apply Sx0; auto).
    + (* no share: the own complaint *)
      rewrite Sxr in Ex. destruct (shF A) as [m|] eqn:Es; [discriminate|].
      assert (OA : ownc A = false) by (unfold DkgQualFacts.ownc; rewrite Es, Hn0; reflexivity).
      assert (OB : ownc B = true).
      { unfold DkgQualFacts.ownc, B. rewrite to_shF, to_vecOk, Es, Evo. fold B. rewrite NB. reflexivity. }
      assert (HB : match build_complaint cf d (qset_st q true) with
                   | Some (q', _) => Refines B q' | None => False end).
      { apply (own_complaint_refines A B q (qset_st q true) S P); cbn; auto; try lia.
        all: try (apply to_vecF). all: try (apply to_ansF). all: try (apply to_ansEarly).
        all: try (apply to_fatal). all: try (apply to_forced). all: try (apply to_compF).
        all: try (rewrite NB; reflexivity).
        all: try (unfold B; rewrite to_shF, Es; exact Ex).
        all: try (intros _ z Esb; unfold B in Esb; rewrite to_shF, Es in Esb; discriminate Esb). }
      destruct (build_complaint cf d (qset_st q true)) as [[q' ev]|]; [exact HB|contradiction].
Qed.

(* ---------------- one step, any input ---------------- *)
Theorem step_refines A q x : Refines A q -> Refines (A ++ [(nph A, x)]) (fst (istep q x)).
Proof.
  intros [R1 R2]. destruct (q_disq q) eqn:Hq.
  - pose proof (istep_disq q x Hq) as Hd'. split; intro H; [rewrite Hd' in H; discriminate H|].
    apply Phi_mono. apply R2. reflexivity.
  - destruct (R1 eq_refl) as [S P]. destruct x as [o m|o m| |j].
    + apply step_IB; assumption.
    + apply step_IP; assumption.
    + apply step_timeout; assumption.
    + apply step_force; assumption.
Qed.

(* processing an input list *)
Definition irun (q : qinst) (L : list item) : qinst := fold_left (fun q x => fst (istep q x)) L q.

Lemma annot_from_app k L x :
  annot_from k (L ++ [x]) = annot_from k L ++ [(Nat.min 2 (k + length (filter is_timeout L)), x)].
Proof.
  revert k. induction L as [|y L IH]; intro k; cbn [annot_from app filter length].
  - rewrite Nat.add_0_r. reflexivity.
  - rewrite IH. destruct (is_timeout y); cbn [length]; [rewrite Nat.add_succ_r|]; reflexivity.
Qed.

Lemma annot_snd k L : map snd (annot_from k L) = L.
Proof. revert k. induction L as [|y L IH]; intro k; cbn; [reflexivity|]. rewrite IH. reflexivity. Qed.

Lemma nph_annot L : nph (annot L) = ph L.
Proof.
  unfold nph, ph, annot. f_equal.
  rewrite <- (annot_snd 0 L) at 2. generalize (annot_from 0 L). intro A.
  induction A as [|[k x] A IH]; cbn; [reflexivity|]. destruct (is_timeout x); cbn; rewrite IH; reflexivity.
Qed.

Lemma annot_app L x : annot (L ++ [x]) = annot L ++ [(nph (annot L), x)].
Proof. unfold annot. rewrite annot_from_app. rewrite nph_annot. reflexivity. Qed.

Lemma existsb_const_false {X} (l : list X) : existsb (fun _ => false) l = false.
Proof. induction l; cbn; auto. Qed.

Lemma Phi_nil : Phi [] = false.
Proof.
  unfold DkgQualFacts.Phi. cbn [DkgQualFacts.forced DkgQualFacts.fatal orb].
  unfold badFirst. cbn [DkgQualFacts.ansF]. rewrite existsb_const_false. reflexivity.
Qed.

Lemma Refines_init : Refines [] q_init.
Proof.
  split; [|discriminate]. intros _. split; [|exact Phi_nil].
  refine (mkSA _ _ _ _ _ _ _ _ _ _ _ _ _); cbn; auto; try discriminate.
  all: try (intro c; unfold DkgQualFacts.complained; destruct (Nat.eqb c (c_my cf)); reflexivity).
  all: try (intros a H; discriminate H).
  all: try (intros _ H; discriminate H).
Qed.

(* C07 qual_refines_factset *)
Theorem qual_refines_factset : forall L, Refines (annot L) (irun q_init L).
Proof.
  intro L. rewrite <- (rev_involutive L). induction (rev L) as [|x K IH]; cbn [rev].
  - exact Refines_init.
  - rewrite annot_app. unfold irun. rewrite fold_left_app. cbn [fold_left]. apply step_refines. exact IH.
Qed.

(* the timeouts are counted whether or not the instance is disqualified (from the C10 simulation) *)
Lemma istep_as_step q x :
  istep q x = (qs_q (fst (fst (qual_step cf d (mkQS true q) (call_of x)))), snd (qual_step cf d (mkQS true q) (call_of x))).
Proof. unfold istep. destruct (qual_step cf d (mkQS true q) (call_of x)) as [[s' res] ev]. reflexivity. Qed.

Lemma ph_app L x : ph (L ++ [x]) = if is_timeout x then Nat.min 2 (S (length (filter is_timeout L))) else ph L.
Proof.
  unfold ph. rewrite filter_app, app_length. cbn [filter]. destruct (is_timeout x); cbn [length]; [rewrite Nat.add_1_r|rewrite Nat.add_0_r]; reflexivity.
Qed.

Lemma irun_inv : forall L,
  qinv cf d (mkQS true (irun q_init L)) /\
  (b2n (q_st (irun q_init L)) + b2n (q_ct (irun q_init L)))%nat = ph L.
Proof.
  intro L. rewrite <- (rev_involutive L). induction (rev L) as [|x K IH]; cbn [rev].
  - split; [|reflexivity]. split; [apply (q_init_wf cf d)|]. cbn. intros E. exfalso. apply Hpd. exact E.
  - destruct IH as [IH1 IH2]. unfold irun. rewrite fold_left_app. cbn [fold_left]. fold (irun q_init (rev K)).
    set (q := irun q_init (rev K)) in *.
    pose proof (qual_step_sim cf d Hp (mkQS true q) (call_of x) IH1) as HS.
    rewrite istep_as_step. cbn [fst].
    destruct (qual_step cf d (mkQS true q) (call_of x)) as [[s' res] ev]. cbn [fst snd].
    unfold qabs in HS at 1. cbn [qs_run qs_q] in HS. rewrite IH2 in HS.
    rewrite ph_app.
    assert (Hcnt : ph (rev K) = Nat.min 2 (length (filter is_timeout (rev K)))) by reflexivity.
    destruct x as [o m|o m| |j]; cbn [call_of aut_step a_run a_to has_timeouts negb is_timeout] in HS |- *.
    + destruct (in_range cf (Z.of_nat o)); cbn in HS; destruct HS as (I & Ab & _); destruct s' as [r' q'];
        unfold qabs in Ab; cbn in Ab; inversion Ab; subst; split; auto.
    + destruct (in_range cf (Z.of_nat o)); cbn in HS; destruct HS as (I & Ab & _); destruct s' as [r' q'];
        unfold qabs in Ab; cbn in Ab; inversion Ab; subst; split; auto.
    + destruct (Nat.leb_spec 2 (ph (rev K))) as [H2|H2]; cbn in HS; destruct HS as (I & Ab & _); destruct s' as [r' q'];
        unfold qabs in Ab; cbn in Ab; inversion Ab; subst; (split; [auto|]); cbn [qs_q]; rewrite Hcnt in *; lia.
    + destruct (in_range cf (Z.of_nat j)); cbn in HS; destruct HS as (I & Ab & _); destruct s' as [r' q'];
        unfold qabs in Ab; cbn in Ab; inversion Ab; subst; split; auto.
Qed.

Lemma irun_flags L :
  q_st (irun q_init L) = Nat.leb 1 (ph L) /\ q_ct (irun q_init L) = Nat.leb 2 (ph L).
Proof.
  destruct (irun_inv L) as [[(_ & _ & _ & Q3) _] Hs]. cbn [qs_q] in Q3.
  pose proof (Nat.le_min_l 2 (length (filter is_timeout L))) as Hle. fold (ph L) in Hle.
  destruct (q_st (irun q_init L)), (q_ct (irun q_init L)); cbn in Hs; rewrite <- Hs; cbn; auto.
  specialize (Q3 eq_refl). discriminate Q3.
Qed.

(* ---------------- End ---------------- *)
Lemma unanswered_abs A q : StateAbs A q -> unanswered cf (q_compl q) = unansweredF cf d A.
Proof.
  intro S. unfold unanswered, unansweredF. apply existsb_ext'. intro c. rewrite (sa_compl _ _ S c).
  destruct (complained A c), (ansF A c); reflexivity.
Qed.

(* the verdict at End is PhiEnd of the facts; the keys are those of the dealer's vector *)
Theorem qual_end_verdict L :
  ph L = 2%nat ->
  let A := annot L in
  let '(run', q', res, ev) := q_end cf d true (irun q_init L) in
  run' = false /\
  (PhiEnd cf d A = true -> res = RFailure /\ q_disq q' = true) /\
  (PhiEnd cf d A = false ->
     exists a, vecOk A = Some a /\ q_disq (irun q_init L) = false /\
               res = end_keys cf (peval a (Z.of_nat p + 1)) (VAFull a) (Some (pubkeys cf a))).
Proof.
  intros Hph A. pose proof (qual_refines_factset L) as [R1 R2]. fold A in R1, R2.
  set (q := irun q_init L) in *. unfold q_end. cbn [negb].
  assert (Hn : nph A = 2%nat) by (unfold A; rewrite nph_annot; exact Hph).
  destruct (q_disq q) eqn:Hq.
  - (* already disqualified *)
    assert (Hst : q_st q = true /\ q_ct q = true).
    { destruct (irun_flags L) as [F1 F2]. fold q in F1, F2. rewrite Hph in F1, F2. auto. }
    destruct Hst as [-> ->]. cbn. rewrite Hq. cbn.
    split; [reflexivity|]. split.
    + intros _. auto.
    + unfold PhiEnd. rewrite (R2 eq_refl). discriminate.
  - destruct (R1 eq_refl) as [S P].
    rewrite (sa_st _ _ S), (sa_ct _ _ S), Hn. cbn [Nat.leb negb orb andb].
    rewrite (unanswered_abs A q S). unfold PhiEnd. rewrite P. cbn [orb].
    destruct (unansweredF cf d A) eqn:EU; cbn.
    + split; [reflexivity|]. split; [auto|discriminate].
    + rewrite Hq.
      destruct (Phi_false_inv A P) as (_ & _ & _ & P4 & P5 & _).
      unfold noVec in P5. rewrite Hn in P5. cbn in P5.
      destruct (vecF A) as [vb|] eqn:Ev; [|discriminate P5].
      unfold badVec in P4. rewrite Ev in P4. destruct vb as [|k|l]; try discriminate P4.
      assert (Evo : vecOk A = Some (fixpoly (c_t cf) l)) by (unfold DkgQualFacts.vecOk; rewrite Ev; reflexivity).
      destruct (sa_vok _ _ S _ Evo) as [EvA Ey].
      assert (Hx : v_x (q_v q) = peval (fixpoly (c_t cf) l) (Z.of_nat p + 1)).
      { destruct (sa_x _ _ S _ Evo) as [Hx|[Hc Ha]]; [right; rewrite Hn; lia|exact Hx|].
        exfalso. unfold unansweredF in EU.
        pose proof (existsb_false_in _ _ p EU) as HU. cbn beta in HU. rewrite Hc, Ha in HU.
        assert (Hin : In p (seq 0 (c_n cf))) by (apply in_seq; unfold p; lia). specialize (HU Hin). discriminate HU. }
      rewrite EvA, Ey, Hx.
      destruct (end_keys cf (peval (fixpoly (c_t cf) l) (Z.of_nat p + 1)) (VAFull (fixpoly (c_t cf) l))
                  (Some (pubkeys cf (fixpoly (c_t cf) l)))) eqn:EK; cbn;
        (split; [reflexivity|split; [discriminate|intros _; exists (fixpoly (c_t cf) l); auto]]).
Qed.

End Refine.
