(* C09 - no-panic theorems for the BLS entry points that need stated preconditions
   (bls.go, bls_multisig.go, bls_thresholdsign.go, bls12381_utils.go).
   Every hypothesis is about a value the LIBRARY built (named by the oracle entry the
   skeleton reads it from), never about a caller-supplied argument other than
   "a length is non-negative". *)
From Coq Require Import ZArith List String Bool Lia.
From V Require Import Model.Risk Generated.RiskSkel Proofs.RiskProofs Proofs.RiskBase.
Import ListNotations.
Open Scope string_scope.
Open Scope Z_scope.

Ltac safe_auto := unfold safe, risk_fuel; risk_auto.

(* hasher contract: ComputeHash returns Size() bytes, and checkBLSHasher accepted Size() = 128 *)
Theorem np_bls_Sign : forall e,
  e "h:=kmac.ComputeHash(data)" = 128 ->
  safe skel_prKeyBLSBLS12381_Sign e.
Proof. safe_auto. Qed.

Theorem np_bls_Verify : forall e,
  e "h:=kmac.ComputeHash(data)" = 128 ->
  safe skel_pubKeyBLSBLS12381_Verify e.
Proof. safe_auto. Qed.

(* flatSigs is the concatenation of the sigs, each checked to be 48 bytes in the loop
   (np_bls_AggregateSignatures_loop below) *)
Theorem np_bls_AggregateSignatures : forall e,
  0 <= e "sigs" -> e "flatSigs@E1" = 48 * e "sigs" ->
  safe skel_AggregateBLSSignatures e.
Proof. safe_auto. Qed.

Theorem np_bls_AggregatePrivateKeys : forall e,
  0 <= e "keys" -> e "scalars@E1" = e "keys" ->
  safe skel_AggregateBLSPrivateKeys e.
Proof. safe_auto. Qed.

Theorem np_bls_AggregatePublicKeys : forall e,
  0 <= e "keys" -> e "points@E1" = e "keys" ->
  safe skel_AggregateBLSPublicKeys e.
Proof. safe_auto. Qed.

Theorem np_bls_RemovePublicKeys : forall e,
  0 <= e "keysToRemove" -> e "pointsToSubtract@E1" = e "keysToRemove" ->
  safe skel_RemoveBLSPublicKeys e.
Proof. safe_auto. Qed.

Theorem np_bls_VerifyOneMessage : forall e,
  0 <= e "pks" -> e "points@E1" = e "pks" ->
  safe skel_VerifyBLSSignatureOneMessage e.
Proof. safe_auto. Qed.

Theorem np_bls_BatchVerify : forall e,
  0 <= e "sigs" ->
  e "pkPoints@E1" = e "pks" -> e "flatSigs@E1" = 48 * e "sigs" ->
  e "h:=kmac.ComputeHash(message)" = 128 ->
  safe skel_BatchVerifyBLSSignaturesOneMessage e.
Proof. safe_auto. Qed.

(* hashes has one entry per hasher; the flattened per-hash / per-key lists are built from
   the non-empty maps filled in the second loop (pks is non-empty, every hash is non-empty) *)
Theorem np_bls_VerifyManyMessages : forall e,
  e "hashes@E1" = e "kmac" ->
  0 < e "flatDistinctHashes@E3" -> 0 < e "lenHashes@E3" -> 0 < e "pkPerHash@E3" -> 0 < e "allPks@E3" ->
  0 < e "distinctPks@E4" -> 0 < e "hashPerPk@E4" -> 0 < e "flatHashes@E4" -> 0 < e "lenHashes@E4" ->
  safe skel_VerifyBLSSignatureManyMessages e.
Proof. safe_auto. Qed.

(* hkdf.Key returns okmLength = 48 bytes; sha256 Size() = 32 *)
Theorem np_bls_generatePrivateKey : forall e,
  0 < e "okm:=hkdf.Key(hashFunction, secret, salt, info, okmLength)" ->
  0 <= e "hasher.Size()" -> 0 <= e "salt@L1" ->
  safe skel_blsBLS12381Algo_generatePrivateKey e.
Proof. safe_auto. Qed.

(* exported; panicked on nil / empty slices before the fix f338146 (found by this skeleton);
   the hypotheses only say that lengths are non-negative *)
Theorem np_E2PolynomialImages : forall e,
  0 <= e "out" -> 0 <= e "A" ->
  safe skel_E2PolynomialImages e.
Proof. safe_auto. Qed.

(* ---- threshold signatures ---- *)
Theorem np_thr_VerifyShare : forall e,
  e "s.publicKeyShares" = e "s.size" ->
  safe skel_blsThresholdSignatureInspector_VerifyShare e.
Proof. safe_auto. Qed.

Theorem np_thr_VerifyAndAdd : forall e,
  e "s.publicKeyShares" = e "s.size" -> e "s.size" <= 254 ->
  safe skel_blsThresholdSignatureInspector_VerifyAndAdd e.
Proof. safe_auto. Qed.

(* shares / signers are flattened from the map s.shares, which holds threshold+1 entries
   (enoughShares), each checked to be 48 bytes in the loop *)
Theorem np_thr_ThresholdSignature : forall e,
  0 <= e "s.threshold" ->
  e "shares@E1" = 48 * e "s.shares" -> e "signers@E1" = e "s.shares" ->
  safe skel_blsThresholdSignatureInspector_ThresholdSignature e.
Proof. safe_auto. Qed.

Theorem np_thr_Reconstruct : forall e,
  48 * (e "threshold" + 1) <= e "flatShares@E1" -> e "indexSigners@E1" = e "shares" ->
  safe skel_BLSReconstructThresholdSignature e.
Proof. safe_auto. Qed.

(* ---- what one iteration of the accumulating loops does: a wrong-length element ends the
   function, so every element that was appended has exactly 48 bytes ---- *)
Lemma AggregateSignatures_loop_rejects_bad_length : forall e,
  e "sig@val1" <> 48 -> always_returns (loop_body skel_AggregateBLSSignatures 0) e.
Proof. returns_auto. Qed.

Lemma Reconstruct_loop_rejects_bad_length : forall e,
  e "i" <= e "threshold" -> e "share@val1" <> 48 ->
  always_returns (loop_body skel_BLSReconstructThresholdSignature 0) e.
Proof. returns_auto. Qed.

Lemma reconstructThresholdSignature_loop_rejects_bad_length : forall e,
  e "share@val1" <> 48 ->
  always_returns (loop_body skel_blsThresholdSignatureInspector_reconstructThresholdSignature 0) e.
Proof. returns_auto. Qed.
