(* The history checker instance used by the harness (Corr/C18Corr.v) is sound:
   its result comparison is a sound equality test. *)
From Coq Require Import ZArith NArith List Bool Permutation.
From V Require Import Model.ThresholdObj Model.LinCheck Proofs.LinCheckProofs Corr.C18Corr.
Import ListNotations.

Lemma err_eqb_sound a b : err_eqb a b = true -> a = b.
Proof. destruct a, b; cbn; intro H; try reflexivity; discriminate. Qed.

Lemma bool_eqb_sound a b : Bool.eqb a b = true -> a = b.
Proof. destruct a, b; cbn; intro H; try reflexivity; discriminate. Qed.

Lemma sdesc_eqb_sound a b : sdesc_eqb a b = true -> a = b.
Proof.
  destruct a, b. unfold sdesc_eqb. cbn. intro H.
  apply andb_prop in H as [H H4]. apply andb_prop in H as [H H3]. apply andb_prop in H as [H1 H2].
  apply N.eqb_eq in H1, H3. apply Z.eqb_eq in H2, H4. subst. reflexivity.
Qed.

Lemma opt_eqb_sound a b : opt_eqb a b = true -> a = b.
Proof.
  destruct a, b; cbn; intro H; try reflexivity; try discriminate. apply N.eqb_eq in H. subst. reflexivity.
Qed.

Lemma res_eqb_sound a b : res_eqb a b = true -> a = b.
Proof.
  destruct a, b; cbn; intro H; try discriminate.
  - apply andb_prop in H as [H1 H2]. apply bool_eqb_sound in H1. apply err_eqb_sound in H2. subst. reflexivity.
  - apply andb_prop in H as [H H3]. apply andb_prop in H as [H1 H2].
    apply bool_eqb_sound in H1, H2. apply err_eqb_sound in H3. subst. reflexivity.
  - apply andb_prop in H as [H1 H2]. apply sdesc_eqb_sound in H1. apply err_eqb_sound in H2. subst. reflexivity.
  - apply andb_prop in H as [H1 H2]. apply opt_eqb_sound in H1. apply err_eqb_sound in H2. subst. reflexivity.
Qed.

Theorem hist_ok_sound c :
  hist_ok c = true ->
  exists l, Permutation (c_hist c) l /\
            legal (state sdesc N) mop mres (mstep c) init l /\ rt_order mop mres l.
Proof. intro H. apply (lin_check_sound _ _ _ _ _ res_eqb_sound _ _ H). Qed.
