(* C15, part 4: the statements of Properties/C15.v assembled from the lemmas of
   RandUintN / RandUniform / RandPerm. *)
From Coq Require Import ZArith NArith List Bool Lia ZifyN ZifyNat Permutation.
From V Require Import Lib.ListX Model.Rand Spec.RandSpec Proofs.RandUintN Proofs.RandUniform Proofs.RandPerm.
Import ListNotations.

(* ---------- UintN ---------- *)

Lemma uintn_in_range_default n s v s' : uintn n s = Ok v s' -> (v < n)%N.
Proof. apply uintn_fuel_in_range. Qed.

Lemma uintn_zero_panics fuel s : uintn_fuel fuel 0 s = Panic.
Proof. reflexivity. Qed.

(* the fibre of every v < n under one attempt on a k-byte chunk has 2^(8k-b) elements *)
Lemma uintn_attempt_fibre_count n v :
  (0 < n)%N -> (v < n)%N ->
  length (filter (fun c => (attempt (bits (n - 1)) c =? v)%N) (nrange (256 ^ N.of_nat (nbytes (n - 1))))) =
  N.to_nat (2 ^ (8 * N.of_nat (nbytes (n - 1)) - bits (n - 1))).
Proof.
  intros Hn Hv. rewrite pow256. apply attempt_fibre_count; [apply bits_le_8_nbytes|].
  pose proof (n_le_pow_bits n Hn). lia.
Qed.

Lemma uintn_attempt_fibres n v :
  (0 < n)%N -> (v < n)%N ->
  let b := bits (n - 1) in let k8 := (8 * N.of_nat (nbytes (n - 1)))%N in
  (forall q, (q < 2 ^ (k8 - b))%N ->
     (fibre_in b v q < 2 ^ k8)%N /\ attempt b (fibre_in b v q) = v /\ fibre_out b (fibre_in b v q) = q) /\
  (forall c, (c < 2 ^ k8)%N -> attempt b c = v ->
     (fibre_out b c < 2 ^ (k8 - b))%N /\ fibre_in b v (fibre_out b c) = c).
Proof.
  intros Hn Hv b k8. apply fibre_bijection; [apply bits_le_8_nbytes|].
  pose proof (n_le_pow_bits n Hn). unfold b. lia.
Qed.

(* ---------- determinism / independence of the buffer for all helpers ---------- *)

Lemma all_helpers_ignore_stale_bytes s1 s2 :
  same_tape s1 s2 ->
  (forall fuel n, (n < w64)%N -> res_rel (uintn_fuel fuel n s1) (uintn_fuel fuel n s2)) /\
  (forall n, (n < w64)%N -> res_rel (uintn n s1) (uintn n s2)) /\
  (forall n, res_rel (permutation n s1) (permutation n s2)) /\
  (forall n m, res_rel (subpermutation n m s1) (subpermutation n m s2)) /\
  (forall n m, res_rel (samples n m s1) (samples n m s2)) /\
  (forall n, res_rel (shuffle n s1) (shuffle n s2)).
Proof.
  intro H. repeat split.
  - intros. apply uintn_fuel_stale; assumption.
  - intros. apply uintn_stale; assumption.
  - intros. apply permutation_stale; assumption.
  - intros. apply subpermutation_stale; assumption.
  - intros. apply samples_stale; assumption.
  - intros. apply shuffle_stale; assumption.
Qed.

Lemma equal_states_equal_outputs s1 s2 :
  s1 = s2 ->
  (forall n, uintn n s1 = uintn n s2) /\ (forall n, permutation n s1 = permutation n s2) /\
  (forall n m, subpermutation n m s1 = subpermutation n m s2) /\
  (forall n m, samples n m s1 = samples n m s2) /\ (forall n, shuffle n s1 = shuffle n s2).
Proof. intros ->. repeat split. Qed.

(* ---------- argument validation ---------- *)

Lemma argument_errors s :
  (forall n, (n < 0)%Z -> permutation n s = Err E_NEG_POPULATION) /\
  (forall n m, (m < 0)%Z -> subpermutation n m s = Err E_NEG_SAMPLE) /\
  (forall n m, (0 <= m)%Z -> (n < m)%Z -> subpermutation n m s = Err E_SAMPLE_GT_POP) /\
  (forall n m, (m < 0)%Z -> samples n m s = Err E_NEG_SAMPLE) /\
  (forall n m, (0 <= m)%Z -> (n < m)%Z -> samples n m s = Err E_SAMPLE_GT_POP) /\
  (forall n, (n < 0)%Z -> shuffle n s = Err E_NEG_POPULATION).
Proof.
  repeat split; intros.
  - unfold permutation. replace (n <? 0)%Z with true by (symmetry; apply Z.ltb_lt; lia). reflexivity.
  - unfold subpermutation. replace (m <? 0)%Z with true by (symmetry; apply Z.ltb_lt; lia). reflexivity.
  - unfold subpermutation. replace (m <? 0)%Z with false by (symmetry; apply Z.ltb_ge; lia).
    replace (n <? m)%Z with true by (symmetry; apply Z.ltb_lt; lia). reflexivity.
  - unfold samples. replace (m <? 0)%Z with true by (symmetry; apply Z.ltb_lt; lia). reflexivity.
  - unfold samples. replace (m <? 0)%Z with false by (symmetry; apply Z.ltb_ge; lia).
    replace (n <? m)%Z with true by (symmetry; apply Z.ltb_lt; lia). reflexivity.
  - unfold shuffle. replace (n <? 0)%Z with true by (symmetry; apply Z.ltb_lt; lia). reflexivity.
Qed.

Definition ok_or_tape {A} (r : res A) : Prop := r = OutOfTape \/ exists a s', r = Ok a s'.

(* valid arguments: neither an error nor a panic nor fuel exhaustion; only the tape can end *)
Lemma valid_arguments_no_error s :
  length (ubuf s) = 8%nat ->
  (forall n, (0 < n < w64)%N -> ok_or_tape (uintn n s)) /\
  (forall n, (0 <= n < Z.of_N w63)%Z -> ok_or_tape (permutation n s)) /\
  (forall n m, (0 <= m <= n)%Z -> (n < Z.of_N w63)%Z -> ok_or_tape (subpermutation n m s)) /\
  (forall n m, (0 <= m <= n)%Z -> (n < Z.of_N w63)%Z -> ok_or_tape (samples n m s)) /\
  (forall n, (0 <= n < Z.of_N w63)%Z -> ok_or_tape (shuffle n s)).
Proof.
  intro Hb.
  assert (forall n, (0 <= n < Z.of_N w63)%Z -> ok_or_tape (permutation n s)) as Hperm.
  { intros n Hn. rewrite permutation_eq by assumption.
    destruct (bind_draws_cases (perm_args 0 (Z.to_nat n)) s (fun js => io_perm (map N.to_nat js)))
      as [E|[js [s' E]]]; [apply perm_args_ok; lia|exact Hb|left; exact E|right; eauto]. }
  assert (forall n m, (0 <= m <= n)%Z -> (n < Z.of_N w63)%Z -> ok_or_tape (samples n m s)) as Hsamp.
  { intros n m Hm Hn. unfold samples.
    replace (m <? 0)%Z with false by (symmetry; apply Z.ltb_ge; lia).
    replace (n <? m)%Z with false by (symmetry; apply Z.ltb_ge; lia).
    rewrite samples_loop_eq by (try exact Hb; lia).
    destruct (bind_draws_cases (samp_args n 0 (Z.to_nat m)) s (fun js => zpairs (swaps_of 0 (map N.to_nat js))))
      as [E|[js [s' E]]]; [apply samp_args_ok; lia|exact Hb|left; exact E|right; eauto]. }
  split; [|split; [exact Hperm|split; [|split; [exact Hsamp|]]]].
  - intros n Hn. destruct (uintn_cases n s) as [E|[v [s' [E _]]]]; [exact Hn|exact Hb|left; exact E|right; eauto].
  - intros n m Hm Hn. unfold subpermutation.
    replace (m <? 0)%Z with false by (symmetry; apply Z.ltb_ge; lia).
    replace (n <? m)%Z with false by (symmetry; apply Z.ltb_ge; lia).
    destruct (Hperm n) as [E|[items [s' E]]]; [lia|rewrite E; left; reflexivity|].
    rewrite E. pose proof (permutation_is_perm n s items s') as HP.
    destruct HP as [_ HL]; [lia|exact Hb|exact E|].
    replace (Nat.leb (Z.to_nat m) (length items)) with true by (symmetry; apply Nat.leb_le; lia).
    right. eauto.
  - intros n Hn. unfold shuffle. replace (n <? 0)%Z with false by (symmetry; apply Z.ltb_ge; lia).
    apply Hsamp; lia.
Qed.

(* ---------- Samples / Shuffle: shape of the swap calls ---------- *)

Lemma samples_shape n m s sw s' :
  (n < Z.of_N w63)%Z -> length (ubuf s) = 8%nat -> samples n m s = Ok sw s' ->
  length sw = Z.to_nat m /\
  (forall k a b, nth_error sw k = Some (a, b) -> a = Z.of_nat k /\ (a < m)%Z /\ (a <= b < n)%Z) /\
  (forall (A : Type) (L : list A), length L = Z.to_nat n ->
     exists L', apply_swaps sw L = Some L' /\ Permutation L L').
Proof.
  intros Hn Hb H. apply samples_ok_inv in H; [|assumption|assumption].
  destruct H as [Hm [js [_ [Hv [Hl ->]]]]]. split; [|split].
  - unfold zpairs. rewrite map_length, swaps_of_length, map_length. exact Hl.
  - intros k a b Hk. unfold zpairs in Hk. rewrite nth_error_map in Hk.
    destruct (nth_error (swaps_of 0 (map N.to_nat js)) k) as [[a0 b0]|] eqn:E; [|discriminate].
    cbn in Hk. inversion Hk; subst.
    assert (k < length (swaps_of 0 (map N.to_nat js)))%nat as Hklt by (apply nth_error_Some; congruence).
    rewrite swaps_of_length, map_length in Hklt.
    apply (swaps_of_shape _ _ _ _ _ _ Hv) in E. lia.
  - intros A L HL. rewrite apply_swaps_zpairs. apply (apply_valid_perm (Z.to_nat n)); assumption.
Qed.

Lemma shuffle_is_samples n s : (0 <= n)%Z -> shuffle n s = samples n n s.
Proof. intro H. unfold shuffle. replace (n <? 0)%Z with false by (symmetry; apply Z.ltb_ge; lia). reflexivity. Qed.

(* the ordered sample left in positions 0..m-1 determines the choice vector *)
Lemma samples_choices_injective {A} (n : nat) (js js' : list nat) (L R R' : list A) :
  NoDup L -> length L = n -> fy_valid n 0 js -> fy_valid n 0 js' -> length js = length js' ->
  apply_swaps (zpairs (swaps_of 0 js)) L = Some R -> apply_swaps (zpairs (swaps_of 0 js')) L = Some R' ->
  firstn (length js) R = firstn (length js) R' -> js = js'.
Proof.
  intros HND HL Hv Hv' Hlen HR HR'. rewrite apply_swaps_zpairs in HR, HR'.
  eapply fy_choices_inj; eassumption.
Qed.

(* ---------- surjectivity: every permutation of 0..n-1 comes from a valid choice vector ---------- *)

Lemma io_perm_from_snoc js : forall P j, io_perm_from P (js ++ [j]) = io_step (io_perm_from P js) j.
Proof. induction js as [|x r IH]; intros P j; [reflexivity|]. cbn [app io_perm_from]. apply IH. Qed.

Lemma io_valid_snoc js : forall i j, io_valid i js -> (j <= i + length js)%nat -> io_valid i (js ++ [j]).
Proof.
  induction js as [|x r IH]; intros i j Hv Hj; cbn in *.
  - split; [lia|exact I].
  - destruct Hv as [H1 H2]. split; [exact H1|]. apply IH; [exact H2|lia].
Qed.

Lemma io_step_surj n p :
  Permutation p (zrange (S n)) ->
  exists P j, length P = n /\ (j <= n)%nat /\ Permutation P (zrange n) /\ io_step P j = p.
Proof.
  intro HP. pose proof (Permutation_length HP) as HL. unfold zrange in HL. rewrite map_length, seq_length in HL.
  assert (In (Z.of_nat n) p) as Hin.
  { apply (Permutation_in _ (Permutation_sym HP)). apply in_zrange. lia. }
  apply in_split in Hin. destruct Hin as [A [B ->]].
  rewrite zrange_S in HP.
  assert (Permutation (A ++ B) (zrange n)) as HAB.
  { apply (Permutation_cons_inv (a := Z.of_nat n)).
    etransitivity; [apply Permutation_middle|]. etransitivity; [exact HP|].
    symmetry. apply Permutation_cons_append. }
  rewrite app_length in HL. cbn [length] in HL. clear HP.
  induction B as [|x B' _] using rev_ind.
  - exists A, n. rewrite app_nil_r in HAB. cbn in HL. split; [lia|]. split; [lia|]. split; [exact HAB|].
    unfold io_step. replace (Nat.eqb n (length A)) with true by (symmetry; apply Nat.eqb_eq; lia).
    replace (length A) with n by lia. reflexivity.
  - rewrite app_length in HL. cbn in HL. exists (A ++ x :: B'), (length A).
    split; [rewrite app_length; cbn; lia|]. split; [lia|]. split.
    + etransitivity; [|exact HAB]. apply Permutation_app_head. apply Permutation_cons_append.
    + unfold io_step. rewrite app_length. cbn [length].
      replace (Nat.eqb (length A) (length A + S (length B'))) with false by (symmetry; apply Nat.eqb_neq; lia).
      rewrite firstn_app_exact by reflexivity. rewrite nth_middle.
      replace (A ++ x :: B') with ((A ++ [x]) ++ B') by (rewrite <- app_assoc; reflexivity).
      rewrite skipn_app_exact by (rewrite app_length; cbn; lia).
      replace (Z.of_nat (length A + S (length B'))) with (Z.of_nat n) by lia. reflexivity.
Qed.

Lemma io_perm_surj n : forall p,
  Permutation p (zrange n) -> exists js, length js = n /\ io_valid 0 js /\ io_perm js = p.
Proof.
  induction n as [|n IH]; intros p HP.
  - apply Permutation_sym, Permutation_nil in HP. subst p. exists []. repeat split.
  - apply io_step_surj in HP. destruct HP as [P [j [HL [Hj [HP <-]]]]].
    destruct (IH P HP) as [js [Hl [Hv E]]]. exists (js ++ [j]). split; [rewrite app_length; cbn; lia|]. split.
    + apply io_valid_snoc; [exact Hv|lia].
    + unfold io_perm in *. rewrite io_perm_from_snoc, E. reflexivity.
Qed.

(* choice vectors (j_i <= i) <-> permutations of 0..n-1 : a bijection *)
Lemma choices_to_permutation_bijective n :
  (forall js, length js = n -> io_valid 0 js -> Permutation (io_perm js) (zrange n)) /\
  (forall js js', length js = n -> length js' = n -> io_valid 0 js -> io_valid 0 js' ->
                  io_perm js = io_perm js' -> js = js') /\
  (forall p, Permutation p (zrange n) -> exists js, length js = n /\ io_valid 0 js /\ io_perm js = p).
Proof.
  split; [|split].
  - intros js Hl Hv. rewrite <- Hl. apply io_perm_is_perm. exact Hv.
  - intros js js' Hl Hl' Hv Hv' E. apply io_perm_inj; [congruence|assumption|assumption|exact E].
  - apply io_perm_surj.
Qed.

(* every ordered sample (duplicate-free list q of elements of L) comes from a valid choice vector *)
Lemma fy_choices_surj {A} (q : list A) : forall n (L : list A),
  NoDup q -> incl q L -> NoDup L -> length L = n ->
  exists js R, length js = length q /\ fy_valid n 0 js /\
               apply_swaps_o (swaps_of 0 js) L = Some R /\ firstn (length q) R = q.
Proof.
  induction q as [|y q' IH]; intros n L Hq Hincl HL Hn.
  - exists [], L. repeat split.
  - assert (In y L) as Hy by (apply Hincl; left; reflexivity).
    apply In_nth_error in Hy. destruct Hy as [j Hj].
    assert (j < length L)%nat as Hjl by (apply nth_error_Some; congruence).
    destruct L as [|x L0]; [cbn in Hjl; lia|].
    destruct (swapo_some (x :: L0) 0 j) as [L1 E]; [cbn; lia|exact Hjl|].
    destruct (swapo_0 _ _ _ _ E) as [y2 [t [-> [Hy2 HP]]]].
    assert (y2 = y) as -> by congruence.
    inversion Hq as [|? ? Hnin Hq']; subst.
    assert (NoDup (y :: t)) as HNt by (eapply Permutation_NoDup; eassumption).
    inversion HNt as [|? ? _ HNt']; subst.
    destruct (IH (length t) t) as [js' [R' [Hl [Hv [Ha Hf]]]]]; [exact Hq'| |exact HNt'|reflexivity|].
    { intros z Hz. assert (In z (y :: t)) as Hz2.
      { apply (Permutation_in _ HP). apply Hincl. right. exact Hz. }
      destruct Hz2 as [->|Hz2]; [contradiction|exact Hz2]. }
    pose proof (Permutation_length HP) as HPl. cbn [length] in HPl.
    exists (j :: js'), (y :: R'). split; [cbn; lia|]. split; [|split].
    + cbn [length] in *. cbn [fy_valid]. split; [lia|].
      rewrite HPl. apply fy_valid_shift. exact Hv.
    + cbn [swaps_of apply_swaps_o Nat.add]. rewrite E. rewrite apply_swaps_shift, Ha. reflexivity.
    + cbn [length firstn]. rewrite Hf. reflexivity.
Qed.

(* choice vectors (j_i < n - i, i < m) <-> ordered m-samples of a duplicate-free list L of length n *)
Lemma choices_to_sample_bijective {A} (n m : nat) (L : list A) :
  NoDup L -> length L = n ->
  (forall js, length js = m -> fy_valid n 0 js ->
     exists R, apply_swaps (zpairs (swaps_of 0 js)) L = Some R /\ Permutation L R) /\
  (forall js js' R R', length js = m -> length js' = m -> fy_valid n 0 js -> fy_valid n 0 js' ->
     apply_swaps (zpairs (swaps_of 0 js)) L = Some R -> apply_swaps (zpairs (swaps_of 0 js')) L = Some R' ->
     firstn m R = firstn m R' -> js = js') /\
  (forall q, length q = m -> NoDup q -> incl q L ->
     exists js R, length js = m /\ fy_valid n 0 js /\
                  apply_swaps (zpairs (swaps_of 0 js)) L = Some R /\ firstn m R = q).
Proof.
  intros HND HL. split; [|split].
  - intros js Hl Hv. rewrite apply_swaps_zpairs. apply (apply_valid_perm n); assumption.
  - intros js js' R R' Hl Hl' Hv Hv' HR HR' HF. rewrite <- Hl in HF.
    eapply samples_choices_injective; try eassumption. congruence.
  - intros q Hl Hq Hincl. destruct (fy_choices_surj q n L Hq Hincl HND HL) as [js [R [H1 [H2 [H3 H4]]]]].
    exists js, R. rewrite apply_swaps_zpairs. rewrite <- Hl. repeat split; assumption.
Qed.
