(* C07: the verdict of an honest non-dealer is a function of the common broadcast log, hence
   honest participants agree; Joint-Feldman key agreement. *)
From Coq Require Import ZArith List Bool Arith Lia.
From V Require Import Model.DkgVss Model.DkgQual Model.DkgJoint Model.DkgNet Spec.DkgApiSpec Spec.DkgQualFacts
  Proofs.DkgTactics Proofs.DkgC10Proofs Proofs.DkgQualRefine.
Import ListNotations.
Open Scope Z_scope.

Local Opaque peval fixpoly r.
Arguments nph : simpl never.

(* ---------------------------------------------------------------------- *)
(* the dealer facts read only the dealer's phase-tagged broadcast sequence *)
(* ---------------------------------------------------------------------- *)
Section Log.
Variable n t : nat.
Variable d : nat.

Definition dlog := list (nat * msg).

Fixpoint vecD (D : dlog) : option vbody :=
  match D with
  | [] => None
  | (k, MVec vb) :: D' => if Nat.eqb k 0 then Some vb else vecD D'
  | _ :: D' => vecD D'
  end.

Definition answer_forD (c : nat) (m : msg) : option Z :=
  match m with
  | MAnswer (AVal b z) => if negb (Z.of_nat n <=? b) && Nat.eqb (Z.to_nat b) c then Some z else None
  | _ => None
  end.

Fixpoint ansD (D : dlog) (c : nat) : option Z :=
  match D with
  | [] => None
  | (k, m) :: D' => match answer_forD c m with Some z => Some z | None => ansD D' c end
  end.

Fixpoint ansEarlyD (D : dlog) (c : nat) : bool :=
  match D with
  | [] => false
  | (k, m) :: D' => (match answer_forD c m with Some _ => Nat.ltb k 2 | None => false end) || ansEarlyD D' c
  end.

Definition fatal_msgD (k : nat) (m : msg) : bool :=
  match m with
  | MEmpty | MShare _ | MOther _ => true
  | MComplaint CBadLen => Nat.ltb k 2
  | MComplaint (CIdx b) => Nat.ltb k 2 && (Z.of_nat n <=? b)
  | MAnswer ABadLen => true
  | MAnswer (AVal b _) => Z.of_nat n <=? b
  | MVec _ => false
  end.

Fixpoint fatalD (D : dlog) : bool :=
  match D with
  | [] => false
  | (k, m) :: D' => fatal_msgD k m || fatalD D'
  end.

(* the verdict as a function of the dealer's broadcasts D, the set of complainers cs (own
   complaint included), ForceDisqualify and the number of elapsed timeouts *)
Definition PsiEnd (D : dlog) (cs : nat -> bool) (fo : bool) (np : nat) : bool :=
  let vok := match vecD D with Some (VOk l) => Some (fixpoly t l) | _ => None end in
  fo || fatalD D ||
  existsb (fun c => match ansD D c with Some z => negb (readable z) | None => false end) (seq 0 n) ||
  match vecD D with Some VBadLen | Some (VBad _) => true | _ => false end ||
  (Nat.leb 1 np && match vecD D with None => true | Some _ => false end) ||
  (Nat.leb 2 np && Nat.ltb t (length (filter (fun c => cs c || ansEarlyD D c) (seq 0 n)))) ||
  match vok with
  | None => false
  | Some a => existsb (fun c => cs c && match ansD D c with
                                         | Some z => readable z && negb (z =? peval a (Z.of_nat c + 1))
                                         | None => false end) (seq 0 n)
  end ||
  existsb (fun c => cs c && match ansD D c with None => true | Some _ => false end) (seq 0 n).

End Log.

Section Agree.
Variable cf : cfg.
Variable d : nat.
Let n := c_n cf.
Let t := c_t cf.

Lemma vecF_bview A : vecF d A = vecD (bview d A).
Proof.
  induction A as [|[k x] A IH]; cbn; [reflexivity|].
  destruct x as [o m| | |]; try exact IH. destruct (Nat.eqb o d) eqn:Eo.
  - cbn. destruct m; cbn; rewrite ?Eo; cbn; try exact IH. destruct (Nat.eqb k 0); [reflexivity|exact IH].
  - destruct m; cbn; rewrite ?Eo; cbn; exact IH.
Qed.

Lemma answer_for_D c o m : answer_for cf d c o m = if Nat.eqb o d then answer_forD n c m else None.
Proof.
  unfold answer_for, answer_forD. destruct m as [|sb|vb|cb|ab|tg]; try (destruct (Nat.eqb o d); reflexivity).
  destruct ab as [|b z]; [destruct (Nat.eqb o d); reflexivity|].
  destruct (Nat.eqb o d); reflexivity.
Qed.

Lemma ansF_bview A c : ansF cf d A c = ansD n (bview d A) c.
Proof.
  induction A as [|[k x] A IH]; cbn; [reflexivity|].
  destruct x as [o m| | |]; try exact IH. rewrite answer_for_D.
  destruct (Nat.eqb o d); cbn; [|exact IH]. destruct (answer_forD n c m); [reflexivity|exact IH].
Qed.

Lemma ansEarly_bview A c : ansEarly cf d A c = ansEarlyD n (bview d A) c.
Proof.
  induction A as [|[k x] A IH]; cbn; [reflexivity|].
  destruct x as [o m| | |]; try exact IH. rewrite answer_for_D.
  destruct (Nat.eqb o d); cbn; [|exact IH]. rewrite IH. reflexivity.
Qed.

Lemma fatal_bview A : fatal cf d A = fatalD n (bview d A).
Proof.
  induction A as [|[k x] A IH]; cbn; [reflexivity|].
  destruct x as [o m| | |]; try exact IH.
  destruct (Nat.eqb o d); cbn; [|exact IH]. rewrite IH. reflexivity.
Qed.

(* C07 verdict_is_function_of_broadcast_log *)
Theorem PhiEnd_is_Psi A :
  PhiEnd cf d A = PsiEnd n t (bview d A) (complained cf d A) (forced d A) (nph A).
Proof.
  unfold PhiEnd, Phi, PsiEnd.
  assert (E1 : badFirst cf d A =
    existsb (fun c => match ansD n (bview d A) c with Some z => negb (readable z) | None => false end) (seq 0 n)).
  { unfold badFirst. apply existsb_ext'. intro c. rewrite ansF_bview. reflexivity. }
  assert (E2 : badVec d A = match vecD (bview d A) with Some VBadLen | Some (VBad _) => true | _ => false end).
  { unfold badVec. rewrite vecF_bview. reflexivity. }
  assert (E3 : noVec d A = Nat.leb 1 (nph A) && match vecD (bview d A) with None => true | Some _ => false end).
  { unfold noVec. rewrite vecF_bview. reflexivity. }
  assert (E4 : tooMany cf d A = Nat.leb 2 (nph A) &&
            Nat.ltb t (length (filter (fun c => complained cf d A c || ansEarlyD n (bview d A) c) (seq 0 n)))).
  { unfold tooMany, nkeys. f_equal. f_equal. f_equal. apply filter_ext'. intro c. unfold keyF. rewrite ansEarly_bview. reflexivity. }
  assert (E5 : wrongAns cf d A =
    match (match vecD (bview d A) with Some (VOk l) => Some (fixpoly t l) | _ => None end) with
    | None => false
    | Some a => existsb (fun c => complained cf d A c && match ansD n (bview d A) c with
                                         | Some z => readable z && negb (z =? peval a (Z.of_nat c + 1))
                                         | None => false end) (seq 0 n)
    end).
  { unfold wrongAns, DkgQualFacts.vecOk. rewrite vecF_bview.
    destruct (vecD (bview d A)) as [[|k|l]|]; try reflexivity.
    apply existsb_ext'. intro c. rewrite ansF_bview. reflexivity. }
  assert (E6 : unansweredF cf d A =
    existsb (fun c => complained cf d A c && match ansD n (bview d A) c with None => true | Some _ => false end) (seq 0 n)).
  { unfold unansweredF. apply existsb_ext'. intro c. rewrite ansF_bview. reflexivity. }
  rewrite E1, E2, E3, E4, E5, E6, fatal_bview. reflexivity.
Qed.

End Agree.

(* two participants (possibly with different indices) with the same dealer log, the same
   complainers, the same ForceDisqualify and the same number of timeouts: same verdict *)
Theorem PhiEnd_agree (cf cf' : cfg) d A A' :
  c_n cf' = c_n cf -> c_t cf' = c_t cf ->
  bview d A = bview d A' ->
  (forall c, complained cf d A c = complained cf' d A' c) ->
  forced d A = forced d A' -> nph A = nph A' ->
  PhiEnd cf d A = PhiEnd cf' d A'.
Proof.
  intros En Et EB EC EF EN.
  rewrite (PhiEnd_is_Psi cf d A), (PhiEnd_is_Psi cf' d A'). rewrite En, Et, EB, EF, EN.
  set (n := c_n cf). set (t := c_t cf). unfold PsiEnd.
  rewrite (filter_ext' (fun c => complained cf d A c || ansEarlyD n (bview d A') c)
                       (fun c => complained cf' d A' c || ansEarlyD n (bview d A') c)) by (intro c; rewrite EC; reflexivity).
  rewrite (existsb_ext' (fun c => complained cf d A c && match ansD n (bview d A') c with None => true | Some _ => false end)
                        (fun c => complained cf' d A' c && match ansD n (bview d A') c with None => true | Some _ => false end))
    by (intro c; rewrite EC; reflexivity).
  destruct (vecD (bview d A')) as [[|k|l]|]; try reflexivity.
  rewrite (existsb_ext' (fun c => complained cf d A c && match ansD n (bview d A') c with
             | Some z => readable z && negb (z =? peval (fixpoly t l) (Z.of_nat c + 1)) | None => false end)
                        (fun c => complained cf' d A' c && match ansD n (bview d A') c with
             | Some z => readable z && negb (z =? peval (fixpoly t l) (Z.of_nat c + 1)) | None => false end))
    by (intro c; rewrite EC; reflexivity).
  reflexivity.
Qed.

(* ---------------------------------------------------------------------- *)
(* Feldman-VSS-Qual: agreement of the honest non-dealers                   *)
(* ---------------------------------------------------------------------- *)
Section QualAgree.
Variable cf : cfg.
Variable d : nat.
Hypothesis Hp : (c_my cf < c_n cf)%nat.
Hypothesis Hd : (d < c_n cf)%nat.
Hypothesis Hpd : c_my cf <> d.
Let p := c_my cf.

(* with a clean verdict after both timeouts the share the participant holds is readable *)
Lemma PhiEnd_false_share_readable A a :
  PhiEnd cf d A = false -> nph A = 2%nat -> vecOk cf d A = Some a ->
  readable (peval a (Z.of_nat p + 1)) = true.
Proof.
  intros HP Hn Ea. unfold PhiEnd in HP. apply orb_false_iff in HP as [HP HU].
  destruct (Phi_false_inv cf d A HP) as (_ & _ & P3 & _ & _ & _ & P7).
  destruct (ownc cf d A) eqn:EO.
  - (* the participant complained: the answer is readable and correct *)
    assert (Hc : complained cf d A p = true) by (unfold complained; unfold p; rewrite Nat.eqb_refl; exact EO).
    assert (Hin : In p (seq 0 (c_n cf))) by (apply in_seq; unfold p; lia).
    pose proof (existsb_false_in _ _ p HU Hin) as H1. cbn beta in H1. rewrite Hc in H1.
    destruct (ansF cf d A p) as [z|] eqn:Ez; [|discriminate H1].
    pose proof (badFirst_readable cf d Hp Hd Hpd A p z P3 Ez) as Hr.
    unfold wrongAns in P7. rewrite Ea in P7.
    pose proof (existsb_false_in _ _ p P7 Hin) as H2. cbn beta in H2. rewrite Hc, Ez, Hr in H2. cbn in H2.
    apply negb_false_iff in H2. apply Z.eqb_eq in H2. rewrite <- H2. exact Hr.
  - unfold ownc in EO. rewrite Ea, Hn in EO.
    destruct (shF d A) as [m|]; [|discriminate EO].
    destruct m as [|sb|vb|cb|ab|tg]; try discriminate EO. destruct sb as [|z]; try discriminate EO.
    destruct (readable z) eqn:Hr; [|discriminate EO].
    apply negb_false_iff in EO. apply Z.eqb_eq in EO. fold p in EO. rewrite <- EO. exact Hr.
Qed.

(* End of an honest non-dealer after both timeouts: dkg-failure iff PhiEnd or the group key is
   the identity; otherwise the keys of the dealer's vector *)
Theorem qual_end_result L :
  ph L = 2%nat ->
  let A := annot L in
  let '(_, _, res, _) := q_end cf d true (irun cf d q_init L) in
  (PhiEnd cf d A = true -> res = RFailure) /\
  (PhiEnd cf d A = false ->
     exists a0 al, vecOk cf d A = Some (a0 :: al) /\
       res = if a0 =? 0 then RFailure
             else RKeys (peval (a0 :: al) (Z.of_nat p + 1)) a0 (pubkeys cf (a0 :: al))).
Proof.
  intros Hph A. pose proof (qual_end_verdict cf d Hp Hd Hpd L Hph) as HV. fold A in HV.
  destruct (q_end cf d true (irun cf d q_init L)) as [[[run' q'] res] ev].
  destruct HV as (_ & H1 & H2). split; [intro HP; apply H1; exact HP|].
  intro HP. destruct (H2 HP) as (a & Ea & _ & Er).
  assert (Hn : nph A = 2%nat) by (unfold A; rewrite nph_annot; exact Hph).
  pose proof (PhiEnd_false_share_readable A a HP Hn Ea) as Hr.
  assert (Hla : exists a0 al, a = a0 :: al).
  { unfold vecOk in Ea. destruct (vecF d A) as [[|k|l]|]; try discriminate Ea. inversion Ea.
    destruct (fixpoly_cons (c_t cf) l) as (a0 & al & E). eauto. }
  destruct Hla as (a0 & al & ->). exists a0, al. split; [exact Ea|].
  rewrite Er. unfold end_keys. rewrite (pubkeys_length cf (a0 :: al)), Nat.ltb_irrefl.
  unfold readable in Hr. apply andb_prop in Hr as [Hr _]. apply Z.ltb_lt in Hr.
  fold p. destruct (peval (a0 :: al) (Z.of_nat p + 1) =? 0) eqn:E0; [apply Z.eqb_eq in E0; lia|]. reflexivity.
Qed.

End QualAgree.

Section NetAgree.
Variable n t d : nat.
Variable honest : list nat.
Variable inputs : nat -> list item.
Hypothesis Hd : (d < n)%nat.
Hypothesis Hadm : admissible n t d honest inputs.

Let cfi := cfg_of n t.
Let Ai (i : nat) := annot (inputs i).

(* C07 agreement_disqualified: the verdict on the dealer is the same at all honest participants *)
Theorem agreement_disqualified i j : In i honest -> In j honest ->
  PhiEnd (cfi i) d (Ai i) = PhiEnd (cfi j) d (Ai j).
Proof.
  intros Hi Hj. destruct Hadm as (H0 & H1 & H2 & H3 & H4).
  destruct (Nat.eq_dec i j) as [->|Hij]; [reflexivity|].
  apply PhiEnd_agree; try reflexivity.
  - apply H1; assumption.
  - intro c. unfold complained. cbn [cfi cfg_of c_my].
    destruct (Nat.eqb_spec c i) as [->|Hci]; destruct (Nat.eqb_spec i j) as [E|_]; try contradiction.
    + (* the own complaint of i, as received by j *)
      symmetry. apply (H3 i j Hi Hj Hij).
    + destruct (Nat.eqb_spec c j) as [->|Hcj].
      * apply (H3 j i Hj Hi). intro E; apply Hij; symmetry; exact E.
      * apply (H2 i j c Hi Hj Hci Hcj).
  - apply H4; assumption.
  - unfold Ai. rewrite !nph_annot. destruct (H0 i Hi) as (_ & _ & E1). destruct (H0 j Hj) as (_ & _ & E2). congruence.
Qed.

(* C07 agreement_outcome (single dealer): all honest participants fail, or all return the same
   group key and public shares, each with a private share matching its public share *)
Theorem agreement_outcome_qual i j : In i honest -> In j honest ->
  let ri := let '(_, _, res, _) := q_end (cfi i) d true (irun (cfi i) d q_init (inputs i)) in res in
  let rj := let '(_, _, res, _) := q_end (cfi j) d true (irun (cfi j) d q_init (inputs j)) in res in
  (ri = RFailure /\ rj = RFailure) \/
  (exists xi xj Y ys, ri = RKeys xi Y ys /\ rj = RKeys xj Y ys /\
                      nth_error ys i = Some xi /\ nth_error ys j = Some xj /\ length ys = n).
Proof.
  intros Hi Hj. pose proof (agreement_disqualified i j Hi Hj) as HA.
  destruct Hadm as (H0 & H1 & _). destruct (H0 i Hi) as (Hid & Hin & Hpi). destruct (H0 j Hj) as (Hjd & Hjn & Hpj).
  pose proof (qual_end_result (cfi i) d Hin Hd Hid (inputs i) Hpi) as Ri.
  pose proof (qual_end_result (cfi j) d Hjn Hd Hjd (inputs j) Hpj) as Rj.
  cbn zeta in Ri, Rj |- *. fold (Ai i) in Ri. fold (Ai j) in Rj.
  destruct (q_end (cfi i) d true (irun (cfi i) d q_init (inputs i))) as [[[ui1 ui2] ri] ui3].
  destruct (q_end (cfi j) d true (irun (cfi j) d q_init (inputs j))) as [[[uj1 uj2] rj] uj3].
  destruct Ri as [Ri1 Ri2]. destruct Rj as [Rj1 Rj2].
  destruct (PhiEnd (cfi i) d (Ai i)) eqn:Ei.
  - left. split; [apply Ri1; reflexivity|apply Rj1; rewrite <- HA; reflexivity].
  - destruct (Ri2 eq_refl) as (a0 & al & Eai & Eri).
    destruct (Rj2 (eq_sym HA)) as (b0 & bl & Eaj & Erj).
    (* the same vector *)
    assert (Eab : a0 :: al = b0 :: bl).
    { unfold vecOk in Eai, Eaj. rewrite vecF_bview in Eai, Eaj. unfold Ai in *. rewrite (H1 i j Hi Hj) in Eai.
      cbn [cfi cfg_of c_t] in *. rewrite Eai in Eaj. inversion Eaj. reflexivity. }
    inversion Eab; subst b0 bl. cbn [cfi cfg_of c_my] in *.
    destruct (a0 =? 0); [left; auto|right].
    exists (peval (a0 :: al) (Z.of_nat i + 1)), (peval (a0 :: al) (Z.of_nat j + 1)), a0, (pubkeys (cfi i) (a0 :: al)).
    split; [exact Eri|]. split; [exact Erj|].
    split; [apply (pubkeys_nth_error (cfi i)); exact Hin|].
    split; [apply (pubkeys_nth_error (cfi i)); exact Hjn|apply pubkeys_length].
Qed.

End NetAgree.

(* ---------------------------------------------------------------------- *)
(* Joint-Feldman: the keys are those of the sum of the qualified dealers'   *)
(* polynomials                                                             *)
(* ---------------------------------------------------------------------- *)
Local Transparent peval r.

Lemma r_pos : 0 < r.
Proof. reflexivity. Qed.

Lemma peval_cons c a x : peval (c :: a) x = (c + x * peval a x) mod r.
Proof. reflexivity. Qed.
Lemma peval_nil x : peval [] x = 0.
Proof. reflexivity. Qed.

Local Opaque r.

Lemma peval_range a x : 0 <= peval a x < r.
Proof.
  destruct a; [rewrite peval_nil; pose proof r_pos; lia|rewrite peval_cons; apply Z.mod_pos_bound; exact r_pos].
Qed.

Lemma peval_mod a x : peval a x mod r = peval a x.
Proof. apply Z.mod_small. apply peval_range. Qed.

(* coefficient-wise sum *)
Fixpoint padd (a b : list Z) : list Z :=
  match a, b with
  | x :: a', y :: b' => (x + y) mod r :: padd a' b'
  | _, _ => []
  end.

Lemma padd_length a b : length a = length b -> length (padd a b) = length a.
Proof. revert b; induction a as [|x a IH]; intros [|y b] H; cbn in *; try lia. f_equal. apply IH. lia. Qed.

Lemma peval_padd a b x : length a = length b ->
  peval (padd a b) x = (peval a x + peval b x) mod r.
Proof.
  revert b; induction a as [|c a IH]; intros [|e b] H; cbn [padd length] in *; try lia.
  - rewrite !peval_nil. reflexivity.
  - rewrite !peval_cons. rewrite IH by lia.
    pose proof r_pos as Hr.
    assert (L : forall u v, (u mod r + v) mod r = (u + v) mod r) by (intros; apply Z.add_mod_idemp_l; lia).
    assert (R : forall u v, (u + v mod r) mod r = (u + v) mod r) by (intros; apply Z.add_mod_idemp_r; lia).
    assert (M : forall u v, (u * (v mod r)) mod r = (u * v) mod r) by (intros; apply Z.mul_mod_idemp_r; lia).
    rewrite L. rewrite <- (R _ (x * _)). rewrite M. rewrite R.
    rewrite (L (c + x * peval a x)). rewrite R.
    f_equal. ring.
Qed.

Local Opaque peval.

Definition pzero (t : nat) : list Z := repeat 0 (S t).

Definition psum (t : nat) (ps : list (list Z)) : list Z := fold_left padd ps (pzero t).

Lemma pzero_eval t x : peval (pzero t) x = 0.
Proof.
  unfold pzero. induction (S t) as [|k IH]; cbn [repeat]; [apply peval_nil|].
  rewrite peval_cons, IH. rewrite Z.mul_0_r. reflexivity.
Qed.

Lemma fold_padd_length t ps acc : length acc = S t -> Forall (fun a => length a = S t) ps ->
  length (fold_left padd ps acc) = S t.
Proof.
  revert acc; induction ps as [|a ps IH]; intros acc Ha Hps; cbn; [exact Ha|].
  inversion Hps; subst. apply IH; auto. rewrite padd_length; congruence.
Qed.

Lemma psum_length t ps : Forall (fun a => length a = S t) ps -> length (psum t ps) = S t.
Proof. intro H. apply fold_padd_length; auto. apply repeat_length. Qed.

Lemma fold_padd_eval t ps x : forall acc, length acc = S t -> Forall (fun a => length a = S t) ps ->
  peval (fold_left padd ps acc) x = fold_left (fun s z => (s + z) mod r) (map (fun a => peval a x) ps) (peval acc x).
Proof.
  induction ps as [|a ps IH]; intros acc Ha Hps; cbn; [reflexivity|].
  inversion Hps; subst. rewrite IH; auto; [|rewrite padd_length; congruence].
  rewrite peval_padd by congruence. reflexivity.
Qed.

(* the sum the code computes (Fr_sum_vector, E2_sum_vector_to_affine on discrete logs) is the
   evaluation of the summed polynomial *)
Lemma sum_mod_psum t ps x : Forall (fun a => length a = S t) ps ->
  sum_mod (map (fun a => peval a x) ps) = peval (psum t ps) x.
Proof.
  intro H. unfold sum_mod, psum. rewrite (fold_padd_eval t ps x (pzero t)); auto; [|apply repeat_length].
  rewrite pzero_eval. reflexivity.
Qed.

Section JointKeys.
Variable cf : cfg.
Let n := c_n cf.
Let t := c_t cf.
Let p := c_my cf.
Hypothesis Hp : (p < n)%nat.

(* a qualified instance as left by End: not disqualified, the dealer's vector a, the public
   shares derived from it, and a private share that matches *)
Definition inst_good (a : list Z) (q : qinst) : Prop :=
  q_disq q = false /\ length a = S t /\ (exists a0 al, a = a0 :: al) /\
  v_vA (q_v q) = VAFull a /\ v_y (q_v q) = Some (pubkeys cf a) /\
  v_x (q_v q) = peval a (Z.of_nat p + 1).

Definition inst_rel (q : qinst) (oa : option (list Z)) : Prop :=
  match oa with Some a => inst_good a q | None => q_disq q = true end.

Fixpoint somes {X} (l : list (option X)) : list X :=
  match l with [] => [] | Some x :: l' => x :: somes l' | None :: l' => somes l' end.

Lemma qualified_rel qs oas : Forall2 inst_rel qs oas ->
  Forall2 (fun q a => inst_good a q) (qualified qs) (somes oas).
Proof.
  induction 1 as [|q oa qs oas Hr HF IH]; cbn; [constructor|].
  destruct oa as [a|]; cbn in Hr.
  - destruct Hr as (Hd & Hrest). rewrite Hd. cbn. constructor; [repeat split; auto; apply Hrest|exact IH].
  - rewrite Hr. cbn. exact IH.
Qed.

Lemma opt_all_map_some {X Y} (f : X -> option Y) (g : X -> Y) l :
  (forall x, In x l -> f x = Some (g x)) -> opt_all (map f l) = Some (map g l).
Proof.
  induction l as [|x l IH]; intro H; cbn; [reflexivity|].
  rewrite (H x (or_introl eq_refl)), IH; [reflexivity|]. intros; apply H; right; assumption.
Qed.

Lemma Forall2_map_eq {X Y Z} (R : X -> Y -> Prop) (f : X -> Z) (g : Y -> Z) l l' :
  Forall2 R l l' -> (forall x y, R x y -> f x = g y) -> map f l = map g l'.
Proof. induction 1; intro H'; cbn; [reflexivity|]. rewrite (H' _ _ H), IHForall2; auto. Qed.

Lemma sum_mod_mod_aux l : forall acc, fold_left (fun s z => (s + z) mod r) (map (fun z => z mod r) l) acc
                                     = fold_left (fun s z => (s + z) mod r) l acc.
Proof.
  induction l as [|z l IH]; intro acc; cbn; [reflexivity|]. rewrite IH.
  rewrite Z.add_mod_idemp_r by (pose proof r_pos; lia). reflexivity.
Qed.

Lemma peval_at_0 a0 al : peval (a0 :: al) 0 = a0 mod r.
Proof. rewrite peval_cons. rewrite Z.mul_0_l, Z.add_0_r. reflexivity. Qed.

(* C07 agreement_keys, algebraic core: the result of sumUpQualifiedKeys *)
Theorem sum_up_is_sum_poly qs oas :
  Forall2 inst_rel qs oas -> somes oas <> [] ->
  let S := psum t (somes oas) in
  sum_up cf qs = Some (peval S (Z.of_nat p + 1), peval S 0, pubkeys cf S) /\
  length S = Datatypes.S t.
Proof.
  intros HR Hne S. pose proof (qualified_rel qs oas HR) as HQ.
  set (ql := qualified qs) in *. set (ps := somes oas) in *.
  assert (Hlen : Forall (fun a => length a = Datatypes.S t) ps).
  { clear -HQ. induction HQ; constructor; auto. destruct H as (_ & Hl & _). exact Hl. }
  split; [|apply psum_length; exact Hlen].
  assert (Hql : ql <> []) by (intro E; rewrite E in HQ; inversion HQ; subst; congruence).
  assert (Hm : forall (X : option (Z * Z * list Z)), (match ql with [] => None | _ :: _ => X end) = X)
    by (intro X; destruct ql; [congruence|reflexivity]).
  unfold sum_up. fold ql. rewrite Hm. clear Hm.
  (* the group key *)
  assert (E1 : opt_all (map vA0 ql) = Some (map (fun a => hd 0 a) ps)).
  { clear -HQ. induction HQ as [|q a ql ps Hg HF IH]; cbn; [reflexivity|].
    destruct Hg as (_ & _ & (a0 & al & ->) & EvA & _). unfold vA0 at 1. rewrite EvA, IH. reflexivity. }
  (* the public shares *)
  assert (E2 : opt_all (map (fun j => opt_all (map (yj j) ql)) (seq 0 (c_n cf)))
               = Some (map (fun j => map (fun a => peval a (Z.of_nat j + 1)) ps) (seq 0 (c_n cf)))).
  { apply opt_all_map_some. intros j Hj. apply in_seq in Hj.
    clear -HQ Hj. induction HQ as [|q a ql ps Hg HF IH]; cbn; [reflexivity|].
    destruct Hg as (_ & _ & _ & _ & Ey & _). unfold yj at 1. rewrite Ey.
    rewrite (pubkeys_nth_error cf a j) by lia. rewrite IH. reflexivity. }
  assert (E3 : map (fun q => v_x (q_v q)) ql = map (fun a => peval a (Z.of_nat p + 1)) ps).
  { apply (Forall2_map_eq _ _ _ _ _ HQ). intros q a (_ & _ & _ & _ & _ & Ex). exact Ex. }
  rewrite E1, E2, E3.
  rewrite (sum_mod_psum t ps _ Hlen). f_equal. f_equal; [f_equal|].
  - (* group key *)
    unfold S. rewrite <- (sum_mod_psum t ps 0 Hlen).
    unfold sum_mod. rewrite <- sum_mod_mod_aux. rewrite map_map. f_equal.
    clear -HQ. induction HQ as [|q a ql ps Hg HF IH]; cbn; [reflexivity|].
    destruct Hg as (_ & _ & (a0 & al & ->) & _). rewrite peval_at_0, IH. reflexivity.
  - unfold pubkeys, S. rewrite map_map. apply map_ext. intro j. apply (sum_mod_psum t ps _ Hlen).
Qed.

End JointKeys.

(* C07 agreement_keys: two participants with the same verdicts and the same dealer vectors
   obtain the same group key and the same public shares; each private share is the public
   share of its owner; all of them are values of ONE polynomial with t+1 coefficients, the
   sum of the qualified dealers' polynomials *)
Theorem agreement_keys (cf cf' : cfg) qs qs' oas :
  c_n cf' = c_n cf -> c_t cf' = c_t cf -> (c_my cf < c_n cf)%nat -> (c_my cf' < c_n cf')%nat ->
  Forall2 (inst_rel cf) qs oas -> Forall2 (inst_rel cf') qs' oas -> somes oas <> [] ->
  let S := psum (c_t cf) (somes oas) in
  exists x x' ys,
    length S = Datatypes.S (c_t cf) /\
    sum_up cf qs = Some (x, peval S 0, ys) /\ sum_up cf' qs' = Some (x', peval S 0, ys) /\
    ys = pubkeys cf S /\
    nth_error ys (c_my cf) = Some x /\ nth_error ys (c_my cf') = Some x'.
Proof.
  intros En Et Hp Hp' HR HR' Hne S. unfold S.
  destruct (sum_up_is_sum_poly cf Hp qs oas HR Hne) as [E1 L1].
  destruct (sum_up_is_sum_poly cf' Hp' qs' oas HR' Hne) as [E2 L2]. cbn zeta in *.
  rewrite Et in E2.
  assert (Epk : pubkeys cf' (psum (c_t cf) (somes oas)) = pubkeys cf (psum (c_t cf) (somes oas))).
  { unfold pubkeys. rewrite En. reflexivity. }
  rewrite Epk in E2.
  exists (peval (psum (c_t cf) (somes oas)) (Z.of_nat (c_my cf) + 1)),
         (peval (psum (c_t cf) (somes oas)) (Z.of_nat (c_my cf') + 1)), (pubkeys cf (psum (c_t cf) (somes oas))).
  split; [exact L1|]. split; [exact E1|]. split; [exact E2|]. split; [reflexivity|]. split.
  - apply pubkeys_nth_error. exact Hp.
  - apply pubkeys_nth_error. rewrite <- En. exact Hp'.
Qed.

(* ---------------------------------------------------------------------- *)
(* Joint-Feldman End: same verdicts => same outcome                         *)
(* ---------------------------------------------------------------------- *)
Definition is_none {X} (o : option X) : bool := match o with None => true | Some _ => false end.

Lemma disq_count cf qs oas : Forall2 (inst_rel cf) qs oas ->
  length (filter q_disq qs) = length (filter is_none oas).
Proof.
  induction 1 as [|q oa qs oas Hr HF IH]; cbn; [reflexivity|].
  destruct oa as [a|]; cbn in Hr.
  - destruct Hr as (Hd & _). rewrite Hd. exact IH.
  - rewrite Hr. cbn. f_equal. exact IH.
Qed.

Lemma somes_count {X} (oas : list (option X)) :
  (length (somes oas) + length (filter is_none oas) = length oas)%nat.
Proof. induction oas as [|[x|] oas IH]; cbn; lia. Qed.

(* what End returns once its first loop is done *)
Definition joint_outcome (cf : cfg) (qs : list qinst) : result :=
  let dq := length (filter q_disq qs) in
  if (c_t cf <? dq)%nat || (c_n cf - dq <=? c_t cf)%nat then RFailure
  else match sum_up cf qs with
       | None => RPanic
       | Some (x, Y, ys) => if x =? 0 then RFailure else if Y =? 0 then RFailure else RKeys x Y ys
       end.

Lemma joint_end_outcome cf s qs ev :
  j_jrun s = true -> jend_loop cf 0 (j_insts s) = (qs, ev, Some (length (filter q_disq qs))) ->
  snd (fst (joint_end cf s)) = joint_outcome cf qs.
Proof.
  intros Hj HL. unfold joint_end, joint_outcome. rewrite Hj. cbn [negb]. rewrite HL.
  destruct ((c_t cf <? length (filter q_disq qs))%nat || (c_n cf - length (filter q_disq qs) <=? c_t cf)%nat); [reflexivity|].
  destruct (sum_up cf qs) as [[[x Y] ys]|]; [|reflexivity].
  destruct (x =? 0); [reflexivity|]. destruct (Y =? 0); reflexivity.
Qed.

(* C07 agreement_outcome (Joint-Feldman): two honest participants whose instances carry the same
   verdicts and the same dealer vectors either both fail or both return the same group key
   and public shares - unless the summed share of exactly one of them is zero, in which case
   that participant alone returns a dkg-failure (hypotheses Hx, Hx') *)
Theorem agreement_outcome_joint (cf cf' : cfg) qs qs' oas :
  c_n cf' = c_n cf -> c_t cf' = c_t cf -> (c_my cf < c_n cf)%nat -> (c_my cf' < c_n cf')%nat ->
  length oas = c_n cf ->
  Forall2 (inst_rel cf) qs oas -> Forall2 (inst_rel cf') qs' oas ->
  let S := psum (c_t cf) (somes oas) in
  peval S (Z.of_nat (c_my cf) + 1) <> 0 -> peval S (Z.of_nat (c_my cf') + 1) <> 0 ->
  (joint_outcome cf qs = RFailure /\ joint_outcome cf' qs' = RFailure) \/
  (exists x x' ys,
     joint_outcome cf qs = RKeys x (peval S 0) ys /\ joint_outcome cf' qs' = RKeys x' (peval S 0) ys /\
     ys = pubkeys cf S /\ nth_error ys (c_my cf) = Some x /\ nth_error ys (c_my cf') = Some x' /\
     length S = Datatypes.S (c_t cf)).
Proof.
  intros En Et Hp Hp' Hlen HR HR' S Hx Hx'.
  unfold joint_outcome. rewrite (disq_count cf qs oas HR), (disq_count cf' qs' oas HR'), En, Et.
  set (dq := length (filter is_none oas)).
  destruct ((c_t cf <? dq)%nat || (c_n cf - dq <=? c_t cf)%nat) eqn:Ef; [left; auto|].
  apply orb_false_iff in Ef as [_ Ef]. apply Nat.leb_gt in Ef.
  assert (Hne : somes oas <> []).
  { intro E. pose proof (somes_count oas) as Hc. rewrite E, Hlen in Hc. cbn in Hc. fold dq in Hc. lia. }
  destruct (agreement_keys cf cf' qs qs' oas En Et Hp Hp' HR HR' Hne) as (x & x' & ys & L & E1 & E2 & Eys & N1 & N2).
  fold S in L, E1, E2, Eys. rewrite E1, E2.
  assert (Ex : x = peval S (Z.of_nat (c_my cf) + 1)).
  { rewrite Eys in N1. rewrite (pubkeys_nth_error cf S (c_my cf) Hp) in N1. inversion N1. reflexivity. }
  assert (Ex' : x' = peval S (Z.of_nat (c_my cf') + 1)).
  { rewrite Eys in N2. rewrite (pubkeys_nth_error cf S (c_my cf')) in N2 by (rewrite <- En; exact Hp'). inversion N2. reflexivity. }
  destruct (x =? 0) eqn:E0; [apply Z.eqb_eq in E0; congruence|].
  destruct (x' =? 0) eqn:E0'; [apply Z.eqb_eq in E0'; congruence|].
  destruct (peval S 0 =? 0); [left; auto|right].
  exists x, x', ys. repeat split; auto.
Qed.
