(* Proofs for C13, sponge part: the buffer machine of /repo/hash/keccak.go
   (Model/Hashers.v) computes the FIPS 202 sponge for every chunking, over an
   ARBITRARY permutation f. *)
From Coq Require Import ZArith NArith List Bool Arith Lia.
From V Require Import Lib.ListX Prim.Keccak Spec.HashSpec Model.Hashers Proofs.SpongeFacts.
Import ListNotations.
Local Open Scope nat_scope.

Ltac proj := cbn [sp_a sp_storage sp_bufIndex sp_bufSize sp_rate sp_ds sp_outLen
                  with_a with_storage setBuf fst snd] in *.

Definition same_cfg (d d' : sponge) : Prop :=
  sp_rate d' = sp_rate d /\ sp_ds d' = sp_ds d /\ sp_outLen d' = sp_outLen d.

Lemma same_cfg_refl d : same_cfg d d.
Proof. repeat split. Qed.
Lemma same_cfg_trans a b c : same_cfg a b -> same_cfg b c -> same_cfg a c.
Proof. intros (A1 & A2 & A3) (B1 & B2 & B3). repeat split; congruence. Qed.

(* ---------- well-formedness ---------- *)
Definition cfg_ok (d : sponge) : Prop :=
  rate_ok (sp_rate d) /\ sp_outLen d <= sp_rate d /\ length (sp_storage d) = maxRate.
(* as built by NewSHA3_256 / NewSHA3_384 / NewKeccak_256: both indexes are the -1 sentinel *)
Definition Fresh (d : sponge) : Prop :=
  sp_bufIndex d = bufNilValue /\ sp_bufSize d = bufNilValue /\ sp_a d = zero_state.
(* buf = storage[0 : bufSize], 0 <= bufSize <= rate; bufSize = rate only right after SumHash *)
Definition Live (d : sponge) : Prop :=
  sp_bufIndex d = 0%Z /\ (0 <= sp_bufSize d <= Z.of_nat (sp_rate d))%Z.
Definition WF (d : sponge) : Prop := cfg_ok d /\ (Fresh d \/ Live d).

(* helper lemmas on the padding writes of padAndPermute *)
Lemma zero_range_app (a m t : list N) zs r :
  length a = zs -> length m = r - zs -> zs < r ->
  zero_range (a ++ m ++ t) (Z.of_nat zs) r = Ok (a ++ repeat 0%N (r - zs) ++ t).
Proof.
  intros Ha Hm Hlt. unfold zero_range.
  replace (Z.of_nat zs <? Z.of_nat r)%Z with true by (symmetry; apply Z.ltb_lt; lia).
  replace (Z.of_nat zs <? 0)%Z with false by (symmetry; apply Z.ltb_ge; lia).
  rewrite Nat2Z.id. rewrite firstn_app_exact by exact Ha.
  rewrite skipn_app_exact2 by lia. reflexivity.
Qed.

Lemma zero_range_noop (st : list N) zs r : r <= zs -> zero_range st (Z.of_nat zs) r = Ok st.
Proof.
  intro H. unfold zero_range.
  replace (Z.of_nat zs <? Z.of_nat r)%Z with false by (symmetry; apply Z.ltb_ge; lia). reflexivity.
Qed.

Lemma flip_last_app (a t : list N) x r' :
  length a = r' -> flip_last (a ++ x :: t) (S r') = Ok (a ++ N.lxor x 128 :: t).
Proof.
  intro Ha. unfold flip_last.
  replace (Nat.ltb r' (length (a ++ x :: t))) with true
    by (symmetry; apply Nat.ltb_lt; rewrite app_length; cbn [length]; lia).
  rewrite firstn_app_exact by exact Ha.
  subst r'. rewrite nth_middle.
  change (a ++ x :: t) with (a ++ [x] ++ t).
  rewrite skipn_app_exact2 by (cbn [length]; lia). reflexivity.
Qed.

Section Sponge.
  Variable f : list N -> list N.

  (* The object has absorbed [msg] on top of the permutation state s0: the whole blocks
     [pre] are in sp_a, the remainder [rest] is storage[0:bufSize].  Nothing is said about
     storage beyond bufSize. *)
  Definition Absorbing (s0 : list N) (d : sponge) (msg : list N) : Prop :=
    rate_ok (sp_rate d) /\ length (sp_storage d) = maxRate /\ sp_bufIndex d = 0%Z /\
    exists pre rest k,
      msg = pre ++ rest /\ length pre = k * sp_rate d /\ length rest < sp_rate d /\
      sp_bufSize d = Z.of_nat (length rest) /\ firstn (length rest) (sp_storage d) = rest /\
      sp_a d = absorb f (sp_rate d) s0 pre.

  Lemma absorbing_not_nil s0 d msg : Absorbing s0 d msg -> bufIsNil d = false.
  Proof.
    intros (_ & _ & _ & pre & rest & k & _ & _ & _ & Hbs & _).
    unfold bufIsNil. rewrite bufNil_val, Hbs. apply Z.eqb_neq. lia.
  Qed.

  Lemma write_iter_abs s0 d msg p :
    Absorbing s0 d msg -> p <> [] ->
    exists d' c p', write_iter f d p = Ok (d', p') /\ p = c ++ p' /\ c <> [] /\
                    Absorbing s0 d' (msg ++ c) /\ same_cfg d d'.
  Proof.
    intros (Hr & Hst & Hidx & pre & rest & k & Hmsg & Hpre & Hrest & Hbs & Hfn & Ha) Hp.
    destruct d as [a st bi bs r ds ol]. proj. subst bi.
    destruct (rate_ok_bounds r Hr) as [Hr0 Hrm]. rewrite maxRate_val in *.
    assert (Hlenp : 0 < length p) by (destruct p; [congruence|cbn [length]; lia]).
    unfold write_iter. proj.
    destruct ((bs =? 0)%Z && (Z.of_nat r <=? zlen p)%Z) eqn:Efast.
    - (* fast path: a full block straight from the input *)
      apply andb_true_iff in Efast as [E1 E2].
      apply Z.eqb_eq in E1. apply Z.leb_le in E2. unfold zlen in E2.
      assert (Hr0' : length rest = 0) by lia.
      destruct rest; [|cbn [length] in Hr0'; lia]. clear Hr0'.
      assert (Hc : length (firstn r p) = r) by (rewrite firstn_length; lia).
      unfold xorIn. rewrite xorIn_unaligned_block by (rewrite Hc; exact Hr).
      cbn [bind]. eexists _, (firstn r p), (skipn r p).
      split; [reflexivity|]. split; [symmetry; apply firstn_skipn|].
      split; [intro E; rewrite E in Hc; cbn [length] in Hc; lia|].
      split; [|repeat split].
      unfold Absorbing. proj. split; [exact Hr|]. split; [exact Hst|]. split; [reflexivity|].
      exists (pre ++ firstn r p), [], (S k).
      rewrite app_nil_r in Hmsg. subst msg. rewrite app_nil_r.
      split; [reflexivity|]. split; [rewrite app_length, Hc, Hpre; lia|].
      split; [cbn [length]; lia|]. split; [cbn [length]; lia|]. split; [reflexivity|].
      rewrite (absorb_last_block f r Hr0 s0 pre (firstn r p) k Hpre Hc). rewrite <- Ha. reflexivity.
    - (* slow path: buffer, permute when the buffer is full *)
      assert (Hnf : ~ (bs = 0%Z /\ (Z.of_nat r <= zlen p)%Z)).
      { intros [E1 E2]. rewrite E1 in Efast. cbn in Efast. apply Z.leb_gt in Efast. lia. }
      clear Efast.
      set (b := length rest) in *.
      set (t := Nat.min (r - b) (length p)).
      assert (Et : Z.min (Z.of_nat r - bs) (zlen p) = Z.of_nat t) by (unfold zlen, t; lia).
      rewrite Et.
      replace (Z.of_nat t <? 0)%Z with false by (symmetry; apply Z.ltb_ge; lia).
      rewrite Nat2Z.id.
      assert (Ht1 : 1 <= t) by (unfold t; lia).
      assert (Htb : b + t <= r) by (unfold t; lia).
      set (c := firstn t p).
      assert (Hc : length c = t) by (unfold c, t; rewrite firstn_length; lia).
      unfold appendBuf. proj.
      replace ((0 <=? 0 + bs)%Z && (0 + bs <=? zlen st)%Z) with true
        by (symmetry; apply andb_true_iff; split; apply Z.leb_le; unfold zlen; lia).
      replace (Z.to_nat (0 + bs)) with b by lia.
      pose proof (split_at_prefix st rest Hfn) as Hsplit. fold b in Hsplit.
      set (T0 := skipn b st) in *.
      assert (HT0 : length T0 = 136 - b) by (unfold T0; rewrite skipn_length; lia).
      rewrite Hsplit.
      rewrite (splice_app rest T0 c b eq_refl) by lia.
      cbn [bind]. proj.
      assert (Hst1 : length (rest ++ c ++ skipn (length c) T0) = 136).
      { rewrite !app_length, skipn_length. fold b. lia. }
      destruct (Z.eqb_spec (bs + zlen c) (Z.of_nat r)) as [Efull|Enot].
      + (* the buffer is full: xor it in and permute *)
        assert (Hbt : b + t = r) by (unfold zlen in Efull; lia).
        unfold permute, buf. proj. rewrite Efull.
        rewrite go_slice_prefix by lia.
        rewrite (firstn_app_exact2 rest c _ r) by (fold b; lia).
        cbn [bind]. unfold xorIn.
        rewrite xorIn_unaligned_block by (rewrite app_length; fold b; rewrite Hc, Hbt; exact Hr).
        cbn [bind]. proj.
        eexists _, c, (skipn t p). split; [reflexivity|].
        split; [symmetry; apply firstn_skipn|].
        split; [intro E; rewrite E in Hc; cbn [length] in Hc; lia|].
        split; [|repeat split].
        unfold Absorbing. proj. split; [exact Hr|]. split; [exact Hst1|]. split; [reflexivity|].
        exists (pre ++ rest ++ c), [], (S k). subst msg.
        split; [now rewrite app_nil_r, <- !app_assoc|].
        split; [rewrite !app_length; fold b; rewrite Hc, Hpre; lia|].
        split; [cbn [length]; lia|]. split; [reflexivity|]. split; [reflexivity|].
        assert (Hrc : length (rest ++ c) = r) by (rewrite app_length; fold b; lia).
        rewrite (absorb_last_block f r Hr0 s0 pre (rest ++ c) k Hpre Hrc). rewrite <- Ha. reflexivity.
      + (* still room in the buffer *)
        assert (Hbt : b + t < r) by (unfold zlen in Enot; lia).
        cbn [bind]. proj.
        eexists _, c, (skipn t p). split; [reflexivity|].
        split; [symmetry; apply firstn_skipn|].
        split; [intro E; rewrite E in Hc; cbn [length] in Hc; lia|].
        split; [|repeat split].
        unfold Absorbing. proj. split; [exact Hr|]. split; [exact Hst1|]. split; [reflexivity|].
        exists pre, (rest ++ c), k. subst msg.
        split; [now rewrite app_assoc|]. split; [exact Hpre|].
        split; [rewrite app_length; fold b; lia|].
        split; [rewrite app_length; fold b; unfold zlen; lia|].
        split; [|exact Ha].
        rewrite (firstn_app_exact2 rest c _ (length (rest ++ c))) by (now rewrite app_length).
        reflexivity.
  Qed.

  Lemma write_loop_abs n : forall p fuel s0 d msg,
    length p <= n -> length p < fuel -> Absorbing s0 d msg ->
    exists d', write_loop f fuel d p = Ok d' /\ Absorbing s0 d' (msg ++ p) /\ same_cfg d d'.
  Proof.
    induction n as [|n IH]; intros p fuel s0 d msg Hn Hf Habs.
    - destruct p; [|cbn [length] in Hn; lia].
      exists d. rewrite app_nil_r. split; [destruct fuel; reflexivity|]. split; [exact Habs|apply same_cfg_refl].
    - destruct p as [|x p].
      { exists d. rewrite app_nil_r. split; [destruct fuel; reflexivity|]. split; [exact Habs|apply same_cfg_refl]. }
      destruct fuel as [|fuel]; [lia|].
      destruct (write_iter_abs s0 d msg (x :: p) Habs ltac:(discriminate))
        as (d1 & c & p' & Hit & Hsp & Hc & Habs1 & Hcfg1).
      cbn [write_loop]. rewrite Hit. cbn [bind fst snd].
      assert (Hlen : length (x :: p) = length c + length p') by (rewrite Hsp, app_length; reflexivity).
      assert (0 < length c) by (destruct c; [congruence|cbn [length]; lia]).
      destruct (IH p' fuel s0 d1 (msg ++ c)) as (d2 & Hl & Habs2 & Hcfg2); [lia|lia|exact Habs1|].
      exists d2. split; [exact Hl|]. split.
      + rewrite Hsp. rewrite app_assoc. exact Habs2.
      + eapply same_cfg_trans; eassumption.
  Qed.

  Lemma write_abs s0 d msg p :
    Absorbing s0 d msg ->
    exists d', write f d p = Ok d' /\ Absorbing s0 d' (msg ++ p) /\ same_cfg d d'.
  Proof.
    intro Habs. unfold write. rewrite (absorbing_not_nil s0 d msg Habs).
    apply (write_loop_abs (length p)); [lia|lia|exact Habs].
  Qed.

  Lemma writes_abs chunks : forall s0 d msg,
    Absorbing s0 d msg ->
    exists d', writes f d chunks = Ok d' /\ Absorbing s0 d' (msg ++ concat chunks) /\ same_cfg d d'.
  Proof.
    induction chunks as [|c chunks IH]; intros s0 d msg Habs.
    - exists d. cbn [writes concat]. rewrite app_nil_r. split; [reflexivity|]. split; [exact Habs|apply same_cfg_refl].
    - destruct (write_abs s0 d msg c Habs) as (d1 & Hw & Habs1 & Hc1).
      destruct (IH s0 d1 (msg ++ c) Habs1) as (d2 & Hws & Habs2 & Hc2).
      exists d2. cbn [writes concat]. rewrite Hw. cbn [bind]. split; [exact Hws|].
      split; [now rewrite app_assoc|eapply same_cfg_trans; eassumption].
  Qed.

  (* states from which a write behaves as on an empty buffer *)
  Lemma fresh_absorbing d : cfg_ok d -> Fresh d -> Absorbing zero_state (setBuf d 0 0) [].
  Proof.
    intros (Hr & _ & Hst) (_ & _ & Ha). unfold Absorbing. proj.
    split; [exact Hr|]. split; [exact Hst|]. split; [reflexivity|].
    exists [], [], 0. destruct (rate_ok_bounds _ Hr). cbn [length app firstn].
    repeat split; try reflexivity; try lia. rewrite Ha. reflexivity.
  Qed.

  Lemma reset_absorbing d : cfg_ok d -> Absorbing zero_state (reset d) [].
  Proof.
    intros (Hr & _ & Hst). unfold Absorbing, reset. proj.
    split; [exact Hr|]. split; [exact Hst|]. split; [reflexivity|].
    exists [], [], 0. destruct (rate_ok_bounds _ Hr). cbn [length app firstn].
    repeat split; try reflexivity; lia.
  Qed.

  Lemma live_absorbing d :
    cfg_ok d -> sp_bufIndex d = 0%Z -> (0 <= sp_bufSize d < Z.of_nat (sp_rate d))%Z ->
    Absorbing (sp_a d) d (firstn (Z.to_nat (sp_bufSize d)) (sp_storage d)).
  Proof.
    intros (Hr & _ & Hst) Hidx Hbs. unfold Absorbing.
    split; [exact Hr|]. split; [exact Hst|]. split; [exact Hidx|].
    destruct (rate_ok_bounds _ Hr).
    assert (L : length (firstn (Z.to_nat (sp_bufSize d)) (sp_storage d)) = Z.to_nat (sp_bufSize d))
      by (rewrite firstn_length; lia).
    exists [], (firstn (Z.to_nat (sp_bufSize d)) (sp_storage d)), 0.
    rewrite L. repeat split; try reflexivity; lia.
  Qed.

  (* ---------- SumHash from an absorbing state ---------- *)
  Definition PostSum (d : sponge) : Prop :=
    rate_ok (sp_rate d) /\ length (sp_storage d) = maxRate /\
    sp_bufIndex d = 0%Z /\ sp_bufSize d = Z.of_nat (sp_rate d).

  Lemma pad_abs s0 d msg :
    Absorbing s0 d msg ->
    exists d', padAndPermute f d = Ok d' /\ PostSum d' /\ same_cfg d d' /\
      sp_a d' = absorb f (sp_rate d) s0 (msg ++ pad101 (sp_rate d) (sp_ds d) (length msg)).
  Proof.
    intros Habs. pose proof (absorbing_not_nil _ _ _ Habs) as Hnil.
    destruct Habs as (Hr & Hst & Hidx & pre & rest & k & Hmsg & Hpre & Hrest & Hbs & Hfn & Ha).
    unfold padAndPermute. rewrite Hnil.
    destruct d as [a st bi bs r ds ol]. proj. subst bi.
    destruct (rate_ok_bounds r Hr) as [Hr0 Hrm]. rewrite maxRate_val in *.
    set (b := length rest) in *.
    unfold appendBuf. proj.
    replace ((0 <=? 0 + bs)%Z && (0 + bs <=? zlen st)%Z) with true
      by (symmetry; apply andb_true_iff; split; apply Z.leb_le; unfold zlen; lia).
    replace (Z.to_nat (0 + bs)) with b by lia.
    pose proof (split_at_prefix st rest Hfn) as Hsplit. fold b in Hsplit.
    set (T0 := skipn b st) in *.
    assert (HT0 : length T0 = 136 - b) by (unfold T0; rewrite skipn_length; lia).
    rewrite Hsplit.
    rewrite (splice_app rest T0 [ds] b eq_refl) by (cbn [length]; lia).
    cbn [bind length]. proj.
    set (T1 := skipn 1 T0).
    assert (HT1 : length T1 = 135 - b) by (unfold T1; rewrite skipn_length; lia).
    unfold buf. proj.
    assert (Hst1 : length (rest ++ [ds] ++ T1) = 136) by (rewrite !app_length; fold b; cbn [length]; lia).
    rewrite go_slice_prefix by lia. cbn [bind].
    replace (bs + zlen [ds])%Z with (Z.of_nat (b + 1)) by (unfold zlen; cbn [length]; lia).
    (* message length modulo the rate *)
    assert (Hmod : Nat.modulo (length msg) r = b).
    { subst msg. rewrite app_length, Hpre. fold b. rewrite Nat.add_comm, Nat.mod_add by lia.
      apply Nat.mod_small. lia. }
    assert (Hfinal : forall blockst T,
      length blockst = r ->
      blockst = rest ++ pad101 r ds (length msg) ->
      length (blockst ++ T) = 136 ->
      exists d', (d3 <- permute f (mkSponge a (blockst ++ T) 0%Z (Z.of_nat r) r ds ol) ;;
                  Ok (setBuf d3 0 (Z.of_nat (sp_rate d3)))) = Ok d' /\
                 PostSum d' /\ same_cfg (mkSponge a st 0%Z bs r ds ol) d' /\
                 sp_a d' = absorb f r s0 (msg ++ pad101 r ds (length msg))).
    { intros blk T Hbl Hblk Hlen.
      unfold permute, buf. proj. rewrite go_slice_prefix by lia.
      rewrite firstn_app_exact by exact Hbl. cbn [bind]. unfold xorIn.
      rewrite xorIn_unaligned_block by (rewrite Hbl; exact Hr). cbn [bind]. proj.
      eexists. split; [reflexivity|]. split; [|split; [repeat split|]].
      - unfold PostSum. proj. repeat split; auto.
      - proj. subst msg. rewrite <- app_assoc. rewrite <- Hblk.
        rewrite (absorb_last_block f r Hr0 s0 pre blk k Hpre Hbl). rewrite <- Ha. reflexivity. }
    destruct (Nat.eq_dec (b + 1) r) as [Eq1|Ne1].
    - (* one byte of room: the domain byte and the final bit share the last byte *)
      rewrite zero_range_noop by lia. cbn [bind].
      replace r with (S b) at 1 by lia.
      change (rest ++ [ds] ++ T1) with (rest ++ ds :: T1).
      rewrite (flip_last_app rest T1 ds b eq_refl). cbn [bind].
      unfold with_storage. proj.
      change (rest ++ N.lxor ds 128 :: T1) with (rest ++ [N.lxor ds 128] ++ T1).
      rewrite app_assoc.
      apply Hfinal.
      + rewrite app_length. fold b. cbn [length]. lia.
      + unfold pad101. rewrite Hmod. replace (r - b) with 1 by lia. reflexivity.
      + rewrite <- app_assoc. rewrite !app_length. fold b. cbn [length]. lia.
    - (* at least two bytes of room *)
      assert (Hlt : b + 1 < r) by lia.
      rewrite <- (firstn_skipn (r - (b + 1)) T1).
      set (M := firstn (r - (b + 1)) T1). set (T2 := skipn (r - (b + 1)) T1).
      assert (HM : length M = r - (b + 1)) by (unfold M; rewrite firstn_length; lia).
      assert (HT2 : length T2 = 136 - r) by (unfold T2; rewrite skipn_length; lia).
      rewrite (app_assoc rest [ds]).
      rewrite (zero_range_app (rest ++ [ds]) M T2 (b + 1) r)
        by (try rewrite app_length; fold b; cbn [length]; lia).
      cbn [bind].
      replace (r - (b + 1)) with (S (r - b - 2)) by lia. rewrite repeat_snoc.
      replace r with (S (r - 1)) at 1 by lia.
      rewrite <- (app_assoc (repeat 0%N (r - b - 2))). rewrite (app_assoc (rest ++ [ds])).
      cbn [app].
      rewrite (flip_last_app ((rest ++ [ds]) ++ repeat 0%N (r - b - 2)) T2 0%N (r - 1))
        by (rewrite !app_length, repeat_length; fold b; cbn [length]; lia).
      cbn [bind]. unfold with_storage. proj.
      change (N.lxor 0 128) with 128%N.
      change (((rest ++ [ds]) ++ repeat 0%N (r - b - 2)) ++ 128%N :: T2)
        with (((rest ++ [ds]) ++ repeat 0%N (r - b - 2)) ++ [128%N] ++ T2).
      rewrite app_assoc.
      apply Hfinal.
      + rewrite !app_length, repeat_length. fold b. cbn [length]. lia.
      + unfold pad101. rewrite Hmod.
        replace (Nat.eqb (r - b) 1) with false by (symmetry; apply Nat.eqb_neq; lia).
        replace (r - b - 2) with (r - b - 2) by reflexivity.
        rewrite <- !app_assoc. reflexivity.
      + rewrite !app_length, repeat_length. fold b. cbn [length]. lia.
  Qed.

  Lemma sum_abs s0 d msg :
    Absorbing s0 d msg -> sp_outLen d <= sp_rate d ->
    exists d', sum f d =
      Ok (squeeze f (sp_rate d)
            (absorb f (sp_rate d) s0 (msg ++ pad101 (sp_rate d) (sp_ds d) (length msg))) (sp_outLen d), d')
      /\ PostSum d' /\ same_cfg d d'.
  Proof.
    intros Habs Hout.
    destruct (pad_abs s0 d msg Habs) as (d' & Hp & Hps & Hcfg & Ha).
    exists d'. unfold sum. rewrite Hp. cbn [bind].
    destruct Hcfg as (C1 & C2 & C3). rewrite C3, Ha.
    destruct Habs as (Hr & _). destruct (rate_ok_bounds _ Hr).
    rewrite copyOut_short by lia. rewrite squeeze_short by exact Hout.
    split; [reflexivity|]. split; [exact Hps|repeat split; assumption].
  Qed.
End Sponge.
