(* Proofs for C13, sponge part: the buffer machine of /repo/hash/keccak.go
   (Model/Hashers.v) computes the FIPS 202 sponge for every chunking, over an
   ARBITRARY permutation f. *)
From Coq Require Import ZArith NArith List Bool Arith Lia.
From V Require Import Lib.ListX Prim.Keccak Spec.HashSpec Model.Hashers Proofs.SpongeFacts.
Import ListNotations.
Local Open Scope nat_scope.

Ltac proj := cbn [sp_a sp_storage sp_bufIndex sp_bufSize sp_rate sp_ds sp_outLen
                  with_a with_storage setBuf fst snd] in *.

Definition same_cfg (d d' : sponge) : Prop :=
  sp_rate d' = sp_rate d /\ sp_ds d' = sp_ds d /\ sp_outLen d' = sp_outLen d.

Lemma same_cfg_refl d : same_cfg d d.
Proof. repeat split. Qed.
Lemma same_cfg_trans a b c : same_cfg a b -> same_cfg b c -> same_cfg a c.
Proof. intros (A1 & A2 & A3) (B1 & B2 & B3). repeat split; congruence. Qed.

(* ---------- well-formedness ---------- *)
Definition cfg_ok (d : sponge) : Prop :=
  rate_ok (sp_rate d) /\ sp_outLen d <= sp_rate d /\ length (sp_storage d) = maxRate.
(* as built by NewSHA3_256 / NewSHA3_384 / NewKeccak_256: both indexes are the -1 sentinel *)
Definition Fresh (d : sponge) : Prop :=
  sp_bufIndex d = bufNilValue /\ sp_bufSize d = bufNilValue /\ sp_a d = zero_state.
(* buf = storage[0 : bufSize], 0 <= bufSize <= rate; bufSize = rate only right after SumHash *)
Definition Live (d : sponge) : Prop :=
  sp_bufIndex d = 0%Z /\ (0 <= sp_bufSize d <= Z.of_nat (sp_rate d))%Z.
Definition WF (d : sponge) : Prop := cfg_ok d /\ (Fresh d \/ Live d).

(* helper lemmas on the padding writes of padAndPermute *)
Lemma zero_range_app (a m t : list N) zs r :
  length a = zs -> length m = r - zs -> zs < r ->
  zero_range (a ++ m ++ t) (Z.of_nat zs) r = Ok (a ++ repeat 0%N (r - zs) ++ t).
Proof.
  intros Ha Hm Hlt. unfold zero_range.
  replace (Z.of_nat zs <? Z.of_nat r)%Z with true by (symmetry; apply Z.ltb_lt; lia).
  replace (Z.of_nat zs <? 0)%Z with false by (symmetry; apply Z.ltb_ge; lia).
  rewrite Nat2Z.id. rewrite firstn_app_exact by exact Ha.
  rewrite skipn_app_exact2 by lia. reflexivity.
Qed.

Lemma zero_range_noop (st : list N) zs r : r <= zs -> zero_range st (Z.of_nat zs) r = Ok st.
Proof.
  intro H. unfold zero_range.
  replace (Z.of_nat zs <? Z.of_nat r)%Z with false by (symmetry; apply Z.ltb_ge; lia). reflexivity.
Qed.

Lemma flip_last_app (a t : list N) x r' :
  length a = r' -> flip_last (a ++ x :: t) (S r') = Ok (a ++ N.lxor x 128 :: t).
Proof.
  intro Ha. unfold flip_last.
  replace (Nat.ltb r' (length (a ++ x :: t))) with true
    by (symmetry; apply Nat.ltb_lt; rewrite app_length; cbn [length]; lia).
  rewrite firstn_app_exact by exact Ha.
  subst r'. rewrite nth_middle.
  change (a ++ x :: t) with (a ++ [x] ++ t).
  rewrite skipn_app_exact2 by (cbn [length]; lia). reflexivity.
Qed.

Section Sponge.
  Variable f : list N -> list N.

  (* The object has absorbed [msg] on top of the permutation state s0: the whole blocks
     [pre] are in sp_a, the remainder [rest] is storage[0:bufSize].  Nothing is said about
     storage beyond bufSize. *)
  Definition Absorbing (s0 : list N) (d : sponge) (msg : list N) : Prop :=
    rate_ok (sp_rate d) /\ length (sp_storage d) = maxRate /\ sp_bufIndex d = 0%Z /\
    exists pre rest k,
      msg = pre ++ rest /\ length pre = k * sp_rate d /\ length rest < sp_rate d /\
      sp_bufSize d = Z.of_nat (length rest) /\ firstn (length rest) (sp_storage d) = rest /\
      sp_a d = absorb f (sp_rate d) s0 pre.

  Lemma absorbing_not_nil s0 d msg : Absorbing s0 d msg -> bufIsNil d = false.
  Proof.
    intros (_ & _ & _ & pre & rest & k & _ & _ & _ & Hbs & _).
    unfold bufIsNil. rewrite bufNil_val, Hbs. apply Z.eqb_neq. lia.
  Qed.

  Lemma write_iter_abs s0 d msg p :
    Absorbing s0 d msg -> p <> [] ->
    exists d' c p', write_iter f d p = Ok (d', p') /\ p = c ++ p' /\ c <> [] /\
                    Absorbing s0 d' (msg ++ c) /\ same_cfg d d'.
  Proof.
    intros (Hr & Hst & Hidx & pre & rest & k & Hmsg & Hpre & Hrest & Hbs & Hfn & Ha) Hp.
    destruct d as [a st bi bs r ds ol]. proj. subst bi.
    destruct (rate_ok_bounds r Hr) as [Hr0 Hrm]. rewrite maxRate_val in *.
    assert (Hlenp : 0 < length p) by (destruct p; [congruence|cbn [length]; lia]).
    unfold write_iter. proj.
    destruct ((bs =? 0)%Z && (Z.of_nat r <=? zlen p)%Z) eqn:Efast.
    - (* fast path: a full block straight from the input *)
      apply andb_true_iff in Efast as [E1 E2].
      apply Z.eqb_eq in E1. apply Z.leb_le in E2. unfold zlen in E2.
      assert (Hr0' : length rest = 0) by lia.
      destruct rest; [|cbn [length] in Hr0'; lia]. clear Hr0'.
      assert (Hc : length (firstn r p) = r) by (rewrite firstn_length; lia).
      unfold xorIn. rewrite xorIn_unaligned_block by (rewrite Hc; exact Hr).
      cbn [bind]. eexists _, (firstn r p), (skipn r p).
      split; [reflexivity|]. split; [symmetry; apply firstn_skipn|].
      split; [intro E; rewrite E in Hc; cbn [length] in Hc; lia|].
      split; [|repeat split].
      unfold Absorbing. proj. split; [exact Hr|]. split; [exact Hst|]. split; [reflexivity|].
      exists (pre ++ firstn r p), [], (S k).
      rewrite app_nil_r in Hmsg. subst msg. rewrite app_nil_r.
      split; [reflexivity|]. split; [rewrite app_length, Hc, Hpre; lia|].
      split; [cbn [length]; lia|]. split; [cbn [length]; lia|]. split; [reflexivity|].
      rewrite (absorb_last_block f r Hr0 s0 pre (firstn r p) k Hpre Hc). rewrite <- Ha. reflexivity.
    - (* slow path: buffer, permute when the buffer is full *)
      assert (Hnf : ~ (bs = 0%Z /\ (Z.of_nat r <= zlen p)%Z)).
      { intros [E1 E2]. rewrite E1 in Efast. cbn in Efast. apply Z.leb_gt in Efast. lia. }
      clear Efast.
      set (b := length rest) in *.
      set (t := Nat.min (r - b) (length p)).
      assert (Et : Z.min (Z.of_nat r - bs) (zlen p) = Z.of_nat t) by (unfold zlen, t; lia).
      rewrite Et.
      replace (Z.of_nat t <? 0)%Z with false by (symmetry; apply Z.ltb_ge; lia).
      rewrite Nat2Z.id.
      assert (Ht1 : 1 <= t) by (unfold t; lia).
      assert (Htb : b + t <= r) by (unfold t; lia).
      set (c := firstn t p).
      assert (Hc : length c = t) by (unfold c, t; rewrite firstn_length; lia).
      unfold appendBuf. proj.
      replace ((0 <=? 0 + bs)%Z && (0 + bs <=? zlen st)%Z) with true
        by (symmetry; apply andb_true_iff; split; apply Z.leb_le; unfold zlen; lia).
      replace (Z.to_nat (0 + bs)) with b by lia.
      pose proof (split_at_prefix st rest Hfn) as Hsplit. fold b in Hsplit.
      set (T0 := skipn b st) in *.
      assert (HT0 : length T0 = 136 - b) by (unfold T0; rewrite skipn_length; lia).
      rewrite Hsplit.
      rewrite (splice_app rest T0 c b eq_refl) by lia.
      cbn [bind]. proj.
      assert (Hst1 : length (rest ++ c ++ skipn (length c) T0) = 136).
      { rewrite !app_length, skipn_length. fold b. lia. }
      destruct (Z.eqb_spec (bs + zlen c) (Z.of_nat r)) as [Efull|Enot].
      + (* the buffer is full: xor it in and permute *)
        assert (Hbt : b + t = r) by (unfold zlen in Efull; lia).
        unfold permute, buf. proj. rewrite Efull.
        rewrite go_slice_prefix by lia.
        rewrite (firstn_app_exact2 rest c _ r) by (fold b; lia).
        cbn [bind]. unfold xorIn.
        rewrite xorIn_unaligned_block by (rewrite app_length; fold b; rewrite Hc, Hbt; exact Hr).
        cbn [bind]. proj.
        eexists _, c, (skipn t p). split; [reflexivity|].
        split; [symmetry; apply firstn_skipn|].
        split; [intro E; rewrite E in Hc; cbn [length] in Hc; lia|].
        split; [|repeat split].
        unfold Absorbing. proj. split; [exact Hr|]. split; [exact Hst1|]. split; [reflexivity|].
        exists (pre ++ rest ++ c), [], (S k). subst msg.
        split; [now rewrite app_nil_r, <- !app_assoc|].
        split; [rewrite !app_length; fold b; rewrite Hc, Hpre; lia|].
        split; [cbn [length]; lia|]. split; [reflexivity|]. split; [reflexivity|].
        assert (Hrc : length (rest ++ c) = r) by (rewrite app_length; fold b; lia).
        rewrite (absorb_last_block f r Hr0 s0 pre (rest ++ c) k Hpre Hrc). rewrite <- Ha. reflexivity.
      + (* still room in the buffer *)
        assert (Hbt : b + t < r) by (unfold zlen in Enot; lia).
        cbn [bind]. proj.
        eexists _, c, (skipn t p). split; [reflexivity|].
        split; [symmetry; apply firstn_skipn|].
        split; [intro E; rewrite E in Hc; cbn [length] in Hc; lia|].
        split; [|repeat split].
        unfold Absorbing. proj. split; [exact Hr|]. split; [exact Hst1|]. split; [reflexivity|].
        exists pre, (rest ++ c), k. subst msg.
        split; [now rewrite app_assoc|]. split; [exact Hpre|].
        split; [rewrite app_length; fold b; lia|].
        split; [rewrite app_length; fold b; unfold zlen; lia|].
        split; [|exact Ha].
        rewrite (firstn_app_exact2 rest c _ (length (rest ++ c))) by (now rewrite app_length).
        reflexivity.
  Qed.

  Lemma write_loop_abs n : forall p fuel s0 d msg,
    length p <= n -> length p < fuel -> Absorbing s0 d msg ->
    exists d', write_loop f fuel d p = Ok d' /\ Absorbing s0 d' (msg ++ p) /\ same_cfg d d'.
  Proof.
    induction n as [|n IH]; intros p fuel s0 d msg Hn Hf Habs.
    - destruct p; [|cbn [length] in Hn; lia].
      exists d. rewrite app_nil_r. split; [destruct fuel; reflexivity|]. split; [exact Habs|apply same_cfg_refl].
    - destruct p as [|x p].
      { exists d. rewrite app_nil_r. split; [destruct fuel; reflexivity|]. split; [exact Habs|apply same_cfg_refl]. }
      destruct fuel as [|fuel]; [lia|].
      destruct (write_iter_abs s0 d msg (x :: p) Habs ltac:(discriminate))
        as (d1 & c & p' & Hit & Hsp & Hc & Habs1 & Hcfg1).
      cbn [write_loop]. rewrite Hit. cbn [bind fst snd].
      assert (Hlen : length (x :: p) = length c + length p') by (rewrite Hsp, app_length; reflexivity).
      assert (0 < length c) by (destruct c; [congruence|cbn [length]; lia]).
      destruct (IH p' fuel s0 d1 (msg ++ c)) as (d2 & Hl & Habs2 & Hcfg2); [lia|lia|exact Habs1|].
      exists d2. split; [exact Hl|]. split.
      + rewrite Hsp. rewrite app_assoc. exact Habs2.
      + eapply same_cfg_trans; eassumption.
  Qed.

  Lemma write_abs s0 d msg p :
    Absorbing s0 d msg ->
    exists d', write f d p = Ok d' /\ Absorbing s0 d' (msg ++ p) /\ same_cfg d d'.
  Proof.
    intro Habs. unfold write. rewrite (absorbing_not_nil s0 d msg Habs).
    apply (write_loop_abs (length p)); [lia|lia|exact Habs].
  Qed.

  Lemma writes_abs chunks : forall s0 d msg,
    Absorbing s0 d msg ->
    exists d', writes f d chunks = Ok d' /\ Absorbing s0 d' (msg ++ concat chunks) /\ same_cfg d d'.
  Proof.
    induction chunks as [|c chunks IH]; intros s0 d msg Habs.
    - exists d. cbn [writes concat]. rewrite app_nil_r. split; [reflexivity|]. split; [exact Habs|apply same_cfg_refl].
    - destruct (write_abs s0 d msg c Habs) as (d1 & Hw & Habs1 & Hc1).
      destruct (IH s0 d1 (msg ++ c) Habs1) as (d2 & Hws & Habs2 & Hc2).
      exists d2. cbn [writes concat]. rewrite Hw. cbn [bind]. split; [exact Hws|].
      split; [now rewrite app_assoc|eapply same_cfg_trans; eassumption].
  Qed.

  (* states from which a write behaves as on an empty buffer *)
  Lemma fresh_absorbing d : cfg_ok d -> Fresh d -> Absorbing zero_state (setBuf d 0 0) [].
  Proof.
    intros (Hr & _ & Hst) (_ & _ & Ha). unfold Absorbing. proj.
    split; [exact Hr|]. split; [exact Hst|]. split; [reflexivity|].
    exists [], [], 0. destruct (rate_ok_bounds _ Hr). cbn [length app firstn].
    repeat split; try reflexivity; try lia. rewrite Ha. reflexivity.
  Qed.

  Lemma reset_absorbing d : cfg_ok d -> Absorbing zero_state (reset d) [].
  Proof.
    intros (Hr & _ & Hst). unfold Absorbing, reset. proj.
    split; [exact Hr|]. split; [exact Hst|]. split; [reflexivity|].
    exists [], [], 0. destruct (rate_ok_bounds _ Hr). cbn [length app firstn].
    repeat split; try reflexivity; lia.
  Qed.

  Lemma live_absorbing d :
    cfg_ok d -> sp_bufIndex d = 0%Z -> (0 <= sp_bufSize d < Z.of_nat (sp_rate d))%Z ->
    Absorbing (sp_a d) d (firstn (Z.to_nat (sp_bufSize d)) (sp_storage d)).
  Proof.
    intros (Hr & _ & Hst) Hidx Hbs. unfold Absorbing.
    split; [exact Hr|]. split; [exact Hst|]. split; [exact Hidx|].
    destruct (rate_ok_bounds _ Hr).
    assert (L : length (firstn (Z.to_nat (sp_bufSize d)) (sp_storage d)) = Z.to_nat (sp_bufSize d))
      by (rewrite firstn_length; lia).
    exists [], (firstn (Z.to_nat (sp_bufSize d)) (sp_storage d)), 0.
    rewrite L. repeat split; try reflexivity; lia.
  Qed.

  (* ---------- SumHash from an absorbing state ---------- *)
  Definition PostSum (d : sponge) : Prop :=
    rate_ok (sp_rate d) /\ length (sp_storage d) = maxRate /\
    sp_bufIndex d = 0%Z /\ sp_bufSize d = Z.of_nat (sp_rate d).

  Lemma pad_abs s0 d msg :
    Absorbing s0 d msg ->
    exists d', padAndPermute f d = Ok d' /\ PostSum d' /\ same_cfg d d' /\
      sp_a d' = absorb f (sp_rate d) s0 (msg ++ pad101 (sp_rate d) (sp_ds d) (length msg)).
  Proof.
    intros Habs. pose proof (absorbing_not_nil _ _ _ Habs) as Hnil.
    destruct Habs as (Hr & Hst & Hidx & pre & rest & k & Hmsg & Hpre & Hrest & Hbs & Hfn & Ha).
    unfold padAndPermute. rewrite Hnil.
    destruct d as [a st bi bs r ds ol]. proj. subst bi.
    destruct (rate_ok_bounds r Hr) as [Hr0 Hrm]. rewrite maxRate_val in *.
    set (b := length rest) in *.
    unfold appendBuf. proj.
    replace ((0 <=? 0 + bs)%Z && (0 + bs <=? zlen st)%Z) with true
      by (symmetry; apply andb_true_iff; split; apply Z.leb_le; unfold zlen; lia).
    replace (Z.to_nat (0 + bs)) with b by lia.
    pose proof (split_at_prefix st rest Hfn) as Hsplit. fold b in Hsplit.
    set (T0 := skipn b st) in *.
    assert (HT0 : length T0 = 136 - b) by (unfold T0; rewrite skipn_length; lia).
    rewrite Hsplit.
    rewrite (splice_app rest T0 [ds] b eq_refl) by (cbn [length]; lia).
    cbn [bind length]. proj.
    set (T1 := skipn 1 T0).
    assert (HT1 : length T1 = 135 - b) by (unfold T1; rewrite skipn_length; lia).
    unfold buf. proj.
    assert (Hst1 : length (rest ++ [ds] ++ T1) = 136) by (rewrite !app_length; fold b; cbn [length]; lia).
    rewrite go_slice_prefix by lia. cbn [bind].
    replace (bs + zlen [ds])%Z with (Z.of_nat (b + 1)) by (unfold zlen; cbn [length]; lia).
    (* message length modulo the rate *)
    assert (Hmod : Nat.modulo (length msg) r = b).
    { subst msg. rewrite app_length, Hpre. fold b. rewrite Nat.add_comm, Nat.mod_add by lia.
      apply Nat.mod_small. lia. }
    assert (Hfinal : forall st0 blockst T,
      length blockst = r ->
      blockst = rest ++ pad101 r ds (length msg) ->
      length (blockst ++ T) = 136 ->
      exists d', (d3 <- permute f (mkSponge a (blockst ++ T) 0%Z (Z.of_nat r) r ds ol) ;;
                  Ok (setBuf d3 0 (Z.of_nat (sp_rate d3)))) = Ok d' /\
                 PostSum d' /\ same_cfg (mkSponge a st0 0%Z bs r ds ol) d' /\
                 sp_a d' = absorb f r s0 (msg ++ pad101 r ds (length msg))).
    { intros st0 blk T Hbl Hblk Hlen.
      unfold permute, buf. proj. rewrite go_slice_prefix by lia.
      rewrite firstn_app_exact by exact Hbl. cbn [bind]. unfold xorIn.
      rewrite xorIn_unaligned_block by (rewrite Hbl; exact Hr). cbn [bind]. proj.
      eexists. split; [reflexivity|]. split; [|split; [repeat split|]].
      - unfold PostSum. proj. repeat split; auto.
      - proj. subst msg. rewrite <- app_assoc. rewrite <- Hblk.
        rewrite (absorb_last_block f r Hr0 s0 pre blk k Hpre Hbl). rewrite <- Ha. reflexivity. }
    destruct (Nat.eq_dec (b + 1) r) as [Eq1|Ne1].
    - (* one byte of room: the domain byte and the final bit share the last byte *)
      rewrite zero_range_noop by lia. cbn [bind].
      change (rest ++ [ds] ++ T1) with (rest ++ ds :: T1).
      replace (flip_last (rest ++ ds :: T1) r) with (flip_last (rest ++ ds :: T1) (S b))
        by (f_equal; lia).
      rewrite (flip_last_app rest T1 ds b eq_refl). cbn [bind].
      unfold with_storage. proj.
      change (rest ++ N.lxor ds 128 :: T1) with (rest ++ [N.lxor ds 128] ++ T1).
      rewrite app_assoc.
      apply Hfinal.
      + rewrite app_length. fold b. cbn [length]. lia.
      + unfold pad101. rewrite Hmod. replace (r - b) with 1 by lia. reflexivity.
      + rewrite <- app_assoc. rewrite !app_length. fold b. cbn [length]. lia.
    - (* at least two bytes of room *)
      assert (Hlt : b + 1 < r) by lia.
      rewrite <- (firstn_skipn (r - (b + 1)) T1).
      set (M := firstn (r - (b + 1)) T1). set (T2 := skipn (r - (b + 1)) T1).
      assert (HM : length M = r - (b + 1)) by (unfold M; rewrite firstn_length; lia).
      assert (HT2 : length T2 = 136 - r) by (unfold T2; rewrite skipn_length; lia).
      rewrite (app_assoc rest [ds]).
      rewrite (zero_range_app (rest ++ [ds]) M T2 (b + 1) r)
        by (try rewrite app_length; fold b; cbn [length]; lia).
      cbn [bind].
      set (A := (rest ++ [ds]) ++ repeat 0%N (r - b - 2)).
      assert (HA : length A = r - 1)
        by (unfold A; rewrite !app_length, repeat_length; fold b; cbn [length]; lia).
      assert (HX : (rest ++ [ds]) ++ repeat 0%N (r - (b + 1)) ++ T2 = A ++ 0%N :: T2).
      { unfold A. replace (r - (b + 1)) with (S (r - b - 2)) by lia. rewrite repeat_snoc.
        rewrite <- !app_assoc. reflexivity. }
      rewrite HX.
      replace (flip_last (A ++ 0%N :: T2) r) with (flip_last (A ++ 0%N :: T2) (S (r - 1)))
        by (f_equal; lia).
      rewrite (flip_last_app A T2 0%N (r - 1) HA).
      cbn [bind]. unfold with_storage. proj.
      change (N.lxor 0 128) with 128%N.
      change (A ++ 128%N :: T2) with (A ++ [128%N] ++ T2).
      rewrite app_assoc.
      apply Hfinal.
      + rewrite app_length, HA. cbn [length]. lia.
      + unfold pad101. rewrite Hmod.
        replace (Nat.eqb (r - b) 1) with false by (symmetry; apply Nat.eqb_neq; lia).
        unfold A. rewrite <- !app_assoc. reflexivity.
      + rewrite !app_length, HA. cbn [length]. lia.
  Qed.

  Lemma sum_abs s0 d msg :
    Absorbing s0 d msg -> sp_outLen d <= sp_rate d ->
    exists d', sum f d =
      Ok (squeeze f (sp_rate d)
            (absorb f (sp_rate d) s0 (msg ++ pad101 (sp_rate d) (sp_ds d) (length msg))) (sp_outLen d), d')
      /\ PostSum d' /\ same_cfg d d'.
  Proof.
    intros Habs Hout.
    destruct (pad_abs s0 d msg Habs) as (d' & Hp & Hps & Hcfg & Ha).
    exists d'. unfold sum. rewrite Hp. cbn [bind].
    destruct Hcfg as (C1 & C2 & C3). rewrite C3, Ha.
    destruct Habs as (Hr & _). destruct (rate_ok_bounds _ Hr).
    rewrite copyOut_short by lia. rewrite squeeze_short; [|assumption|exact Hout].
    split; [reflexivity|]. split; [exact Hps|repeat split; assumption].
  Qed.
End Sponge.

(* ---------- every API call on a well-formed object: no panic, well-formed result ---------- *)
Lemma splice_length (l src : list N) off : off <= length l -> length (splice l off src) = length l.
Proof.
  intro H. unfold splice. rewrite !app_length, !firstn_length, skipn_length. lia.
Qed.

Lemma splice_nil (l : list N) off : off <= length l -> splice l off [] = l.
Proof.
  intro H. unfold splice. cbn [length Nat.min firstn app]. rewrite Nat.add_0_r. apply firstn_skipn.
Qed.

Lemma flip_last_ok (st : list N) r :
  0 < r -> r <= length st -> exists st', flip_last st r = Ok st' /\ length st' = length st.
Proof.
  intros H0 H1. destruct r as [|r']; [lia|]. unfold flip_last.
  replace (Nat.ltb r' (length st)) with true by (symmetry; apply Nat.ltb_lt; lia).
  eexists. split; [reflexivity|].
  rewrite !app_length, firstn_length, skipn_length. cbn [length]. lia.
Qed.

Section SpongeOps.
  Variable f : list N -> list N.

  Definition digest_after (d : sponge) (chunks : list (list N)) : res (list N) :=
    d1 <- writes f d chunks ;; hd <- sum f d1 ;; Ok (fst hd).

  Lemma absorbing_wf s0 d msg : Absorbing f s0 d msg -> sp_outLen d <= sp_rate d -> WF d.
  Proof.
    intros (Hr & Hst & Hidx & pre & rest & k & _ & _ & Hrest & Hbs & _) Hout.
    split; [repeat split; assumption|]. right. split; [exact Hidx|lia].
  Qed.

  Lemma postsum_wf d : PostSum d -> sp_outLen d <= sp_rate d -> WF d.
  Proof.
    intros (Hr & Hst & Hidx & Hbs) Hout.
    split; [repeat split; assumption|]. right. split; [exact Hidx|lia].
  Qed.

  Lemma fresh_nil d : Fresh d -> bufIsNil d = true.
  Proof. intros (_ & H & _). unfold bufIsNil. rewrite H. apply Z.eqb_refl. Qed.

  Lemma write_fresh d p : Fresh d -> write f d p = write f (setBuf d 0 0) p.
  Proof.
    intro H. unfold write. rewrite (fresh_nil d H).
    unfold bufIsNil. proj. rewrite bufNil_val. reflexivity.
  Qed.

  Lemma sum_fresh d : Fresh d -> sum f d = sum f (setBuf d 0 0).
  Proof.
    intro H. unfold sum, padAndPermute. rewrite (fresh_nil d H).
    unfold bufIsNil. proj. rewrite bufNil_val. reflexivity.
  Qed.

  (* first Write after SumHash without Reset: the padded block still in the buffer is
     absorbed once more, then writing goes on (the Go comment says Reset is required) *)
  Lemma postsum_write d p :
    PostSum d -> exists d', write f d p = Ok d' /\ same_cfg d d' /\
      (PostSum d' \/ exists s0 msg, Absorbing f s0 d' msg).
  Proof.
    intros (Hr & Hst & Hidx & Hbs).
    destruct (rate_ok_bounds _ Hr) as [Hr0 Hrm].
    assert (Hnil : bufIsNil d = false).
    { unfold bufIsNil. rewrite bufNil_val, Hbs. apply Z.eqb_neq. lia. }
    unfold write. rewrite Hnil.
    destruct p as [|x p].
    { exists d. split; [reflexivity|]. split; [apply same_cfg_refl|]. left. repeat split; assumption. }
    replace (2 * length (x :: p) + 2) with (S (2 * length (x :: p) + 1)) by lia.
    cbn [write_loop].
    destruct d as [a st bi bs r ds ol]. proj. subst bi bs. rewrite maxRate_val in *.
    unfold write_iter. proj.
    replace ((Z.of_nat r =? 0)%Z) with false by (symmetry; apply Z.eqb_neq; lia).
    cbn [andb].
    replace (Z.min (Z.of_nat r - Z.of_nat r) (zlen (x :: p))) with 0%Z by (unfold zlen; lia).
    cbn [Z.ltb Z.compare Z.to_nat firstn skipn].
    unfold appendBuf. proj.
    replace ((0 <=? 0 + Z.of_nat r)%Z && (0 + Z.of_nat r <=? zlen st)%Z) with true
      by (symmetry; apply andb_true_iff; split; apply Z.leb_le; unfold zlen; lia).
    rewrite splice_nil by lia. cbn [bind]. proj.
    replace (Z.of_nat r + zlen [])%Z with (Z.of_nat r) by (unfold zlen; cbn [length]; lia).
    rewrite Z.eqb_refl.
    unfold permute, buf. proj. rewrite go_slice_prefix by lia. cbn [bind].
    unfold xorIn. rewrite xorIn_unaligned_block by (rewrite firstn_length, Nat.min_l by lia; exact Hr).
    cbn [bind]. proj.
    set (a1 := f (xor_block a (firstn r st))).
    assert (Habs : Absorbing f a1 (mkSponge a1 st 0%Z 0%Z r ds ol) []).
    { unfold Absorbing. proj. split; [exact Hr|]. split; [rewrite maxRate_val; exact Hst|].
      split; [reflexivity|]. exists [], [], 0. cbn [length app firstn].
      repeat split; try reflexivity; lia. }
    destruct (write_loop_abs f (length (x :: p)) (x :: p) (2 * length (x :: p) + 1) a1 _ [] (le_n _)
                ltac:(lia) Habs) as (d' & Hl & Habs' & Hcfg).
    exists d'. split; [exact Hl|]. split; [exact Hcfg|]. right. eauto.
  Qed.

  Lemma postsum_sum d :
    PostSum d -> exists h d', sum f d = Ok (h, d') /\ PostSum d' /\ same_cfg d d'.
  Proof.
    intros (Hr & Hst & Hidx & Hbs).
    destruct (rate_ok_bounds _ Hr) as [Hr0 Hrm].
    assert (Hnil : bufIsNil d = false).
    { unfold bufIsNil. rewrite bufNil_val, Hbs. apply Z.eqb_neq. lia. }
    unfold sum, padAndPermute. rewrite Hnil.
    destruct d as [a st bi bs r ds ol]. proj. subst bi bs. rewrite maxRate_val in *.
    unfold appendBuf. proj.
    replace ((0 <=? 0 + Z.of_nat r)%Z && (0 + Z.of_nat r <=? zlen st)%Z) with true
      by (symmetry; apply andb_true_iff; split; apply Z.leb_le; unfold zlen; lia).
    cbn [bind]. proj.
    set (st1 := splice st (Z.to_nat (0 + Z.of_nat r)) [ds]).
    assert (Hst1 : length st1 = 136) by (unfold st1; rewrite splice_length; lia).
    unfold buf. proj. rewrite go_slice_prefix by lia. cbn [bind].
    replace (Z.of_nat r + zlen [ds])%Z with (Z.of_nat (r + 1)) by (unfold zlen; cbn [length]; lia).
    rewrite zero_range_noop by lia. cbn [bind].
    destruct (flip_last_ok st1 r Hr0 ltac:(lia)) as (st2 & Hfl & Hst2).
    rewrite Hfl. cbn [bind]. unfold with_storage, permute, buf. proj.
    rewrite go_slice_prefix by lia. cbn [bind].
    unfold xorIn. rewrite xorIn_unaligned_block by (rewrite firstn_length, Nat.min_l by lia; exact Hr).
    cbn [bind]. proj.
    eexists _, _. split; [reflexivity|]. split; [|repeat split].
    unfold PostSum. proj. rewrite maxRate_val. repeat split; auto. lia.
  Qed.

  Lemma wf_write d p : WF d -> exists d', write f d p = Ok d' /\ WF d' /\ same_cfg d d'.
  Proof.
    intros [Hc [Hfr|[Hidx Hbs]]].
    - rewrite write_fresh by exact Hfr.
      destruct (write_abs f _ _ [] p (fresh_absorbing f d Hc Hfr)) as (d' & Hw & Habs & Hcfg).
      exists d'. split; [exact Hw|]. destruct Hcfg as (C1 & C2 & C3). proj.
      split; [|repeat split; assumption].
      eapply absorbing_wf; [exact Habs|]. destruct Hc as (_ & Ho & _). lia.
    - destruct (Z.eq_dec (sp_bufSize d) (Z.of_nat (sp_rate d))) as [E|E].
      + destruct Hc as (Hr & Ho & Hst).
        destruct (postsum_write d p) as (d' & Hw & Hcfg & Hd'); [repeat split; assumption|].
        exists d'. split; [exact Hw|]. split; [|exact Hcfg].
        destruct Hcfg as (C1 & C2 & C3).
        destruct Hd' as [Hps|(s0 & msg & Habs)].
        * apply postsum_wf; [exact Hps|lia].
        * eapply absorbing_wf; [exact Habs|lia].
      + destruct (write_abs f _ _ _ p (live_absorbing f d Hc Hidx ltac:(lia))) as (d' & Hw & Habs & Hcfg).
        exists d'. split; [exact Hw|]. split; [|exact Hcfg].
        destruct Hcfg as (C1 & C2 & C3). destruct Hc as (_ & Ho & _).
        eapply absorbing_wf; [exact Habs|lia].
  Qed.

  Lemma wf_sum d : WF d -> exists h d', sum f d = Ok (h, d') /\ WF d' /\ same_cfg d d'.
  Proof.
    intros [Hc [Hfr|[Hidx Hbs]]].
    - rewrite sum_fresh by exact Hfr.
      destruct Hc as (Hr & Ho & Hst).
      destruct (sum_abs f _ _ [] (fresh_absorbing f d (conj Hr (conj Ho Hst)) Hfr) Ho) as (d' & Hs & Hps & Hcfg).
      eexists _, d'. split; [exact Hs|]. destruct Hcfg as (C1 & C2 & C3). proj.
      split; [apply postsum_wf; [exact Hps|lia]|repeat split; assumption].
    - destruct (Z.eq_dec (sp_bufSize d) (Z.of_nat (sp_rate d))) as [E|E].
      + destruct Hc as (Hr & Ho & Hst).
        destruct (postsum_sum d) as (h & d' & Hs & Hps & Hcfg); [repeat split; assumption|].
        exists h, d'. split; [exact Hs|]. split; [|exact Hcfg].
        destruct Hcfg as (C1 & C2 & C3). apply postsum_wf; [exact Hps|lia].
      + pose proof Hc as (Hr & Ho & Hst).
        destruct (sum_abs f _ _ _ (live_absorbing f d Hc Hidx ltac:(lia)) Ho) as (d' & Hs & Hps & Hcfg).
        eexists _, d'. split; [exact Hs|]. split; [|exact Hcfg].
        destruct Hcfg as (C1 & C2 & C3). apply postsum_wf; [exact Hps|lia].
  Qed.

  Lemma wf_reset d : WF d -> WF (reset d) /\ same_cfg d (reset d).
  Proof.
    intros [(Hr & Ho & Hst) _]. split; [|repeat split].
    split; [repeat split; assumption|]. right. unfold reset, Live. proj. split; [reflexivity|lia].
  Qed.

  (* ---------- the digests ---------- *)
  Lemma absorbing_digest s0 d msg chunks :
    Absorbing f s0 d msg -> sp_outLen d <= sp_rate d ->
    exists d1 d2, writes f d chunks = Ok d1 /\
      sum f d1 = Ok (squeeze f (sp_rate d)
                       (absorb f (sp_rate d) s0
                          ((msg ++ concat chunks) ++
                           pad101 (sp_rate d) (sp_ds d) (length (msg ++ concat chunks))))
                       (sp_outLen d), d2) /\
      WF d2 /\ same_cfg d d2.
  Proof.
    intros Habs Ho.
    destruct (writes_abs f chunks s0 d msg Habs) as (d1 & Hw & Habs1 & (C1 & C2 & C3)).
    destruct (sum_abs f s0 d1 _ Habs1 ltac:(lia)) as (d2 & Hs & Hps & (D1 & D2 & D3)).
    exists d1, d2. split; [exact Hw|]. rewrite C1, C2, C3 in Hs. split; [exact Hs|].
    split; [apply postsum_wf; [exact Hps|lia]|repeat split; congruence].
  Qed.

  Lemma reset_then_chunks d chunks :
    WF d ->
    exists d1 d2, writes f (reset d) chunks = Ok d1 /\
      sum f d1 = Ok (sponge_hash f (sp_rate d) (sp_ds d) (sp_outLen d) (concat chunks), d2) /\
      WF d2 /\ same_cfg d d2.
  Proof.
    intros [Hc _]. pose proof Hc as (Hr & Ho & Hst).
    destruct (absorbing_digest zero_state (reset d) [] chunks (reset_absorbing f d Hc) Ho)
      as (d1 & d2 & Hw & Hs & Hwf & Hcfg).
    exists d1, d2. split; [exact Hw|]. split; [exact Hs|]. split; [exact Hwf|exact Hcfg].
  Qed.

  Lemma fresh_then_chunks d chunks :
    cfg_ok d -> Fresh d ->
    exists d1 d2, writes f d chunks = Ok d1 /\
      sum f d1 = Ok (sponge_hash f (sp_rate d) (sp_ds d) (sp_outLen d) (concat chunks), d2) /\
      WF d2 /\ same_cfg d d2.
  Proof.
    intros Hc Hfr. pose proof Hc as (Hr & Ho & Hst).
    pose proof (fresh_absorbing f d Hc Hfr) as Habs.
    destruct chunks as [|c chunks].
    - destruct (absorbing_digest zero_state _ [] [] Habs Ho) as (d1 & d2 & Hw & Hs & Hwf & Hcfg).
      cbn [writes] in Hw. injection Hw as <-.
      exists d, d2. split; [reflexivity|]. rewrite sum_fresh by exact Hfr.
      split; [exact Hs|]. split; [exact Hwf|exact Hcfg].
    - destruct (absorbing_digest zero_state _ [] (c :: chunks) Habs Ho) as (d1 & d2 & Hw & Hs & Hwf & Hcfg).
      exists d1, d2. cbn [writes]. rewrite write_fresh by exact Hfr.
      split; [exact Hw|]. split; [exact Hs|]. split; [exact Hwf|exact Hcfg].
  Qed.

  Lemma compute_hash_spec d x :
    WF d ->
    exists d', computeHash f d x = Ok (sponge_hash f (sp_rate d) (sp_ds d) (sp_outLen d) x, d') /\
               WF d' /\ same_cfg d d'.
  Proof.
    intro Hwf. destruct (reset_then_chunks d [x] Hwf) as (d1 & d2 & Hw & Hs & Hwf2 & Hcfg).
    cbn [writes] in Hw. cbn [concat] in Hs. rewrite app_nil_r in Hs.
    unfold computeHash. destruct (write f (reset d) x) as [d1'| |]; cbn [bind] in *; try discriminate.
    injection Hw as ->. exists d2. split; [exact Hs|]. split; [exact Hwf2|exact Hcfg].
  Qed.

  Lemma run_ops_wf ops : forall d,
    WF d -> exists outs d', run_ops f d ops = Ok (outs, d') /\ WF d' /\ same_cfg d d'.
  Proof.
    induction ops as [|o ops IH]; intros d Hwf.
    - exists [], d. split; [reflexivity|]. split; [exact Hwf|apply same_cfg_refl].
    - destruct o as [p| | |x]; cbn [run_ops].
      + destruct (wf_write d p Hwf) as (d1 & Hw & Hwf1 & Hc1).
        destruct (IH d1 Hwf1) as (outs & d2 & Hr & Hwf2 & Hc2).
        exists outs, d2. rewrite Hw. cbn [bind]. split; [exact Hr|]. split; [exact Hwf2|].
        eapply same_cfg_trans; eassumption.
      + destruct (wf_sum d Hwf) as (h & d1 & Hs & Hwf1 & Hc1).
        destruct (IH d1 Hwf1) as (outs & d2 & Hr & Hwf2 & Hc2).
        exists (h :: outs), d2. rewrite Hs. cbn [bind fst snd]. rewrite Hr. cbn [bind fst snd].
        split; [reflexivity|]. split; [exact Hwf2|]. eapply same_cfg_trans; eassumption.
      + destruct (wf_reset d Hwf) as (Hwf1 & Hc1).
        destruct (IH _ Hwf1) as (outs & d2 & Hr & Hwf2 & Hc2).
        exists outs, d2. split; [exact Hr|]. split; [exact Hwf2|]. exact (same_cfg_trans _ _ _ Hc1 Hc2).
      + destruct (compute_hash_spec d x Hwf) as (d1 & Hs & Hwf1 & Hc1).
        destruct (IH d1 Hwf1) as (outs & d2 & Hr & Hwf2 & Hc2).
        eexists (_ :: outs), d2. rewrite Hs. cbn [bind fst snd]. rewrite Hr. cbn [bind fst snd].
        split; [reflexivity|]. split; [exact Hwf2|]. eapply same_cfg_trans; eassumption.
  Qed.

  (* bytes of storage beyond bufSize never influence a digest *)
  Lemma stale_storage d st' chunks :
    cfg_ok d -> sp_bufIndex d = 0%Z -> (0 <= sp_bufSize d < Z.of_nat (sp_rate d))%Z ->
    length st' = maxRate ->
    firstn (Z.to_nat (sp_bufSize d)) st' = firstn (Z.to_nat (sp_bufSize d)) (sp_storage d) ->
    digest_after (with_storage d st') chunks = digest_after d chunks /\
    exists h, digest_after d chunks = Ok h.
  Proof.
    intros Hc Hidx Hbs Hlen Hpre. pose proof Hc as (Hr & Ho & Hst).
    pose proof (live_absorbing f d Hc Hidx Hbs) as A1.
    assert (Hc' : cfg_ok (with_storage d st')) by (unfold cfg_ok; proj; repeat split; assumption).
    pose proof (live_absorbing f (with_storage d st') Hc' Hidx Hbs) as A2.
    proj. rewrite Hpre in A2.
    destruct (absorbing_digest _ _ _ chunks A1 Ho) as (d1 & d2 & Hw1 & Hs1 & _).
    destruct (absorbing_digest _ _ _ chunks A2 Ho) as (e1 & e2 & Hw2 & Hs2 & _).
    proj. unfold digest_after. rewrite Hw1, Hw2. cbn [bind]. rewrite Hs1, Hs2. cbn [bind fst].
    split; [reflexivity|eauto].
  Qed.
End SpongeOps.

(* ---------- constructors and the one-shot helper ---------- *)
Lemma new_sponge_cfg rate ds out :
  rate_ok rate -> out <= rate -> cfg_ok (new_sponge rate ds out) /\ Fresh (new_sponge rate ds out).
Proof.
  intros Hr Ho. unfold new_sponge, cfg_ok, Fresh. proj.
  repeat split; try assumption; try reflexivity.
Qed.

Lemma rate_ok_sha3_256 : rate_ok rateSHA3_256. Proof. right. reflexivity. Qed.
Lemma rate_ok_sha3_384 : rate_ok rateSHA3_384. Proof. left. reflexivity. Qed.
Lemma rate_ok_keccak_256 : rate_ok rateKeccak_256. Proof. right. reflexivity. Qed.

Lemma new_wf rate ds out : rate_ok rate -> out <= rate -> WF (new_sponge rate ds out).
Proof. intros Hr Ho. destruct (new_sponge_cfg rate ds out Hr Ho). split; [assumption|now left]. Qed.

Lemma NewSHA3_256_wf : WF NewSHA3_256.
Proof. apply new_wf; [apply rate_ok_sha3_256|vm_compute; lia]. Qed.
Lemma NewSHA3_384_wf : WF NewSHA3_384.
Proof. apply new_wf; [apply rate_ok_sha3_384|vm_compute; lia]. Qed.
Lemma NewKeccak_256_wf : WF NewKeccak_256.
Proof. apply new_wf; [apply rate_ok_keccak_256|vm_compute; lia]. Qed.

Lemma oneshot_spec f x :
  ComputeSHA3_256 f x = Ok (sponge_hash f rateSHA3_256 dsByteSHA3 HashLenSHA3_256 x).
Proof.
  assert (Ho : HashLenSHA3_256 <= rateSHA3_256) by (vm_compute; lia).
  destruct (new_sponge_cfg rateSHA3_256 dsByteSHA3 HashLenSHA3_256 rate_ok_sha3_256 Ho) as [Hc Hfr].
  unfold ComputeSHA3_256. rewrite write_fresh by exact Hfr.
  destruct (write_abs f _ _ [] x (fresh_absorbing f _ Hc Hfr)) as (d1 & Hw & Habs & (C1 & C2 & C3)).
  rewrite Hw. cbn [bind]. cbn [app] in Habs.
  destruct (pad_abs f _ d1 x Habs) as (d2 & Hp & _ & _ & Ha).
  rewrite Hp. cbn [bind]. rewrite Ha. proj. unfold new_sponge in *. proj. rewrite C1, C2.
  rewrite copyOut_short by (vm_compute; lia).
  unfold sponge_hash. rewrite squeeze_short; [reflexivity|vm_compute; lia|exact Ho].
Qed.

Lemma oneshot_agrees f x :
  exists h d', ComputeSHA3_256 f x = Ok h /\ computeHash f NewSHA3_256 x = Ok (h, d') /\
               h = sponge_hash f rateSHA3_256 dsByteSHA3 HashLenSHA3_256 x.
Proof.
  destruct (compute_hash_spec f NewSHA3_256 x NewSHA3_256_wf) as (d' & Hc & _).
  eexists _, d'. split; [apply oneshot_spec|]. split; [exact Hc|reflexivity].
Qed.

(* reading the generic digests as the standard functions (f := Keccak-f[1600]) *)
Lemma cfg_SHA3_256 d m :
  same_cfg NewSHA3_256 d -> sponge_hash keccakf (sp_rate d) (sp_ds d) (sp_outLen d) m = SHA3_256 m.
Proof. intros (C1 & C2 & C3). rewrite C1, C2, C3. reflexivity. Qed.
Lemma cfg_SHA3_384 d m :
  same_cfg NewSHA3_384 d -> sponge_hash keccakf (sp_rate d) (sp_ds d) (sp_outLen d) m = SHA3_384 m.
Proof. intros (C1 & C2 & C3). rewrite C1, C2, C3. reflexivity. Qed.
Lemma cfg_Keccak_256 d m :
  same_cfg NewKeccak_256 d -> sponge_hash keccakf (sp_rate d) (sp_ds d) (sp_outLen d) m = Keccak_256 m.
Proof. intros (C1 & C2 & C3). rewrite C1, C2, C3. reflexivity. Qed.

Inductive sponge_alg := SHA3_256_alg | SHA3_384_alg | Keccak_256_alg.
Definition alg_new (a : sponge_alg) : sponge :=
  match a with SHA3_256_alg => NewSHA3_256 | SHA3_384_alg => NewSHA3_384 | Keccak_256_alg => NewKeccak_256 end.
Definition alg_spec (a : sponge_alg) : list N -> list N :=
  match a with SHA3_256_alg => SHA3_256 | SHA3_384_alg => SHA3_384 | Keccak_256_alg => Keccak_256 end.

Lemma alg_new_wf a : WF (alg_new a).
Proof. destruct a; [apply NewSHA3_256_wf|apply NewSHA3_384_wf|apply NewKeccak_256_wf]. Qed.

Lemma cfg_alg a d m :
  same_cfg (alg_new a) d -> sponge_hash keccakf (sp_rate d) (sp_ds d) (sp_outLen d) m = alg_spec a m.
Proof. destruct a; [apply cfg_SHA3_256|apply cfg_SHA3_384|apply cfg_Keccak_256]. Qed.

(* the headline statement: each algorithm, every well-formed prior state of such an object,
   every chunking *)
Lemma sponge_any_chunking a d chunks :
  WF d -> same_cfg (alg_new a) d ->
  exists d1 d2, writes keccakf (reset d) chunks = Ok d1 /\
                sum keccakf d1 = Ok (alg_spec a (concat chunks), d2) /\
                WF d2 /\ same_cfg (alg_new a) d2.
Proof.
  intros Hwf Hcfg.
  destruct (reset_then_chunks keccakf d chunks Hwf) as (d1 & d2 & Hw & Hs & Hwf2 & Hc2).
  exists d1, d2. rewrite (cfg_alg a d _ Hcfg) in Hs.
  split; [exact Hw|]. split; [exact Hs|]. split; [exact Hwf2|].
  exact (same_cfg_trans _ _ _ Hcfg Hc2).
Qed.

Lemma compute_hash_history_independent a d x :
  WF d -> same_cfg (alg_new a) d ->
  exists d', computeHash keccakf d x = Ok (alg_spec a x, d') /\ WF d' /\ same_cfg (alg_new a) d'.
Proof.
  intros Hwf Hcfg.
  destruct (compute_hash_spec keccakf d x Hwf) as (d' & Hc & Hwf' & Hc').
  exists d'. rewrite (cfg_alg a d _ Hcfg) in Hc.
  split; [exact Hc|]. split; [exact Hwf'|exact (same_cfg_trans _ _ _ Hcfg Hc')].
Qed.

Lemma fresh_object_first_write a chunks :
  exists d1 d2, writes keccakf (alg_new a) chunks = Ok d1 /\
                sum keccakf d1 = Ok (alg_spec a (concat chunks), d2) /\ WF d2.
Proof.
  assert (Hc : cfg_ok (alg_new a) /\ Fresh (alg_new a)).
  { destruct a; apply new_sponge_cfg;
      first [apply rate_ok_sha3_256|apply rate_ok_sha3_384|apply rate_ok_keccak_256|vm_compute; lia]. }
  destruct Hc as [Hc Hfr].
  destruct (fresh_then_chunks keccakf (alg_new a) chunks Hc Hfr) as (d1 & d2 & Hw & Hs & Hwf & _).
  exists d1, d2. rewrite (cfg_alg a (alg_new a) _ (same_cfg_refl _)) in Hs.
  split; [exact Hw|]. split; [exact Hs|exact Hwf].
Qed.

Lemma oneshot_sha3_256 x :
  ComputeSHA3_256 keccakf x = Ok (SHA3_256 x) /\
  exists d', computeHash keccakf NewSHA3_256 x = Ok (SHA3_256 x, d').
Proof.
  split; [apply (oneshot_spec keccakf x)|].
  destruct (compute_hash_history_independent SHA3_256_alg NewSHA3_256 x NewSHA3_256_wf (same_cfg_refl _))
    as (d' & H & _). exists d'. exact H.
Qed.
