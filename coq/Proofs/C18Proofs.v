(* C18: the combination of the checker soundness (Proofs/LocksProofs.v) and the
   simulation (Proofs/LocksSimProofs.v), and its instance for the regenerated
   skeletons of the threshold-signature object. *)
From Coq Require Import List String Bool Arith.
From V Require Import Model.Skel Model.Locks Proofs.LocksProofs Proofs.LocksSimProofs
     Generated.LockSkel Model.ThresholdLocks.
Import ListNotations.
Open Scope list_scope.

Lemma skeletons_check_true : skeletons_check = true.
Proof. vm_compute. reflexivity. Qed.

Lemma stateless_check_true : stateless_check = true.
Proof. vm_compute. reflexivity. Qed.

Section Atomic.
  Variables guarded immutable : list string.
  Variable P : list (string * stmt).
  Variable fuel : nat.
  Variable entries : list string.
  Hypothesis well_locked : chk_prog guarded immutable P fuel entries = true.

  Variables V L : Type.
  Variable rd : string -> V -> L -> L.
  Variable wr : string -> L -> V.
  Variable m0 : mem V.
  Variable progs : list (L * list act).
  Hypothesis progs_are_calls : Forall (fun p => ttrace P entries (snd p)) progs.

  Lemma progs_wl : Forall (fun p => wl_trace guarded immutable (snd p)) progs.
  Proof.
    eapply Forall_impl; [|exact progs_are_calls]. intros p T.
    eapply chk_prog_sound; eauto.
  Qed.

  Theorem atomic tr C :
    reach V L rd wr (init_cfg V L m0 progs) tr C ->
    (* writer excludes everybody (readers may share) *)
    (forall i j ti tj, nth_error (thr V L C) i = Some ti -> nth_error (thr V L C) j = Some tj -> i <> j ->
        md L ti = MW -> md L tj = MNone) /\
    (* no two threads are about to access the same field with one of them writing *)
    (forall i j ti tj a b ka kb f wb,
        nth_error (thr V L C) i = Some ti -> nth_error (thr V L C) j = Some tj -> i <> j ->
        code L ti = a :: ka -> code L tj = b :: kb ->
        guarded_access guarded a = Some (f, true) -> guarded_access guarded b = Some (f, wb) -> False) /\
    (* the same threads reach [abs C] by running every critical section as ONE step, in the
       order of the Lock/RLock events of the interleaved execution *)
    areach V L rd wr (init_cfg V L m0 progs) (atomic_trace tr) (abs V L rd wr C) /\
    (* and when all threads are done nothing is left to complete: same memory, same local states *)
    (finished V L C -> abs V L rd wr C = C).
  Proof.
    intro R.
    pose proof (init_inv guarded immutable V L m0 progs progs_wl) as I0.
    destruct (sim_reach guarded immutable V L rd wr _ _ _ I0 R) as [I AR].
    rewrite abs_init in AR.
    repeat split.
    - apply (inv_mutual_exclusion guarded immutable V L C I).
    - apply (inv_race_free guarded immutable V L C I).
    - exact AR.
    - apply finished_quiescent with (guarded := guarded) (immutable := immutable); exact I.
  Qed.
End Atomic.

(* instance: the extracted program *)
Lemma lock_skels_chk : chk_prog guarded_fields immutable_fields lock_skels lock_fuel lock_exported = true.
Proof.
  pose proof skeletons_check_true as H. unfold skeletons_check in H.
  apply andb_prop in H as [_ H]. exact H.
Qed.

(* path search for the non-vacuity examples *)
Ltac ex_path :=
  first [ apply ESkip | apply EAct | apply EDefer | apply EReturn
        | (eapply ECall; [reflexivity | ex_path])
        | (eapply ESeqN; [ex_path | ex_path])
        | (eapply ESeqR; ex_path)
        | (eapply EIfR; ex_path)
        | (eapply EIfL; ex_path)
        | apply ELoop0 ].
