(* C15, part 3: Permutation / SubPermutation / Samples / Shuffle.
   Each helper is "draw the choices with UintN, then apply a pure Fisher-Yates
   function of the choice vector"; the pure functions produce permutations and are
   injective in the choice vector. *)
From Coq Require Import ZArith NArith List Bool Lia ZifyN ZifyNat Permutation.
From V Require Import Lib.ListX Model.Rand Spec.RandSpec Proofs.RandUintN.
Import ListNotations.
Open Scope nat_scope.

(* ---------- slices ---------- *)

Lemma set_nth_lt {A} (v : A) : forall (l r : list A) k,
  k < length l -> set_nth k v (l ++ r) = Some (firstn k l ++ v :: skipn (S k) l ++ r).
Proof.
  induction l as [|x l IH]; intros r k H; [cbn in H; lia|].
  destruct k as [|k]; [reflexivity|]. cbn [app set_nth]. rewrite IH by (cbn in H; lia). reflexivity.
Qed.

Lemma set_nth_mid {A} (v x : A) : forall (l r : list A),
  set_nth (length l) v (l ++ x :: r) = Some (l ++ v :: r).
Proof.
  induction l as [|y l IH]; intro r; [reflexivity|]. cbn [length app set_nth]. rewrite IH. reflexivity.
Qed.

Lemma split_nth {A} (d : A) : forall (l : list A) k,
  k < length l -> l = firstn k l ++ nth k l d :: skipn (S k) l.
Proof.
  induction l as [|x l IH]; intros k H; [cbn in H; lia|].
  destruct k as [|k]; [reflexivity|]. cbn [firstn nth skipn app]. f_equal. apply IH. cbn in H; lia.
Qed.

Lemma set_nth_length {A} (v : A) : forall (l l' : list A) k, set_nth k v l = Some l' -> length l' = length l.
Proof.
  induction l as [|x l IH]; intros l' k H; [destruct k; discriminate|]. destruct k as [|k]; cbn in H.
  - inversion H. reflexivity.
  - destruct (set_nth k v l) eqn:E; [|discriminate]. inversion H. cbn. f_equal. eapply IH. exact E.
Qed.

(* ---------- sequences of draws ---------- *)

Fixpoint draws (ns : list N) (s : prg) : res (list N) :=
  match ns with
  | [] => Ok [] s
  | n :: r => bind (uintn n s) (fun j s1 => bind (draws r s1) (fun js s2 => Ok (j :: js) s2))
  end.

Definition arg_ok (n : N) : Prop := (0 < n /\ n < w64)%N.

Lemma uintn_cases n s :
  arg_ok n -> length (ubuf s) = 8 ->
  uintn n s = OutOfTape \/
  exists v s', uintn n s = Ok v s' /\ (v < n)%N /\ length (ubuf s') = 8 /\
               exists a, 1 <= a /\ length (tape s) = a * nbytes (n - 1) + length (tape s') /\
                         tape s' = skipn (a * nbytes (n - 1)) (tape s).
Proof.
  intros [Hn Hw] Hb. pose proof (uintn_never_out_of_fuel n s Hw Hb) as Hnf. unfold uintn in *.
  destruct (uintn_fuel_refines (S (length (tape s))) n s Hn Hw Hb) as [Hf Hbuf].
  destruct (uintn_fuel (S (length (tape s))) n s) as [v s'| | | |] eqn:E; cbn [forget buf_ok] in *;
    try discriminate; try contradiction.
  - right. exists v, s'. split; [reflexivity|]. inversion Hf as [Hs]. symmetry in Hs.
    split; [eapply spec_sample_range; exact Hs|]. split; [exact Hbuf|].
    apply spec_sample_consumes in Hs. destruct Hs as [a [Ha [Hl Hr]]]. exists a. repeat split; [lia|exact Hl|exact Hr].
  - left. reflexivity.
Qed.

Lemma draws_cases ns : forall s,
  Forall arg_ok ns -> length (ubuf s) = 8 ->
  draws ns s = OutOfTape \/
  exists js s', draws ns s = Ok js s' /\ Forall2 (fun n j => (j < n)%N) ns js /\ length (ubuf s') = 8.
Proof.
  induction ns as [|n r IH]; intros s HF Hb.
  - right. exists [], s. repeat split; [constructor|exact Hb].
  - inversion HF as [|? ? Hn Hr]; subst. cbn [draws].
    destruct (uintn_cases n s Hn Hb) as [->|[v [s1 [-> [Hv [Hb1 _]]]]]]; [left; reflexivity|].
    cbn [bind]. destruct (IH s1 Hr Hb1) as [->|[js [s2 [-> [HF2 Hb2]]]]]; [left; reflexivity|].
    right. exists (v :: js), s2. repeat split; [constructor; assumption|exact Hb2].
Qed.

Lemma draws_range ns s js s' :
  Forall arg_ok ns -> length (ubuf s) = 8 -> draws ns s = Ok js s' ->
  Forall2 (fun n j => (j < n)%N) ns js.
Proof.
  intros HF Hb H. destruct (draws_cases ns s HF Hb) as [E|[js' [s'' [E [HF2 _]]]]]; rewrite E in H;
    [discriminate|]. inversion H; subst. exact HF2.
Qed.

(* ---------- int / uint64 conversions in range ---------- *)

Lemma u64_of_int_small x : (0 <= x < Z.of_N w64)%Z -> u64_of_int x = Z.to_N x.
Proof. intro H. unfold u64_of_int. rewrite Z.mod_small by exact H. reflexivity. Qed.

Lemma int_of_u64_small j : (j < w63)%N -> int_of_u64 j = Z.of_N j.
Proof. intro H. unfold int_of_u64. apply N.ltb_lt in H. rewrite H. reflexivity. Qed.

(* ---------- inside-out Fisher-Yates ---------- *)

Definition zrange (n : nat) : list Z := map Z.of_nat (seq 0 n).

Lemma zrange_S n : zrange (S n) = zrange n ++ [Z.of_nat n].
Proof. unfold zrange. rewrite seq_S, map_app. reflexivity. Qed.

Lemma in_zrange n x : In x (zrange n) <-> (0 <= x < Z.of_nat n)%Z.
Proof.
  unfold zrange. rewrite in_map_iff. split.
  - intros [k [<- Hk]]. apply in_seq in Hk. lia.
  - intro H. exists (Z.to_nat x). split; [lia|]. apply in_seq. lia.
Qed.

Lemma io_step_perm P j : j <= length P -> Permutation (io_step P j) (Z.of_nat (length P) :: P).
Proof.
  intro H. unfold io_step. destruct (Nat.eqb_spec j (length P)) as [_|Hne].
  - symmetry. apply Permutation_cons_append.
  - assert (j < length P) as Hlt by lia. pose proof (split_nth 0%Z P j Hlt) as HP.
    set (iz := Z.of_nat (length P)). clearbody iz.
    set (A := firstn j P) in *. set (B := skipn (S j) P) in *. set (x := nth j P 0%Z) in *.
    clearbody A B x. subst P. symmetry. apply Permutation_cons_app.
    apply Permutation_app_head. apply Permutation_cons_append.
Qed.

Lemma io_step_length P j : j <= length P -> length (io_step P j) = S (length P).
Proof. intro H. apply io_step_perm in H. apply Permutation_length in H. exact H. Qed.

Lemma io_perm_from_perm js : forall P,
  io_valid (length P) js -> Permutation P (zrange (length P)) ->
  Permutation (io_perm_from P js) (zrange (length P + length js)) /\
  length (io_perm_from P js) = length P + length js.
Proof.
  induction js as [|j r IH]; intros P Hv HP.
  - cbn [io_perm_from length]. rewrite Nat.add_0_r. split; [exact HP|reflexivity].
  - cbn [io_perm_from length]. destruct Hv as [Hj Hr].
    pose proof (io_step_length P j Hj) as Hl.
    destruct (IH (io_step P j)) as [H1 H2].
    + rewrite Hl. exact Hr.
    + rewrite Hl, zrange_S. etransitivity; [apply io_step_perm; exact Hj|].
      etransitivity; [apply Permutation_cons_append|]. apply Permutation_app_tail. exact HP.
    + rewrite Hl in H1, H2. replace (length P + S (length r)) with (S (length P) + length r) by lia.
      split; assumption.
Qed.

Lemma io_perm_is_perm js :
  io_valid 0 js -> Permutation (io_perm js) (zrange (length js)) /\ length (io_perm js) = length js.
Proof. intro H. apply (io_perm_from_perm js []); [exact H|constructor]. Qed.

(* injectivity of one step and of the whole choice vector *)
Lemma app_cons_unique {A} (a : A) : forall l l' r r',
  ~ In a l -> ~ In a l' -> l ++ a :: r = l' ++ a :: r' -> l = l' /\ r = r'.
Proof.
  induction l as [|x l IH]; intros [|x' l'] r r' H1 H2 E; cbn in *.
  - inversion E. auto.
  - inversion E; subst. exfalso. apply H2. left. reflexivity.
  - inversion E; subst. exfalso. apply H1. left. reflexivity.
  - inversion E; subst. destruct (IH l' r r') as [-> ->]; auto.
Qed.

Lemma io_step_inj P P' j j' :
  length P = length P' -> j <= length P -> j' <= length P ->
  ~ In (Z.of_nat (length P)) P -> ~ In (Z.of_nat (length P)) P' ->
  io_step P j = io_step P' j' -> P = P' /\ j = j'.
Proof.
  intros Hl Hj Hj' Hn Hn' E. unfold io_step in E. rewrite <- Hl in E.
  set (iz := Z.of_nat (length P)) in *.
  destruct (Nat.eqb_spec j (length P)) as [->|Hne]; destruct (Nat.eqb_spec j' (length P)) as [->|Hne'].
  - apply app_inj_tail in E. destruct E as [-> _]. auto.
  - exfalso. replace (firstn j' P' ++ iz :: skipn (S j') P' ++ [nth j' P' 0%Z])
      with ((firstn j' P' ++ iz :: skipn (S j') P') ++ [nth j' P' 0%Z]) in E
      by (rewrite <- app_assoc; reflexivity).
    apply app_inj_tail in E. destruct E as [_ E]. apply Hn'. rewrite E. apply nth_In. lia.
  - exfalso. replace (firstn j P ++ iz :: skipn (S j) P ++ [nth j P 0%Z])
      with ((firstn j P ++ iz :: skipn (S j) P) ++ [nth j P 0%Z]) in E
      by (rewrite <- app_assoc; reflexivity).
    apply app_inj_tail in E. destruct E as [_ E]. apply Hn. rewrite <- E. apply nth_In. lia.
  - assert (j < length P) as Hlt by lia. assert (j' < length P') as Hlt' by lia.
    apply app_cons_unique in E.
    + destruct E as [E1 E2]. apply app_inj_tail in E2. destruct E2 as [E2 E3].
      assert (j = j') as <-.
      { apply (f_equal (@length Z)) in E1. rewrite !firstn_length in E1. lia. }
      split; [|reflexivity].
      rewrite (split_nth 0%Z P j Hlt), (split_nth 0%Z P' j Hlt'), E1, E2, E3. reflexivity.
    + intro H. apply Hn. rewrite <- (firstn_skipn j P). apply in_or_app. left. exact H.
    + intro H. apply Hn'. rewrite <- (firstn_skipn j' P'). apply in_or_app. left. exact H.
Qed.

Lemma not_in_perm_range P : Permutation P (zrange (length P)) -> ~ In (Z.of_nat (length P)) P.
Proof.
  intros HP H. apply (Permutation_in _ HP) in H. apply in_zrange in H. lia.
Qed.

Lemma io_perm_from_inj js : forall js' P P',
  length js = length js' -> length P = length P' ->
  io_valid (length P) js -> io_valid (length P) js' ->
  Permutation P (zrange (length P)) -> Permutation P' (zrange (length P)) ->
  io_perm_from P js = io_perm_from P' js' -> P = P' /\ js = js'.
Proof.
  induction js as [|j r IH]; intros [|j' r'] P P' Hjs Hl Hv Hv' HP HP' E; try discriminate.
  - cbn in E. auto.
  - cbn [io_perm_from] in E. destruct Hv as [Hj Hr]. destruct Hv' as [Hj' Hr'].
    pose proof (io_step_length P j Hj) as Hs.
    assert (length (io_step P' j') = S (length P)) as Hs' by (rewrite io_step_length; lia).
    assert (forall Q k, length Q = length P -> k <= length P -> Permutation Q (zrange (length P)) ->
                        Permutation (io_step Q k) (zrange (S (length P)))) as Hstep.
    { intros Q k HQ Hk HQP. rewrite zrange_S. etransitivity; [apply io_step_perm; lia|].
      rewrite HQ. etransitivity; [apply Permutation_cons_append|]. apply Permutation_app_tail. exact HQP. }
    destruct (IH r' (io_step P j) (io_step P' j')) as [E1 E2].
    + cbn in Hjs. lia.
    + congruence.
    + rewrite Hs. exact Hr.
    + rewrite Hs. exact Hr'.
    + rewrite Hs. apply Hstep; [reflexivity|exact Hj|exact HP].
    + rewrite Hs. apply Hstep; [lia|exact Hj'|exact HP'].
    + exact E.
    + apply io_step_inj in E1; [|exact Hl|exact Hj|exact Hj'| |].
      * destruct E1 as [-> ->]. rewrite E2. auto.
      * apply not_in_perm_range. exact HP.
      * rewrite Hl. apply not_in_perm_range. rewrite <- Hl. exact HP'.
Qed.

Lemma io_perm_inj js js' :
  length js = length js' -> io_valid 0 js -> io_valid 0 js' -> io_perm js = io_perm js' -> js = js'.
Proof.
  intros Hl Hv Hv' E. apply (io_perm_from_inj js js' [] []); auto; constructor.
Qed.

(* ---------- the model's Permutation is io_perm of the drawn choices ---------- *)

Definition perm_args (i cnt : nat) : list N := map (fun t => N.of_nat (S t)) (seq i cnt).

Lemma perm_args_ok i cnt : (Z.of_nat (i + cnt) < Z.of_N w63)%Z -> Forall arg_ok (perm_args i cnt).
Proof.
  intro H. unfold perm_args. rewrite Forall_map, Forall_forall. intros t Ht. apply in_seq in Ht.
  unfold arg_ok, w64, w63 in *. lia.
Qed.

Lemma perm_step (P Zs : list Z) (j : nat) :
  j <= length P ->
  exists x, nth_error (P ++ 0%Z :: Zs) j = Some x /\
            set_nth (length P) x (P ++ 0%Z :: Zs) = Some (P ++ x :: Zs) /\
            set_nth j (Z.of_nat (length P)) (P ++ x :: Zs) = Some (io_step P j ++ Zs).
Proof.
  intro Hj. unfold io_step. destruct (Nat.eqb_spec j (length P)) as [->|Hne].
  - exists 0%Z. split; [|split].
    + rewrite nth_error_app2 by lia. rewrite Nat.sub_diag. reflexivity.
    + apply set_nth_mid.
    + rewrite set_nth_mid. rewrite <- app_assoc. reflexivity.
  - assert (j < length P) as Hlt by lia. exists (nth j P 0%Z). split; [|split].
    + rewrite nth_error_app1 by exact Hlt. apply nth_error_nth'. exact Hlt.
    + apply set_nth_mid.
    + rewrite set_nth_lt by exact Hlt. f_equal. rewrite <- !app_assoc. cbn [app]. rewrite <- app_assoc. reflexivity.
Qed.

Lemma perm_loop_eq cnt : forall i P s,
  length P = i -> (Z.of_nat (i + cnt) < Z.of_N w63)%Z -> length (ubuf s) = 8 ->
  perm_loop cnt i (P ++ repeat 0%Z cnt) s =
    bind (draws (perm_args i cnt) s) (fun js s' => Ok (io_perm_from P (map N.to_nat js)) s').
Proof.
  induction cnt as [|cnt IH]; intros i P s Hl Hb Hbuf.
  - cbn. rewrite app_nil_r. reflexivity.
  - cbn [perm_loop repeat]. unfold perm_args. cbn [seq map draws]. fold (perm_args (S i) cnt).
    rewrite u64_of_int_small by (unfold w64, w63 in *; lia).
    replace (Z.to_N (Z.of_nat i + 1)) with (N.of_nat (S i)) by lia.
    assert (arg_ok (N.of_nat (S i))) as Harg by (unfold arg_ok, w64, w63 in *; lia).
    destruct (uintn_cases (N.of_nat (S i)) s Harg Hbuf) as [->|[v [s1 [-> [Hv [Hb1 _]]]]]]; [reflexivity|].
    cbn [bind]. destruct (perm_step P (repeat 0%Z cnt) (N.to_nat v)) as [x [E1 [E2 E3]]]; [lia|].
    rewrite E1. subst i. rewrite E2, E3.
    rewrite IH; [|apply io_step_length; lia|lia|exact Hb1].
    destruct (draws (perm_args (S (length P)) cnt) s1); reflexivity.
Qed.

Lemma permutation_eq n s :
  (0 <= n < Z.of_N w63)%Z -> length (ubuf s) = 8 ->
  permutation n s = bind (draws (perm_args 0 (Z.to_nat n)) s) (fun js s' => Ok (io_perm (map N.to_nat js)) s').
Proof.
  intros Hn Hb. unfold permutation. replace (n <? 0)%Z with false by (symmetry; apply Z.ltb_ge; lia).
  apply (perm_loop_eq (Z.to_nat n) 0 [] s); [reflexivity|lia|exact Hb].
Qed.

Lemma perm_choices_valid i cnt js :
  Forall2 (fun n j => (j < n)%N) (perm_args i cnt) js -> io_valid i (map N.to_nat js) /\ length js = cnt.
Proof.
  revert i js. induction cnt as [|cnt IH]; intros i js H; unfold perm_args in H; cbn [seq map] in H.
  - inversion H. cbn. auto.
  - inversion H as [|? j ? r Hj Hr]; subst. fold (perm_args (S i) cnt) in Hr. apply IH in Hr.
    destruct Hr as [Hr1 Hr2]. cbn. split; [split; [lia|exact Hr1]|lia].
Qed.

(* Permutation(n) returns exactly io_perm of a valid choice vector drawn from the tape *)
Lemma permutation_ok_inv n s items s' :
  (n < Z.of_N w63)%Z -> length (ubuf s) = 8 -> permutation n s = Ok items s' ->
  (0 <= n)%Z /\
  exists js, draws (perm_args 0 (Z.to_nat n)) s = Ok js s' /\
             io_valid 0 (map N.to_nat js) /\ length js = Z.to_nat n /\ items = io_perm (map N.to_nat js).
Proof.
  intros Hn Hb H. assert (0 <= n)%Z as Hn0.
  { unfold permutation in H. destruct (Z.ltb_spec n 0); [discriminate|assumption]. }
  split; [exact Hn0|]. rewrite permutation_eq in H by (try assumption; lia).
  destruct (draws (perm_args 0 (Z.to_nat n)) s) as [js s1| | | |] eqn:E; cbn [bind] in H; try discriminate.
  inversion H; subst. exists js. split; [reflexivity|].
  apply draws_range in E; [|apply perm_args_ok; lia|exact Hb].
  apply perm_choices_valid in E. destruct E as [E1 E2]. auto.
Qed.

Lemma permutation_is_perm n s items s' :
  (n < Z.of_N w63)%Z -> length (ubuf s) = 8 -> permutation n s = Ok items s' ->
  Permutation items (zrange (Z.to_nat n)) /\ length items = Z.to_nat n.
Proof.
  intros Hn Hb H. apply permutation_ok_inv in H; [|assumption|assumption].
  destruct H as [_ [js [_ [Hv [Hl ->]]]]]. destruct (io_perm_is_perm _ Hv) as [H1 H2].
  rewrite map_length in *. rewrite Hl in *. auto.
Qed.

Lemma NoDup_zrange n : NoDup (zrange n).
Proof.
  unfold zrange. apply FinFun.Injective_map_NoDup; [|apply seq_NoDup]. intros x y H. lia.
Qed.

Lemma NoDup_firstn {A} (l : list A) m : NoDup l -> NoDup (firstn m l).
Proof.
  intro H. rewrite <- (firstn_skipn m l) in H. revert H. generalize (firstn m l) as a. generalize (skipn m l) as b.
  intros b a. induction a as [|x a IH]; intro H; [constructor|]. cbn in H. inversion H; subst. constructor.
  - intro Hin. apply H2. apply in_or_app. left. exact Hin.
  - apply IH. assumption.
Qed.

Lemma subpermutation_ok_inv n m s l s' :
  (n < Z.of_N w63)%Z -> length (ubuf s) = 8 -> subpermutation n m s = Ok l s' ->
  (0 <= m <= n)%Z /\ length l = Z.to_nat m /\ NoDup l /\ Forall (fun x => (0 <= x < n)%Z) l /\
  exists items, permutation n s = Ok items s' /\ l = firstn (Z.to_nat m) items.
Proof.
  intros Hn Hb H. unfold subpermutation in H.
  destruct (Z.ltb_spec m 0) as [|Hm]; [discriminate|]. destruct (Z.ltb_spec n m) as [|Hnm]; [discriminate|].
  split; [lia|].
  destruct (permutation n s) as [items s1|e| | |] eqn:E; try discriminate.
  - pose proof (permutation_is_perm n s items s1 Hn Hb E) as [HP HL].
    replace (Nat.leb (Z.to_nat m) (length items)) with true in H by (symmetry; apply Nat.leb_le; lia).
    inversion H; subst. split; [apply firstn_length_le; lia|]. split; [|split].
    + apply NoDup_firstn. eapply Permutation_NoDup; [symmetry; exact HP|apply NoDup_zrange].
    + rewrite Forall_forall. intros x Hx.
      assert (In x items) as Hin.
      { rewrite <- (firstn_skipn (Z.to_nat m) items). apply in_or_app. left. exact Hx. }
      apply (Permutation_in _ HP) in Hin. apply in_zrange in Hin. lia.
    + exists items. auto.
  - exfalso. rewrite permutation_eq in E by (try exact Hb; lia).
    destruct (draws_cases (perm_args 0 (Z.to_nat n)) s) as [E'|[js [s2 [E' _]]]];
      [apply perm_args_ok; lia|exact Hb| |]; rewrite E' in E; discriminate.
Qed.

(* ---------- swaps ---------- *)

Lemma swapo_SS {A} a b (z : A) l : swapo (S a) (S b) (z :: l) = option_map (cons z) (swapo a b l).
Proof.
  unfold swapo. cbn [nth_error]. destruct (nth_error l a) as [x|]; [|reflexivity].
  destruct (nth_error l b) as [y|]; [|reflexivity]. cbn [set_nth].
  destruct (set_nth a y l) as [l1|]; [|reflexivity]. cbn [set_nth option_map].
  destruct (set_nth b x l1); reflexivity.
Qed.

Lemma set_nth_perm {A} (x y : A) : forall r k r',
  nth_error r k = Some y -> set_nth k x r = Some r' -> Permutation (x :: r) (y :: r').
Proof.
  induction r as [|z r IH]; intros k r' H1 H2; [destruct k; discriminate|].
  destruct k as [|k]; cbn in *.
  - inversion H1; inversion H2; subst. apply perm_swap.
  - destruct (set_nth k x r) as [t|] eqn:E; [|discriminate]. inversion H2; subst.
    etransitivity; [apply perm_swap|]. etransitivity; [|apply perm_swap]. apply perm_skip. eapply IH; eassumption.
Qed.

Lemma swapo_0 {A} b (x : A) l l' :
  swapo 0 b (x :: l) = Some l' ->
  exists y t, l' = y :: t /\ nth_error (x :: l) b = Some y /\ Permutation (x :: l) (y :: t).
Proof.
  unfold swapo. cbn [nth_error]. destruct (nth_error (x :: l) b) as [y|] eqn:E; [|discriminate].
  cbn [set_nth]. destruct b as [|b]; cbn in *.
  - inversion E; subst. intro H; inversion H; subst. exists y, l. auto.
  - destruct (set_nth b x l) as [t|] eqn:E2; [|discriminate]. intro H; inversion H; subst.
    exists y, t. split; [reflexivity|]. split; [reflexivity|]. eapply set_nth_perm; eassumption.
Qed.

Lemma swapo_perm {A} : forall (l : list A) a b l', swapo a b l = Some l' -> Permutation l l'.
Proof.
  induction l as [|z l IH]; intros a b l' H.
  - unfold swapo in H. destruct a; discriminate.
  - destruct a as [|a].
    + apply swapo_0 in H. destruct H as [y [t [-> [_ HP]]]]. exact HP.
    + destruct b as [|b].
      * (* symmetric case *)
        unfold swapo in H. cbn [nth_error] in H. destruct (nth_error l a) as [x|] eqn:E; [|discriminate].
        cbn [set_nth] in H. destruct (set_nth a z l) as [t|] eqn:E2; [|discriminate].
        cbn [set_nth] in H. inversion H; subst. eapply set_nth_perm; eassumption.
      * rewrite swapo_SS in H. destruct (swapo a b l) as [t|] eqn:E; [|discriminate].
        inversion H; subst. apply perm_skip. eapply IH. exact E.
Qed.

Lemma set_nth_some {A} (v : A) l k : k < length l -> exists l', set_nth k v l = Some l'.
Proof.
  intro H. pose proof (set_nth_lt v l [] k H) as E. rewrite app_nil_r in E. eexists. exact E.
Qed.

Lemma swapo_some {A} (l : list A) a b : a < length l -> b < length l -> exists l', swapo a b l = Some l'.
Proof.
  intros Ha Hb. unfold swapo.
  destruct (nth_error l a) as [x|] eqn:E1; [|apply nth_error_None in E1; lia].
  destruct (nth_error l b) as [y|] eqn:E2; [|apply nth_error_None in E2; lia].
  destruct (set_nth_some y l a Ha) as [l1 E3]. rewrite E3.
  apply set_nth_some. rewrite (set_nth_length _ _ _ _ E3). exact Hb.
Qed.

Fixpoint apply_swaps_o {A} (sw : list (nat * nat)) (l : list A) : option (list A) :=
  match sw with
  | [] => Some l
  | (a, b) :: r => match swapo a b l with Some l' => apply_swaps_o r l' | None => None end
  end.

Definition zpairs (sw : list (nat * nat)) : list (Z * Z) :=
  map (fun p => (Z.of_nat (fst p), Z.of_nat (snd p))) sw.

Lemma apply_swaps_zpairs {A} sw : forall (l : list A), apply_swaps (zpairs sw) l = apply_swaps_o sw l.
Proof.
  induction sw as [|[a b] r IH]; intro l; [reflexivity|]. cbn [zpairs map apply_swaps apply_swaps_o fst snd].
  unfold swap_list. replace (Z.of_nat a <? 0)%Z with false by (symmetry; apply Z.ltb_ge; lia).
  replace (Z.of_nat b <? 0)%Z with false by (symmetry; apply Z.ltb_ge; lia). cbn [orb].
  rewrite !Nat2Z.id. destruct (swapo a b l); [apply IH|reflexivity].
Qed.

Lemma apply_valid_perm {A} n js : forall i (l : list A),
  fy_valid n i js -> length l = n ->
  exists l', apply_swaps_o (swaps_of i js) l = Some l' /\ Permutation l l'.
Proof.
  induction js as [|j r IH]; intros i l Hv Hl.
  - exists l. split; [reflexivity|apply Permutation_refl].
  - destruct Hv as [Hj Hr]. cbn [swaps_of apply_swaps_o].
    destruct (swapo_some l i (i + j)) as [l1 E]; [lia|lia|]. rewrite E.
    pose proof (swapo_perm _ _ _ _ E) as HP.
    destruct (IH (S i) l1 Hr) as [l' [E' HP']]; [rewrite <- (Permutation_length HP); exact Hl|].
    exists l'. split; [exact E'|]. etransitivity; eassumption.
Qed.

Lemma apply_swaps_shift {A} (y : A) js : forall i l,
  apply_swaps_o (swaps_of (S i) js) (y :: l) = option_map (cons y) (apply_swaps_o (swaps_of i js) l).
Proof.
  induction js as [|j r IH]; intros i l; [reflexivity|].
  cbn [swaps_of apply_swaps_o]. replace (S i + j) with (S (i + j)) by lia. rewrite swapo_SS.
  destruct (swapo i (i + j) l) as [l1|]; [|reflexivity]. cbn [option_map]. apply IH.
Qed.

Lemma fy_valid_shift n js : forall i, fy_valid (S n) (S i) js <-> fy_valid n i js.
Proof.
  induction js as [|j r IH]; intro i; cbn [fy_valid]; [tauto|]. rewrite IH. split; intros [H1 H2]; split; auto; lia.
Qed.

(* the ordered sample (first m positions) determines the choice vector *)
Lemma fy_choices_inj {A} js : forall js' n (L R R' : list A),
  NoDup L -> length L = n -> fy_valid n 0 js -> fy_valid n 0 js' -> length js = length js' ->
  apply_swaps_o (swaps_of 0 js) L = Some R -> apply_swaps_o (swaps_of 0 js') L = Some R' ->
  firstn (length js) R = firstn (length js) R' -> js = js'.
Proof.
  induction js as [|j r IH]; intros [|j' r'] n L R R' HND HL Hv Hv' Hlen HR HR' HF; try discriminate; [reflexivity|].
  destruct Hv as [Hj Hr]. destruct Hv' as [Hj' Hr'].
  destruct L as [|x L]; [cbn in HL; lia|].
  cbn [swaps_of apply_swaps_o] in HR, HR'. cbn [Nat.add] in HR, HR'.
  destruct (swapo 0 j (x :: L)) as [L1|] eqn:E1; [|discriminate].
  destruct (swapo 0 j' (x :: L)) as [L1'|] eqn:E1'; [|discriminate].
  destruct (swapo_0 _ _ _ _ E1) as [y [t [-> [Hy HP]]]].
  destruct (swapo_0 _ _ _ _ E1') as [y' [t' [-> [Hy' HP']]]].
  rewrite apply_swaps_shift in HR, HR'.
  destruct (apply_swaps_o (swaps_of 0 r) t) as [R0|] eqn:ER; [|discriminate].
  destruct (apply_swaps_o (swaps_of 0 r') t') as [R0'|] eqn:ER'; [|discriminate].
  cbn [option_map] in HR, HR'. inversion HR; inversion HR'; subst R R'.
  cbn [length firstn] in HF. inversion HF as [[Hyy HF0]]. subst y'.
  assert (j = j') as <-.
  { pose proof (proj1 (NoDup_nth_error (x :: L)) HND j j') as Hinj. apply Hinj; [lia|congruence]. }
  assert (t = t') as <-.
  { (* same swap on the same list *) rewrite E1 in E1'. inversion E1'. reflexivity. }
  f_equal. destruct n as [|n]; [lia|].
  eapply (IH r' n t R0 R0').
  - apply (Permutation_NoDup HP) in HND. inversion HND. assumption.
  - apply Permutation_length in HP. cbn in HP, HL. lia.
  - apply fy_valid_shift. exact Hr.
  - apply fy_valid_shift. exact Hr'.
  - cbn in Hlen. lia.
  - exact ER.
  - exact ER'.
  - exact HF0.
Qed.

(* ---------- the model's Samples / Shuffle ---------- *)

Definition samp_args (n : Z) (i cnt : nat) : list N := map (fun t => Z.to_N (n - Z.of_nat t)) (seq i cnt).

Lemma samp_args_ok n i cnt :
  (Z.of_nat (i + cnt) <= n < Z.of_N w63)%Z -> Forall arg_ok (samp_args n i cnt).
Proof.
  intro H. unfold samp_args. rewrite Forall_map, Forall_forall. intros t Ht. apply in_seq in Ht.
  unfold arg_ok, w64, w63 in *. lia.
Qed.

Lemma samples_loop_eq n cnt : forall i s,
  (Z.of_nat (i + cnt) <= n < Z.of_N w63)%Z -> length (ubuf s) = 8 ->
  samples_loop cnt n i s =
    bind (draws (samp_args n i cnt) s) (fun js s' => Ok (zpairs (swaps_of i (map N.to_nat js))) s').
Proof.
  induction cnt as [|cnt IH]; intros i s Hb Hbuf; [reflexivity|].
  cbn [samples_loop]. unfold samp_args. cbn [seq map draws]. fold (samp_args n (S i) cnt).
  rewrite u64_of_int_small by (unfold w64, w63 in *; lia).
  assert (arg_ok (Z.to_N (n - Z.of_nat i))) as Harg by (unfold arg_ok, w64, w63 in *; lia).
  destruct (uintn_cases _ s Harg Hbuf) as [->|[v [s1 [-> [Hv [Hb1 _]]]]]]; [reflexivity|].
  cbn [bind]. rewrite IH by (try exact Hb1; lia).
  destruct (draws (samp_args n (S i) cnt) s1) as [js s2| | | |]; try reflexivity.
  cbn [bind map swaps_of zpairs fst snd]. f_equal.
  rewrite int_of_u64_small by (unfold w63 in *; lia). f_equal. f_equal. lia.
Qed.

Lemma samp_choices_valid n i cnt js :
  (Z.of_nat (i + cnt) <= n)%Z ->
  Forall2 (fun a j => (j < a)%N) (samp_args n i cnt) js ->
  fy_valid (Z.to_nat n) i (map N.to_nat js) /\ length js = cnt.
Proof.
  revert i js. induction cnt as [|cnt IH]; intros i js Hb H; unfold samp_args in H; cbn [seq map] in H.
  - inversion H. cbn. auto.
  - inversion H as [|? j ? r Hj Hr]; subst. fold (samp_args n (S i) cnt) in Hr. apply IH in Hr; [|lia].
    destruct Hr as [Hr1 Hr2]. cbn. split; [split; [lia|exact Hr1]|lia].
Qed.

Lemma samples_ok_inv n m s sw s' :
  (n < Z.of_N w63)%Z -> length (ubuf s) = 8 -> samples n m s = Ok sw s' ->
  (0 <= m <= n)%Z /\
  exists js, draws (samp_args n 0 (Z.to_nat m)) s = Ok js s' /\
             fy_valid (Z.to_nat n) 0 (map N.to_nat js) /\ length js = Z.to_nat m /\
             sw = zpairs (swaps_of 0 (map N.to_nat js)).
Proof.
  intros Hn Hb H. unfold samples in H.
  destruct (Z.ltb_spec m 0) as [|Hm]; [discriminate|]. destruct (Z.ltb_spec n m) as [|Hnm]; [discriminate|].
  split; [lia|]. rewrite samples_loop_eq in H by (try exact Hb; lia).
  destruct (draws (samp_args n 0 (Z.to_nat m)) s) as [js s1| | | |] eqn:E; cbn [bind] in H; try discriminate.
  inversion H; subst. exists js. split; [reflexivity|].
  apply draws_range in E; [|apply samp_args_ok; lia|exact Hb].
  apply samp_choices_valid in E; [|lia]. destruct E as [E1 E2]. auto.
Qed.

(* shape of the swap sequence: the i-th call is swap(i, i + j_i) with i <= i + j_i < n *)
Lemma swaps_of_shape n js : forall i k a b,
  fy_valid n i js -> nth_error (swaps_of i js) k = Some (a, b) -> a = i + k /\ a <= b < n.
Proof.
  induction js as [|j r IH]; intros i k a b Hv H; [destruct k; discriminate|].
  destruct Hv as [Hj Hr]. destruct k as [|k]; cbn in H.
  - inversion H; subst. lia.
  - apply (IH (S i)) in H; [|exact Hr]. lia.
Qed.

Lemma swaps_of_length i js : length (swaps_of i js) = length js.
Proof. revert i. induction js as [|j r IH]; intro i; cbn; [reflexivity|rewrite IH; reflexivity]. Qed.

(* ---------- never an error / panic on valid arguments ---------- *)

Lemma bind_draws_cases {B} ns s (f : list N -> B) :
  Forall arg_ok ns -> length (ubuf s) = 8 ->
  bind (draws ns s) (fun js s' => Ok (f js) s') = OutOfTape \/
  exists js s', bind (draws ns s) (fun js s' => Ok (f js) s') = Ok (f js) s'.
Proof.
  intros HF Hb. destruct (draws_cases ns s HF Hb) as [->|[js [s' [-> _]]]]; [left; reflexivity|].
  right. exists js, s'. reflexivity.
Qed.
