(* Non-vacuity: the hypotheses bundled in [bilinear] and [codecs] are satisfiable.
   Smallest instance: scalars F_2 (a field, hence integral), trivial torsion. *)
From Coq Require Import ZArith NArith List Bool Ring.
From V Require Import Lib.Hex Spec.Bilinear Generated.Consts Model.BlsAbs.
Import ListNotations.

Definition unit_eqb (a b : unit) : bool := true.
Lemma unit_eqb_spec a b : reflect (a = b) (unit_eqb a b).
Proof. destruct a, b. constructor. reflexivity. Qed.
Lemma bool_eqb_spec a b : reflect (a = b) (Bool.eqb a b).
Proof. destruct a, b; constructor; congruence. Qed.
Lemma bool_integral a b : andb a b = false -> a = false \/ b = false.
Proof. destruct a, b; auto. Qed.

#[export] Instance F2 : bilinear := {|
  F := bool; f0 := false; f1 := true; fadd := xorb; fmul := andb; fsub := xorb; fopp := fun b => b;
  feqb := Bool.eqb; Fring := BoolTheory; feqb_spec := bool_eqb_spec; F_integral := bool_integral;
  T1 := unit; t1_0 := tt; t1_add := fun _ _ => tt; t1_smul := fun _ _ => tt; t1_eqb := unit_eqb;
  t1_eqb_spec := unit_eqb_spec;
  t1_add_0_l := fun a => match a with tt => eq_refl end;
  t1_add_comm := fun _ _ => eq_refl; t1_add_assoc := fun _ _ _ => eq_refl; t1_smul_0 := fun _ => eq_refl;
  T2 := unit; t2_0 := tt; t2_add := fun _ _ => tt; t2_smul := fun _ _ => tt; t2_eqb := unit_eqb;
  t2_eqb_spec := unit_eqb_spec;
  t2_add_0_l := fun a => match a with tt => eq_refl end;
  t2_add_comm := fun _ _ => eq_refl; t2_add_assoc := fun _ _ _ => eq_refl; t2_smul_0 := fun _ => eq_refl;
  junk := fun _ _ => false;
|}.

Definition encb (k : nat) (P : bool * unit) : list N := repeat 0%N (k - 1) ++ [if fst P then 1%N else 0%N].
Definition decb (k : nat) (b : list N) : option (bool * unit) :=
  if bytes_eqb b (encb k (true, tt)) then Some (true, tt)
  else if bytes_eqb b (encb k (false, tt)) then Some (false, tt) else None.

Lemma decb_canonical k b P : decb k b = Some P -> encb k P = b.
Proof.
  unfold decb. destruct (bytes_eqb b (encb k (true, tt))) eqn:E1.
  - intro H; inversion H; subst. symmetry. now apply bytes_eqb_eq.
  - destruct (bytes_eqb b (encb k (false, tt))) eqn:E2; [|discriminate].
    intro H; inversion H; subst. symmetry. now apply bytes_eqb_eq.
Qed.
Lemma bytes_eqb_refl b : bytes_eqb b b = true.
Proof. now apply bytes_eqb_eq. Qed.
Lemma decb_encb k P : decb k (encb k P) = Some P.
Proof.
  destruct P as [[|] []]; unfold decb.
  - now rewrite bytes_eqb_refl.
  - destruct (bytes_eqb (encb k (false, tt)) (encb k (true, tt))) eqn:E.
    + apply bytes_eqb_eq in E. unfold encb in E. apply app_inj_tail in E as [_ E]. discriminate.
    + now rewrite bytes_eqb_refl.
Qed.
Lemma encb_len k P : (0 < k)%nat -> List.length (encb k P) = k.
Proof. intro H. unfold encb. rewrite app_length, repeat_length. cbn. apply Nat.sub_add. exact H. Qed.

Lemma g1_ser_pos : (0 < Z.to_nat C_G1_SER_BYTES)%nat. Proof. vm_compute. repeat constructor. Qed.
Lemma g2_ser_pos : (0 < Z.to_nat C_G2_SER_BYTES)%nat. Proof. vm_compute. repeat constructor. Qed.

#[export] Instance F2codecs : codecs := {|
  enc1 := encb (Z.to_nat C_G1_SER_BYTES); dec1 := decb (Z.to_nat C_G1_SER_BYTES);
  dec1_canonical := decb_canonical _; dec1_enc1 := decb_encb _;
  enc1_len := fun P => encb_len _ P g1_ser_pos;
  enc2 := encb (Z.to_nat C_G2_SER_BYTES); dec2 := decb (Z.to_nat C_G2_SER_BYTES);
  dec2_canonical := decb_canonical _; dec2_enc2 := decb_encb _;
  enc2_len := fun P => encb_len _ P g2_ser_pos;
|}.
