(* Lemmas for property C12 (Model/Keygen.v). *)
From Coq Require Import ZArith NArith List Bool Lia Zdiv Morphisms Setoid.
From V Require Import Lib.BytesZ Prim.Sha256 Spec.HkdfSpec Spec.KeygenSpec Generated.Consts Model.Keygen.
Import ListNotations.
Open Scope Z_scope.

(* ---------- facts about the constants (checked by computation) ---------- *)
Lemma bls_r_pos : 0 < bls_r.
Proof. reflexivity. Qed.

Lemma mont_R_bytes : mont_R = 256 ^ Z.of_nat Fr_BYTES.
Proof. vm_compute. reflexivity. Qed.

Lemma mont_Rinv_ok : eqm bls_r (mont_R * mont_Rinv) 1.
Proof. vm_compute. reflexivity. Qed.

Lemma mont_RR_ok : eqm bls_r (BLS12_381_rRR * mont_Rinv) mont_R.
Proof. vm_compute. reflexivity. Qed.

Lemma spec_r_eq : spec_r = bls_r.
Proof. reflexivity. Qed.

Lemma Fr_BYTES_val : Fr_BYTES = 32%nat.
Proof. reflexivity. Qed.

(* ---------- Fr_from_be_bytes = OS2IP mod r ---------- *)
Local Notation "a == b" := (eqm bls_r a b) (at level 70).

#[local] Instance eqm_r_equiv : Equivalence (eqm bls_r) := eqm_setoid bls_r.
#[local] Instance eqm_r_add : Proper (eqm bls_r ==> eqm bls_r ==> eqm bls_r) Z.add := Zplus_eqm bls_r.
#[local] Instance eqm_r_mul : Proper (eqm bls_r ==> eqm bls_r ==> eqm bls_r) Z.mul := Zmult_eqm bls_r.
#[local] Instance eqm_r_sub : Proper (eqm bls_r ==> eqm bls_r ==> eqm bls_r) Z.sub := Zminus_eqm bls_r.

Lemma eqm_mod a : a mod bls_r == a.
Proof. apply Zmod_eqm. Qed.

Lemma Fr_mul_montg_eqm a b : Fr_mul_montg a b == a * b * mont_Rinv.
Proof. apply eqm_mod. Qed.
Lemma Fr_add_eqm a b : Fr_add a b == a + b.
Proof. apply eqm_mod. Qed.
Lemma Fr_from_montg_eqm a : Fr_from_montg a == a * mont_Rinv.
Proof. apply eqm_mod. Qed.

Lemma bls_r_lt_R : bls_r < mont_R.
Proof. vm_compute. reflexivity. Qed.

Global Opaque bls_r mont_R mont_Rinv BLS12_381_rRR Fr_mul_montg Fr_add Fr_from_montg.

Lemma os2ip_split k inp :
  (k <= length inp)%nat ->
  os2ip inp = os2ip (firstn k inp) * 256 ^ Z.of_nat (length inp - k) + os2ip (skipn k inp).
Proof.
  intro H. rewrite <- (firstn_skipn k inp) at 1. rewrite os2ip_app, skipn_length. reflexivity.
Qed.

Lemma fr_loop_inv fuel : forall inp out radix,
  let '(out', radix', rest) := fr_loop fuel inp out radix in
  out' + os2ip rest * radix' * mont_Rinv == out + os2ip inp * radix * mont_Rinv.
Proof.
  induction fuel as [|f IH]; intros inp out radix.
  - cbn [fr_loop]. reflexivity.
  - cbn [fr_loop]. destruct (Nat.ltb Fr_BYTES (length inp)) eqn:E.
    + apply Nat.ltb_lt in E.
      set (k := (length inp - Fr_BYTES)%nat).
      specialize (IH (firstn k inp)
                     (Fr_add out (Fr_mul_montg (limbs_from_be_bytes (skipn k inp)) radix))
                     (Fr_mul_montg radix BLS12_381_rRR)).
      destruct (fr_loop f _ _ _) as [[out' radix'] rest].
      etransitivity; [exact IH|]. clear IH.
      unfold limbs_from_be_bytes.
      rewrite (os2ip_split k inp) by (unfold k; lia).
      replace (length inp - k)%nat with Fr_BYTES by (unfold k; lia).
      rewrite <- mont_R_bytes.
      rewrite Fr_add_eqm, !Fr_mul_montg_eqm.
      set (pre := os2ip (firstn k inp)). set (suf := os2ip (skipn k inp)).
      transitivity (out + suf * radix * mont_Rinv + pre * radix * mont_Rinv * (BLS12_381_rRR * mont_Rinv)).
      { replace (out + suf * radix * mont_Rinv + pre * (radix * BLS12_381_rRR * mont_Rinv) * mont_Rinv)
          with (out + suf * radix * mont_Rinv + pre * radix * mont_Rinv * (BLS12_381_rRR * mont_Rinv)) by ring.
        reflexivity. }
      rewrite mont_RR_ok.
      replace (out + suf * radix * mont_Rinv + pre * radix * mont_Rinv * mont_R)
        with (out + (pre * mont_R + suf) * radix * mont_Rinv) by ring.
      reflexivity.
    + reflexivity.
Qed.

Lemma Fr_from_be_bytes_eqm inp : Fr_from_be_bytes inp == os2ip inp.
Proof.
  unfold Fr_from_be_bytes.
  pose proof (fr_loop_inv (length inp) inp 0 BLS12_381_rRR) as H.
  destruct (fr_loop _ _ _ _) as [[out radix] rest].
  unfold limbs_from_be_bytes.
  rewrite Fr_from_montg_eqm, Fr_add_eqm, Fr_mul_montg_eqm, H.
  replace ((0 + os2ip inp * BLS12_381_rRR * mont_Rinv) * mont_Rinv)
    with (os2ip inp * (BLS12_381_rRR * mont_Rinv) * mont_Rinv) by ring.
  rewrite mont_RR_ok.
  replace (os2ip inp * mont_R * mont_Rinv) with (os2ip inp * (mont_R * mont_Rinv)) by ring.
  rewrite mont_Rinv_ok. replace (os2ip inp * 1) with (os2ip inp) by ring. reflexivity.
Qed.

Lemma Fr_from_montg_range a : 0 <= Fr_from_montg a < bls_r.
Proof.
  Transparent Fr_from_montg. unfold Fr_from_montg. Opaque Fr_from_montg.
  apply Z.mod_pos_bound. exact bls_r_pos.
Qed.

Lemma Fr_from_be_bytes_range inp : 0 <= Fr_from_be_bytes inp < bls_r.
Proof.
  unfold Fr_from_be_bytes. destruct (fr_loop _ _ _ _) as [[out radix] rest].
  apply Fr_from_montg_range.
Qed.

Lemma Fr_from_be_bytes_spec inp : Fr_from_be_bytes inp = os2ip inp mod bls_r.
Proof.
  pose proof (Fr_from_be_bytes_eqm inp) as H. unfold eqm in H.
  rewrite <- H. symmetry. apply Z.mod_small. apply Fr_from_be_bytes_range.
Qed.

Lemma mapToFr_spec src :
  src <> [] -> mapToFr src = KOk (os2ip src mod bls_r, os2ip src mod bls_r =? 0).
Proof.
  intro H. destruct src as [|x s]; [congruence|].
  unfold mapToFr, map_bytes_to_Fr. rewrite Fr_from_be_bytes_spec. reflexivity.
Qed.

Lemma mapToFr_empty : mapToFr [] = KPanic.
Proof. reflexivity. Qed.

(* ---------- lengths of the hash / HKDF outputs ---------- *)
Lemma sha256_length m : length (sha256 m) = 32%nat.
Proof.
  unfold sha256. destruct (blocks _ _ _) as [[[[[[[a b] c] d] e] f] g] h]. reflexivity.
Qed.

Lemma hmac_length k t : length (hmac_sha256 k t) = 32%nat.
Proof. unfold hmac_sha256. apply sha256_length. Qed.

Lemma hkdf_T_length prk info n : forall i prev, length (hkdf_T prk info n i prev) = (32 * n)%nat.
Proof.
  induction n as [|n IH]; intros i prev; [reflexivity|].
  cbn [hkdf_T]. rewrite app_length, hmac_length, IH. lia.
Qed.

Lemma hkdf_length ikm salt info L okm :
  hkdf ikm salt info L = Some okm -> length okm = L.
Proof.
  unfold hkdf, hkdf_expand.
  assert (HL : (L <= 32 * (Nat.div (L + hash_len - 1) hash_len))%nat).
  { unfold hash_len. pose proof (Nat.div_mod (L + 32 - 1) 32). pose proof (Nat.mod_upper_bound (L + 32 - 1) 32). lia. }
  revert HL. generalize (Nat.div (L + hash_len - 1) hash_len). intros n HL.
  destruct (Nat.ltb _ L) eqn:E; [discriminate|].
  intro H. injection H as H. subst okm. rewrite firstn_length, hkdf_T_length. lia.
Qed.

Lemma hkdf_some ikm salt info L : (L <= 255 * 32)%nat -> exists okm, hkdf ikm salt info L = Some okm.
Proof.
  intro H. unfold hkdf, hkdf_expand. unfold hash_len.
  destruct (Nat.ltb (255 * 32) L) eqn:E.
  - apply Nat.ltb_lt in E. lia.
  - eexists. reflexivity.
Qed.

(* ---------- BLS key generation ---------- *)
Lemma bls_okmLength_val : bls_okmLength = 48%nat.
Proof. reflexivity. Qed.

Lemma bls_loop_in_range fuel : forall secret info salt k,
  bls_loop fuel secret info salt = KOk k -> 1 <= k < bls_r.
Proof.
  induction fuel as [|f IH]; intros secret info salt k; cbn [bls_loop]; [discriminate|].
  destruct (hkdf secret salt info bls_okmLength) as [okm|] eqn:Eh; [|discriminate].
  destruct okm as [|x okm'].
  - cbn. discriminate.
  - rewrite mapToFr_spec by discriminate.
    destruct (os2ip (x :: okm') mod bls_r =? 0) eqn:Ez.
    + apply IH.
    + intro H. inversion H; subst. apply Z.eqb_neq in Ez.
      pose proof (Z.mod_pos_bound (os2ip (x :: okm')) bls_r bls_r_pos). lia.
Qed.

Lemma bls_keygen_in_range fuel ikm k :
  bls_generatePrivateKey fuel ikm = KOk k -> 1 <= k < bls_r.
Proof.
  unfold bls_generatePrivateKey. destruct (seed_len_bad _); [discriminate|].
  apply bls_loop_in_range.
Qed.

(* the loop never errs or panics: the only outcomes are a key or fuel exhaustion *)
Lemma bls_loop_outcome fuel : forall secret info salt,
  (exists k, bls_loop fuel secret info salt = KOk k) \/ bls_loop fuel secret info salt = KOutOfFuel.
Proof.
  induction fuel as [|f IH]; intros secret info salt; cbn [bls_loop]; [right; reflexivity|].
  destruct (hkdf_some secret salt info bls_okmLength) as [okm Ho]; [rewrite bls_okmLength_val; lia|].
  rewrite Ho. pose proof (hkdf_length _ _ _ _ _ Ho) as Hl.
  destruct okm as [|x okm']; [rewrite bls_okmLength_val in Hl; discriminate|].
  rewrite mapToFr_spec by discriminate.
  destruct (_ =? 0); [apply IH|left; eexists; reflexivity].
Qed.

(* ---------- the model of the code computes the IETF KeyGen ---------- *)
Lemma bls_loop_eq_spec fuel : forall ikm salt,
  match bls_loop fuel (ikm ++ [0%N]) [0%N; 48%N] (sha256 salt) with
  | KOk k => bls_spec_loop fuel ikm salt = Some k
  | KOutOfFuel => bls_spec_loop fuel ikm salt = None
  | _ => False
  end.
Proof.
  induction fuel as [|f IH]; intros ikm salt; cbn [bls_loop bls_spec_loop]; [reflexivity|].
  unfold hkdf at 1. rewrite bls_okmLength_val. change spec_L with 48%nat.
  destruct (hkdf_some (ikm ++ [0%N]) (sha256 salt) [0%N; 48%N] 48) as [okm Ho]; [lia|].
  pose proof (hkdf_length _ _ _ _ _ Ho) as Hl. unfold hkdf in Ho.
  assert (Hs : hkdf_extract (sha256 salt) (ikm ++ [0%N]) = hkdf_extract (sha256 salt) (ikm ++ [0%N])) by reflexivity.
  rewrite Ho.
  destruct okm as [|x okm']; [discriminate|].
  rewrite mapToFr_spec by discriminate. rewrite spec_r_eq.
  destruct (_ =? 0).
  - apply IH.
  - reflexivity.
Qed.

Lemma seed_len_bad_spec l : seed_len_bad l = negb (seed_len_spec l).
Proof.
  unfold seed_len_bad, seed_len_spec.
  change seedMin with 32%nat. change seedMax with 256%nat.
  destruct (Nat.ltb l 32) eqn:E1, (Nat.ltb 256 l) eqn:E2, (Nat.leb 32 l) eqn:E3, (Nat.leb l 256) eqn:E4;
    try reflexivity;
    repeat match goal with
           | H : Nat.ltb _ _ = true |- _ => apply Nat.ltb_lt in H
           | H : Nat.ltb _ _ = false |- _ => apply Nat.ltb_ge in H
           | H : Nat.leb _ _ = true |- _ => apply Nat.leb_le in H
           | H : Nat.leb _ _ = false |- _ => apply Nat.leb_gt in H
           end; lia.
Qed.

Lemma bls_keygen_eq_spec fuel ikm :
  match bls_generatePrivateKey fuel ikm with
  | KOk k => bls_keygen_spec fuel ikm = Some k
  | KOutOfFuel => bls_keygen_spec fuel ikm = None
  | KErr e => e = E_INVALID_INPUT /\ seed_len_spec (length ikm) = false
  | KPanic => False
  end.
Proof.
  unfold bls_generatePrivateKey, bls_keygen_spec. rewrite seed_len_bad_spec.
  destruct (seed_len_spec (length ikm)); cbn [negb]; [|split; reflexivity].
  change [byte_of_nat (bls_okmLength / 256); byte_of_nat bls_okmLength] with [0%N; 48%N].
  change saltString with spec_salt0.
  pose proof (bls_loop_eq_spec fuel ikm spec_salt0) as H.
  destruct (bls_loop _ _ _ _); try exact H; destruct H.
Qed.

(* ---------- ECDSA key generation ---------- *)
Lemma ecdsa_keygen_in_range c seed sk :
  2 <= ec_n c ->
  ecdsa_generatePrivateKey c seed = KOk sk -> 1 <= sk_d sk <= ec_n c - 1.
Proof.
  intros Hn. unfold ecdsa_generatePrivateKey. destruct (seed_len_bad _); [discriminate|].
  destruct (hkdf _ _ _ _) as [okm|]; [|discriminate].
  intro H. inversion H; subst. unfold goecdsaMapKey, goecdsaPrivateKey. cbn [sk_d].
  pose proof (Z.mod_pos_bound (os2ip okm) (ec_n c - 1)). lia.
Qed.

Lemma bitsToBytes_256 n : 2 ^ 255 <= n < 2 ^ 256 -> bitsToBytes (bitLen n) = 32%nat.
Proof.
  intro H. unfold bitLen. destruct (n <=? 0) eqn:E; [apply Z.leb_le in E; lia|].
  assert (Z.log2 n = 255).
  { apply Z.log2_unique; [lia|]. change (Z.succ 255) with 256. exact H. }
  rewrite H0. reflexivity.
Qed.

Lemma ecdsa_keygen_eq_spec c seed :
  2 ^ 255 <= ec_n c < 2 ^ 256 ->
  match ecdsa_generatePrivateKey c seed with
  | KOk sk => ecdsa_keygen_spec (ec_n c) seed = Some (sk_d sk) /\ sk_pubKey sk = None /\ sk_goPub sk = ec_basemul c (sk_d sk)
  | KErr e => e = E_INVALID_INPUT /\ seed_len_spec (length seed) = false
  | _ => False
  end.
Proof.
  intro Hn. unfold ecdsa_generatePrivateKey, ecdsa_keygen_spec. rewrite seed_len_bad_spec.
  destruct (seed_len_spec (length seed)); cbn [negb]; [|split; reflexivity].
  rewrite (bitsToBytes_256 _ Hn). change (32 + securityBytes)%nat with 48%nat.
  destruct (hkdf_some seed [] [] 48) as [okm Ho]; [lia|]. rewrite Ho.
  unfold goecdsaMapKey, goecdsaPrivateKey. cbn [sk_d sk_pubKey sk_goPub]. auto.
Qed.

(* ---------- seed length ---------- *)
Lemma seed_len_bad_iff l : seed_len_bad l = true <-> (l < seedMin \/ seedMax < l)%nat.
Proof.
  unfold seed_len_bad. rewrite orb_true_iff, !Nat.ltb_lt. tauto.
Qed.

Lemma bls_seed_rejected fuel ikm :
  (length ikm < seedMin \/ seedMax < length ikm)%nat ->
  bls_generatePrivateKey fuel ikm = KErr E_INVALID_INPUT.
Proof.
  intro H. apply seed_len_bad_iff in H. unfold bls_generatePrivateKey. rewrite H. reflexivity.
Qed.

Lemma bls_seed_accepted fuel ikm :
  (seedMin <= length ikm <= seedMax)%nat ->
  (exists k, bls_generatePrivateKey fuel ikm = KOk k) \/ bls_generatePrivateKey fuel ikm = KOutOfFuel.
Proof.
  intro H. unfold bls_generatePrivateKey.
  destruct (seed_len_bad (length ikm)) eqn:E; [apply seed_len_bad_iff in E; lia|].
  apply bls_loop_outcome.
Qed.

Lemma ecdsa_seed_rejected c seed :
  (length seed < seedMin \/ seedMax < length seed)%nat ->
  ecdsa_generatePrivateKey c seed = KErr E_INVALID_INPUT.
Proof.
  intro H. apply seed_len_bad_iff in H. unfold ecdsa_generatePrivateKey. rewrite H. reflexivity.
Qed.

Lemma ecdsa_seed_accepted c seed :
  2 ^ 255 <= ec_n c < 2 ^ 256 ->
  (seedMin <= length seed <= seedMax)%nat ->
  exists sk, ecdsa_generatePrivateKey c seed = KOk sk.
Proof.
  intros Hn H. unfold ecdsa_generatePrivateKey.
  destruct (seed_len_bad (length seed)) eqn:E; [apply seed_len_bad_iff in E; lia|].
  rewrite (bitsToBytes_256 _ Hn). change (32 + securityBytes)%nat with 48%nat.
  destruct (hkdf_some seed [] [] 48) as [okm Ho]; [lia|]. rewrite Ho. eexists. reflexivity.
Qed.

(* ---------- encodings ---------- *)
Lemma bls_encode_roundtrip k : 0 <= k < bls_r -> os2ip (bls_encode_sk k) = k /\ length (bls_encode_sk k) = 32%nat.
Proof.
  intro H. unfold bls_encode_sk. rewrite i2osp_length. split; [|reflexivity].
  apply os2ip_i2osp_small. rewrite <- mont_R_bytes.
  pose proof bls_r_lt_R. lia.
Qed.

Lemma ecdsa_encode_ok c sk :
  2 ^ 255 <= ec_n c < 2 ^ 256 -> 1 <= sk_d sk <= ec_n c - 1 ->
  exists b, ecdsa_encode_sk c sk = KOk b /\ length b = 32%nat /\ os2ip b = sk_d sk.
Proof.
  intros Hn Hd. unfold ecdsa_encode_sk. rewrite (bitsToBytes_256 _ Hn).
  change (256 ^ Z.of_nat 32) with (2 ^ 256).
  destruct (0 <=? sk_d sk) eqn:E1; [|apply Z.leb_gt in E1; lia].
  destruct (sk_d sk <? 2 ^ 256) eqn:E2; [|apply Z.ltb_ge in E2; lia].
  cbn [andb]. eexists. split; [reflexivity|]. rewrite i2osp_length. split; [reflexivity|].
  apply os2ip_i2osp_small. change (256 ^ Z.of_nat 32) with (2 ^ 256). lia.
Qed.

(* ---------- public key cache ---------- *)
Lemma public_key_idempotent sk :
  let '(p1, sk1) := ecdsa_PublicKey sk in
  let '(p2, sk2) := ecdsa_PublicKey sk1 in
  p1 = p2 /\ sk2 = sk1 /\ sk_d sk1 = sk_d sk /\ sk_goPub sk1 = sk_goPub sk.
Proof.
  unfold ecdsa_PublicKey. destruct sk as [d gp [p|]]; cbn; auto.
Qed.

Lemma public_key_fresh c d :
  fst (ecdsa_PublicKey (goecdsaPrivateKey c d)) = ec_basemul c d.
Proof. reflexivity. Qed.

Lemma pub_equals_refl p : ecdsa_pub_equals p p = true.
Proof. unfold ecdsa_pub_equals. rewrite !Z.eqb_refl. reflexivity. Qed.

(* ---------- the result does not depend on the fuel ---------- *)
Lemma bls_loop_fuel_irrelevant f : forall f' secret info salt k k',
  bls_loop f secret info salt = KOk k -> bls_loop f' secret info salt = KOk k' -> k = k'.
Proof.
  induction f as [|f IH]; intros f' secret info salt k k'; cbn [bls_loop]; [discriminate|].
  destruct f' as [|f']; cbn [bls_loop]; [discriminate|].
  destruct (hkdf secret salt info bls_okmLength) as [okm|]; [|discriminate].
  destruct (mapToFr okm) as [[sk z]| | |]; try discriminate.
  destruct z.
  - apply IH.
  - intros H1 H2. congruence.
Qed.

Lemma bls_keygen_fuel_irrelevant f f' ikm k k' :
  bls_generatePrivateKey f ikm = KOk k -> bls_generatePrivateKey f' ikm = KOk k' -> k = k'.
Proof.
  unfold bls_generatePrivateKey. destruct (seed_len_bad _); [discriminate|].
  apply bls_loop_fuel_irrelevant.
Qed.
