(* C05: canonicity and round trips of the scalar and E1/E2 codecs (Z instance). *)
From Coq Require Import ZArith NArith List Bool Lia Zpow_facts.
From V Require Import Lib.Num Lib.ListX Lib.FermatZ Prim.Bls12 Model.BlsCodec Proofs.ModArith Proofs.BytesZ.
Import ListNotations.
Open Scope Z_scope.

(* computed facts about the constants *)
Lemma rZ_lt : 0 < rZ < 256 ^ 32. Proof. vm_compute. split; reflexivity. Qed.
Lemma pZ_lt : 1000 < pZ < 256 ^ 48. Proof. vm_compute. split; reflexivity. Qed.
Lemma pZ_odd : pZ mod 2 = 1. Proof. vm_compute. reflexivity. Qed.
Lemma pZ_mod3 : (pZ - 1) mod 3 = 0. Proof. vm_compute. reflexivity. Qed.
(* -4 is not a cube in F_p: (-4)^((p-1)/3) <> 1 *)
Lemma minus4_not_cube : mpow ZNum pZ (pZ - 4) ((pZ - 1) / 3) <> 1.
Proof. vm_compute. discriminate. Qed.

Global Opaque pZ rZ.

(* ------------------------------------------------------------------ F_r *)

Definition decode_sk := decode_private_key ZNum rZ.
Definition encode_sk := fr_write_bytes ZNum.

Lemma fr_read_spec b :
  fr_read_bytes ZNum rZ b =
    if negb (Nat.eqb (length b) 32) then (BAD_ENCODING, 0)
    else if osZ b <? rZ then (VALID, osZ b) else (BAD_VALUE, 0).
Proof. reflexivity. Qed.

(* accepted private keys: exactly the 32-byte big-endian scalars in [1, r-1] *)
Theorem sk_accepts_iff b v : wf b ->
  decode_sk b = Some v <-> (length b = 32%nat /\ v = osZ b /\ 1 <= v < rZ).
Proof.
  intro Hw. unfold decode_sk, decode_private_key, fr_star_read_bytes.
  change (Z.to_nat Generated.Consts.crypto_PrKeyLenBLSBLS12381) with 32%nat.
  rewrite fr_read_spec.
  pose proof (osZ_bound b Hw) as Hb.
  destruct (Nat.eqb_spec (length b) 32) as [El|El]; cbn [negb].
  - destruct (Z.ltb_spec (osZ b) rZ) as [Hlt|Hge].
    + change (n_eqb ZNum (osZ b) (n_of_Z ZNum 0)) with (osZ b =? 0).
      destruct (Z.eqb_spec (osZ b) 0) as [E0|E0].
      * split; [discriminate|]. intros (_ & -> & H). lia.
      * split.
        -- intro H. inversion H; subst. repeat split; try assumption; lia.
        -- intros (_ & -> & _). reflexivity.
    + split; [discriminate|]. intros (_ & -> & H). lia.
  - split; [discriminate|]. intros (H & _). contradiction.
Qed.

Theorem sk_decode_canonical b v : wf b -> decode_sk b = Some v -> encode_sk v = b.
Proof.
  intros Hw H. apply (sk_accepts_iff b v Hw) in H as (Hl & -> & _).
  unfold encode_sk, fr_write_bytes. change Fr_BYTES with 32%nat. rewrite <- Hl.
  apply i2Z_osZ. exact Hw.
Qed.

Theorem sk_roundtrip v : 1 <= v < rZ -> decode_sk (encode_sk v) = Some v.
Proof.
  intro Hv. pose proof rZ_lt as Hr.
  assert (Hw : wf (encode_sk v)) by apply i2Z_wf.
  apply (sk_accepts_iff _ v Hw). unfold encode_sk, fr_write_bytes. change Fr_BYTES with 32%nat.
  split; [apply i2Z_length|]. split; [|lia].
  symmetry. apply osZ_i2Z. change (Z.of_nat 32) with 32. lia.
Qed.

(* ------------------------------------------------------------------ F_p *)

Lemma fp_read_spec b :
  fp_read_bytes ZNum pZ b =
    if negb (Nat.eqb (length b) 48) then (BAD_ENCODING, 0)
    else if osZ b <? pZ then (VALID, osZ b) else (BAD_VALUE, 0).
Proof. reflexivity. Qed.

Lemma fsign_Z y : fsign ZNum y = ((pZ - 1) / 2 <? y).
Proof. reflexivity. Qed.

Lemma fneg_Z y : fneg ZNum pZ y = (pZ - y) mod pZ.
Proof. reflexivity. Qed.

Lemma fsign_neg y : 0 < y < pZ -> fsign ZNum (fneg ZNum pZ y) = negb (fsign ZNum y).
Proof.
  intro Hy. rewrite fneg_Z, !fsign_Z. rewrite Z.mod_small by lia.
  pose proof pZ_odd as Ho. pose proof (Z.div_mod pZ 2 ltac:(lia)) as D.
  assert (E : (pZ - 1) / 2 = pZ / 2).
  { replace (pZ - 1) with (2 * (pZ / 2)) by lia. rewrite Z.mul_comm, Z.div_mul; lia. }
  rewrite E.
  destruct (Z.ltb_spec (pZ / 2) y), (Z.ltb_spec (pZ / 2) (pZ - y)); cbn; try reflexivity; lia.
Qed.

(* the curve equation has no point with y = 0: x^3 + 4 <> 0 in F_p *)
Section NoTwoTorsion.
Hypothesis Hpr : primeZ pZ.

Lemma rhs_Z x : 0 <= x < pZ ->
  fadd ZNum pZ (fmul ZNum pZ (fmul ZNum pZ x x) x) (b1 ZNum) = (x ^ 3 + 4) mod pZ.
Proof.
  intro Hx. pose proof pZ_lt as Hp.
  unfold fadd, fmul, b1. rewrite madd_Z, !mmul_Z. cbn [n_of_Z ZNum].
  assert (E : ((x * x) mod pZ * x) mod pZ = (x ^ 3) mod pZ).
  { rewrite Z.mul_mod_idemp_l by lia. f_equal. ring. }
  rewrite E. rewrite Z.add_mod_idemp_l by lia. reflexivity.
Qed.

Lemma rhs_nonzero x : 0 <= x < pZ -> (x ^ 3 + 4) mod pZ <> 0.
Proof.
  intros Hx H0. pose proof pZ_lt as Hp. pose proof pZ_mod3 as H3.
  assert (Hm : 1 < pZ) by lia.
  (* x is a unit *)
  assert (Hxnz : x mod pZ <> 0).
  { intro Hz. rewrite Z.mod_small in Hz by lia. subst x. cbn in H0.
    rewrite Z.mod_small in H0 by lia. lia. }
  (* x^3 = p - 4 (mod p) *)
  assert (Hc : (x ^ 3) mod pZ = (pZ - 4) mod pZ).
  { assert (E : (x ^ 3 + 4 + (pZ - 4)) mod pZ = (pZ - 4) mod pZ).
    { rewrite <- Z.add_mod_idemp_l by lia. rewrite H0. reflexivity. }
    replace (x ^ 3 + 4 + (pZ - 4)) with (x ^ 3 + 1 * pZ) in E by ring.
    rewrite Z.mod_add in E by lia. exact E. }
  set (k := (pZ - 1) / 3).
  assert (Hk : pZ - 1 = 3 * k).
  { unfold k. pose proof (Z.div_mod (pZ - 1) 3 ltac:(lia)). lia. }
  assert (Hk0 : 0 < k) by lia.
  pose proof (fermat_unit pZ Hm Hpr x ltac:(lia) Hxnz) as F.
  rewrite Hk in F. rewrite Z.pow_mul_r in F by lia.
  rewrite Zpower_mod in F by lia. rewrite Hc in F. rewrite <- Zpower_mod in F by lia.
  apply minus4_not_cube. rewrite mpow_Z by lia. exact F.
Qed.
End NoTwoTorsion.

(* ------------------------------------------------------------------ E1 *)

(* facts about the header byte, by a sweep over the 256 values *)
Definition hdr_inf_ok (h : N) : bool :=
  implb ((N.shiftr h 7 =? 1)%N && negb (N.land h 0x40 =? 0)%N && (N.land h 0x3F =? 0)%N) (h =? 0xC0)%N.
Definition hdr_aff_ok (h : N) : bool :=
  implb ((N.shiftr h 7 =? 1)%N && (N.land h 0x40 =? 0)%N)
        ((N.lor (N.lor (N.land h 0x1F) (if (N.land (N.shiftr h 5) 1 =? 1)%N then 0x20 else 0)) 0x80 =? h)%N
         && (N.land h 0x1F <? 256)%N).
Lemma hdr_inf_sweep h : (h < 256)%N -> hdr_inf_ok h = true.
Proof. apply byte_sweep. vm_compute. reflexivity. Qed.
Lemma hdr_aff_sweep h : (h < 256)%N -> hdr_aff_ok h = true.
Proof. apply byte_sweep. vm_compute. reflexivity. Qed.

Definition decode_e1 := e1_read_bytes ZNum pZ.
Definition encode_e1 := e1_write_bytes ZNum.

Lemma fsqrt_Z a y : fsqrt ZNum pZ a = Some y -> 0 <= a < pZ -> 0 <= y < pZ /\ (y * y) mod pZ = a.
Proof.
  unfold fsqrt, feqb, fmul. cbn [n_eqb ZNum]. rewrite mmul_Z.
  destruct (Z.eqb_spec ((fpow ZNum pZ a ((pZ + 1) / 4) * fpow ZNum pZ a ((pZ + 1) / 4)) mod pZ) a) as [E|E];
    [|discriminate].
  intros H Ha. inversion H; subst y. split; [|exact E].
  unfold fpow, mpow. pose proof pZ_lt.
  destruct ((pZ + 1) / 4) eqn:Eq.
  - apply Z.mod_pos_bound; lia.
  - apply mpow_pos_range; lia.
  - apply Z.mod_pos_bound; lia.
Qed.

Theorem e1_decode_canonical : primeZ pZ ->
  forall b P, wf b -> decode_e1 b = (VALID, P) -> encode_e1 P = b.
Proof.
  intros Hpr b P Hw. unfold decode_e1, e1_read_bytes.
  change G1_SER_BYTES with 48%nat.
  change (Z.eqb Generated.Consts.C_G1_SERIALIZATION Generated.Consts.C_COMPRESSED) with true.
  destruct (Nat.eqb_spec (length b) 48) as [El|El]; cbn [negb]; [|discriminate].
  destruct b as [|h t]; [discriminate|]. cbn [hd0 tl].
  assert (Hh : (h < 256)%N) by (inversion Hw; assumption).
  assert (Ht : wf t) by (inversion Hw; assumption).
  destruct (N.eqb_spec (N.shiftr h 7) 1) as [E7|E7]; cbn [Bool.eqb negb]; [|discriminate].
  destruct (N.eqb_spec (N.land h 0x40) 0) as [E6|E6]; cbn [negb].
  - (* finite point *)
    rewrite fp_read_spec. rewrite set_hd_length.
    cbn [set_hd]. cbn [length] in El |- *. rewrite (proj2 (Nat.eqb_eq _ _) El). cbn [negb].
    pose proof (hdr_aff_sweep h Hh) as Hs. unfold hdr_aff_ok in Hs.
    rewrite E7, E6 in Hs. change ((1 =? 1)%N) with true in Hs. change ((0 =? 0)%N) with true in Hs.
    cbn [andb implb] in Hs.
    apply andb_prop in Hs as [Hs1 Hs2]. apply N.eqb_eq in Hs1. apply N.ltb_lt in Hs2.
    set (h' := N.land h 31) in *.
    assert (Hw' : wf (h' :: t)) by (constructor; assumption).
    pose proof (osZ_bound (h' :: t) Hw') as Hb.
    destruct (Z.ltb_spec (osZ (h' :: t)) pZ) as [Hx|Hx]; [|discriminate].
    set (x := osZ (h' :: t)) in *.
    rewrite rhs_Z by lia.
    destruct (fsqrt ZNum pZ ((x ^ 3 + 4) mod pZ)) as [y|] eqn:Es; [|discriminate].
    pose proof pZ_lt as Hp.
    destruct (fsqrt_Z _ _ Es ltac:(apply Z.mod_pos_bound; lia)) as [Hy Hyy].
    assert (Hy0 : y <> 0).
    { intro; subst y. change (0 * 0) with 0 in Hyy. rewrite Z.mod_0_l in Hyy by lia.
      apply (rhs_nonzero Hpr x); [lia|]. symmetry. exact Hyy. }
    intro H. inversion H; subst P. clear H.
    unfold encode_e1, e1_write_bytes, fp_write_bytes. change Fp_BYTES with 48%nat.
    assert (Ei : i2osp ZNum 48 x = h' :: t).
    { change (i2osp ZNum 48 x) with (i2Z 48 x). unfold x. cbn [length] in El.
      replace 48%nat with (length (h' :: t)) by (cbn [length]; exact El). apply i2Z_osZ. exact Hw'. }
    rewrite Ei. cbn [hd0 set_hd]. f_equal.
    set (s := (N.land (N.shiftr h 5) 1 =? 1)%N) in *.
    assert (Esg : fsign ZNum (if Bool.eqb (fsign ZNum y) s then y else fneg ZNum pZ y) = s).
    { destruct (Bool.eqb (fsign ZNum y) s) eqn:Eb.
      - apply eqb_prop in Eb. exact Eb.
      - rewrite fsign_neg by lia. apply eqb_false_iff in Eb.
        destruct (fsign ZNum y), s; cbn; try reflexivity; congruence. }
    transitivity (N.lor (N.lor h' (if fsign ZNum (if Bool.eqb (fsign ZNum y) s then y else fneg ZNum pZ y) then 32%N else 0%N)) 128); [reflexivity|].
    rewrite Esg. exact Hs1.
  - (* infinity *)
    pose proof (hdr_inf_sweep h Hh) as Hs. unfold hdr_inf_ok in Hs.
    rewrite E7 in Hs. change ((1 =? 1)%N) with true in Hs.
    destruct (N.eqb_spec (N.land h 0x3F) 0) as [E5|E5]; cbn [negb]; [|discriminate].
    rewrite (proj2 (N.eqb_neq _ _) E6) in Hs.
    cbn [andb negb implb] in Hs. apply N.eqb_eq in Hs. subst h.
    destruct (all_zero t) eqn:Ez; [|discriminate].
    intro H. inversion H; subst P. clear H.
    unfold encode_e1, e1_write_bytes. change G1_SER_BYTES with 48%nat.
    cbn [length] in El. f_equal. rewrite (all_zero_repeat t Ez). f_equal. lia.
Qed.
