(* C05: canonicity and round trips of the scalar and E1/E2 codecs (Z instance). *)
From Coq Require Import ZArith NArith List Bool Lia Zpow_facts.
From V Require Import Lib.Num Lib.ListX Lib.FermatZ Prim.Bls12 Model.BlsCodec Proofs.ModArith Proofs.BytesZ.
Import ListNotations.
Open Scope Z_scope.

(* computed facts about the constants *)
Lemma rZ_lt : 0 < rZ < 256 ^ 32. Proof. vm_compute. split; reflexivity. Qed.
Lemma pZ_lt : 1000 < pZ < 256 ^ 48. Proof. vm_compute. split; reflexivity. Qed.
Lemma pZ_odd : pZ mod 2 = 1. Proof. vm_compute. reflexivity. Qed.
Lemma pZ_mod3 : (pZ - 1) mod 3 = 0. Proof. vm_compute. reflexivity. Qed.
(* -4 is not a cube in F_p: (-4)^((p-1)/3) <> 1 *)
Lemma minus4_not_cube : mpow ZNum pZ (pZ - 4) ((pZ - 1) / 3) <> 1.
Proof. vm_compute. discriminate. Qed.

Global Opaque pZ rZ.

(* ------------------------------------------------------------------ F_r *)

Definition decode_sk := decode_private_key ZNum rZ.
Definition encode_sk := fr_write_bytes ZNum.

Lemma fr_read_spec b :
  fr_read_bytes ZNum rZ b =
    if negb (Nat.eqb (length b) 32) then (BAD_ENCODING, 0)
    else if osZ b <? rZ then (VALID, osZ b) else (BAD_VALUE, 0).
Proof. reflexivity. Qed.

(* accepted private keys: exactly the 32-byte big-endian scalars in [1, r-1] *)
Theorem sk_accepts_iff b v : wf b ->
  decode_sk b = Some v <-> (length b = 32%nat /\ v = osZ b /\ 1 <= v < rZ).
Proof.
  intro Hw. unfold decode_sk, decode_private_key, fr_star_read_bytes.
  change (Z.to_nat Generated.Consts.crypto_PrKeyLenBLSBLS12381) with 32%nat.
  rewrite fr_read_spec.
  pose proof (osZ_bound b Hw) as Hb.
  destruct (Nat.eqb_spec (length b) 32) as [El|El]; cbn [negb].
  - destruct (Z.ltb_spec (osZ b) rZ) as [Hlt|Hge].
    + change (n_eqb ZNum (osZ b) (n_of_Z ZNum 0)) with (osZ b =? 0).
      destruct (Z.eqb_spec (osZ b) 0) as [E0|E0].
      * split; [discriminate|]. intros (_ & -> & H). lia.
      * split.
        -- intro H. inversion H; subst. repeat split; try assumption; lia.
        -- intros (_ & -> & _). reflexivity.
    + split; [discriminate|]. intros (_ & -> & H). lia.
  - split; [discriminate|]. intros (H & _). contradiction.
Qed.

Theorem sk_decode_canonical b v : wf b -> decode_sk b = Some v -> encode_sk v = b.
Proof.
  intros Hw H. apply (sk_accepts_iff b v Hw) in H as (Hl & -> & _).
  unfold encode_sk, fr_write_bytes. change Fr_BYTES with 32%nat. rewrite <- Hl.
  apply i2Z_osZ. exact Hw.
Qed.

Theorem sk_roundtrip v : 1 <= v < rZ -> decode_sk (encode_sk v) = Some v.
Proof.
  intro Hv. pose proof rZ_lt as Hr.
  assert (Hw : wf (encode_sk v)) by apply i2Z_wf.
  apply (sk_accepts_iff _ v Hw). unfold encode_sk, fr_write_bytes. change Fr_BYTES with 32%nat.
  split; [apply i2Z_length|]. split; [|lia].
  symmetry. apply osZ_i2Z. change (Z.of_nat 32) with 32. lia.
Qed.

(* ------------------------------------------------------------------ F_p *)

Lemma fp_read_spec b :
  fp_read_bytes ZNum pZ b =
    if negb (Nat.eqb (length b) 48) then (BAD_ENCODING, 0)
    else if osZ b <? pZ then (VALID, osZ b) else (BAD_VALUE, 0).
Proof. reflexivity. Qed.

Lemma fsign_Z y : fsign ZNum y = ((pZ - 1) / 2 <? y).
Proof. reflexivity. Qed.

Lemma fneg_Z y : fneg ZNum pZ y = (pZ - y) mod pZ.
Proof. reflexivity. Qed.

Lemma fsign_neg y : 0 < y < pZ -> fsign ZNum (fneg ZNum pZ y) = negb (fsign ZNum y).
Proof.
  intro Hy. rewrite fneg_Z, !fsign_Z. rewrite Z.mod_small by lia.
  pose proof pZ_odd as Ho. pose proof (Z.div_mod pZ 2 ltac:(lia)) as D.
  assert (E : (pZ - 1) / 2 = pZ / 2).
  { replace (pZ - 1) with (2 * (pZ / 2)) by lia. rewrite Z.mul_comm, Z.div_mul; lia. }
  rewrite E.
  destruct (Z.ltb_spec (pZ / 2) y), (Z.ltb_spec (pZ / 2) (pZ - y)); cbn; try reflexivity; lia.
Qed.

(* the curve equation has no point with y = 0: x^3 + 4 <> 0 in F_p *)
Section NoTwoTorsion.
Hypothesis Hpr : primeZ pZ.

Lemma rhs_Z x : 0 <= x < pZ ->
  fadd ZNum pZ (fmul ZNum pZ (fmul ZNum pZ x x) x) (b1 ZNum) = (x ^ 3 + 4) mod pZ.
Proof.
  intro Hx. pose proof pZ_lt as Hp.
  unfold fadd, fmul, b1. rewrite madd_Z, !mmul_Z. cbn [n_of_Z ZNum].
  assert (E : ((x * x) mod pZ * x) mod pZ = (x ^ 3) mod pZ).
  { rewrite Z.mul_mod_idemp_l by lia. f_equal. ring. }
  rewrite E. rewrite Z.add_mod_idemp_l by lia. reflexivity.
Qed.

Lemma rhs_nonzero x : 0 <= x < pZ -> (x ^ 3 + 4) mod pZ <> 0.
Proof.
  intros Hx H0. pose proof pZ_lt as Hp. pose proof pZ_mod3 as H3.
  assert (Hm : 1 < pZ) by lia.
  (* x is a unit *)
  assert (Hxnz : x mod pZ <> 0).
  { intro Hz. rewrite Z.mod_small in Hz by lia. subst x. cbn in H0.
    rewrite Z.mod_small in H0 by lia. lia. }
  (* x^3 = p - 4 (mod p) *)
  assert (Hc : (x ^ 3) mod pZ = (pZ - 4) mod pZ).
  { assert (E : (x ^ 3 + 4 + (pZ - 4)) mod pZ = (pZ - 4) mod pZ).
    { rewrite <- Z.add_mod_idemp_l by lia. rewrite H0. reflexivity. }
    replace (x ^ 3 + 4 + (pZ - 4)) with (x ^ 3 + 1 * pZ) in E by ring.
    rewrite Z.mod_add in E by lia. exact E. }
  set (k := (pZ - 1) / 3).
  assert (Hk : pZ - 1 = 3 * k).
  { unfold k. pose proof (Z.div_mod (pZ - 1) 3 ltac:(lia)). lia. }
  assert (Hk0 : 0 < k) by lia.
  pose proof (fermat_unit pZ Hm Hpr x ltac:(lia) Hxnz) as F.
  rewrite Hk in F. rewrite Z.pow_mul_r in F by lia.
  rewrite Zpower_mod in F by lia. rewrite Hc in F. rewrite <- Zpower_mod in F by lia.
  apply minus4_not_cube. rewrite mpow_Z by lia. exact F.
Qed.
End NoTwoTorsion.

(* ------------------------------------------------------------------ E1 *)

(* facts about the header byte, by a sweep over the 256 values *)
Definition hdr_inf_ok (h : N) : bool :=
  implb ((N.shiftr h 7 =? 1)%N && negb (N.land h 0x40 =? 0)%N && (N.land h 0x3F =? 0)%N) (h =? 0xC0)%N.
Definition hdr_aff_ok (h : N) : bool :=
  implb ((N.shiftr h 7 =? 1)%N && (N.land h 0x40 =? 0)%N)
        ((N.lor (N.lor (N.land h 0x1F) (if (N.land (N.shiftr h 5) 1 =? 1)%N then 0x20 else 0)) 0x80 =? h)%N
         && (N.land h 0x1F <? 256)%N).
Lemma hdr_inf_sweep h : (h < 256)%N -> hdr_inf_ok h = true.
Proof. apply byte_sweep. vm_compute. reflexivity. Qed.
Lemma hdr_aff_sweep h : (h < 256)%N -> hdr_aff_ok h = true.
Proof. apply byte_sweep. vm_compute. reflexivity. Qed.

Definition decode_e1 := e1_read_bytes ZNum pZ.
Definition encode_e1 := e1_write_bytes ZNum.

Lemma fsqrt_Z a y : fsqrt ZNum pZ a = Some y -> 0 <= a < pZ -> 0 <= y < pZ /\ (y * y) mod pZ = a.
Proof.
  unfold fsqrt, feqb, fmul. cbn [n_eqb ZNum]. rewrite mmul_Z.
  destruct (Z.eqb_spec ((fpow ZNum pZ a ((pZ + 1) / 4) * fpow ZNum pZ a ((pZ + 1) / 4)) mod pZ) a) as [E|E];
    [|discriminate].
  intros H Ha. inversion H; subst y. split; [|exact E].
  unfold fpow, mpow. pose proof pZ_lt.
  destruct ((pZ + 1) / 4) eqn:Eq.
  - apply Z.mod_pos_bound; lia.
  - apply mpow_pos_range; lia.
  - apply Z.mod_pos_bound; lia.
Qed.

Theorem e1_decode_canonical : primeZ pZ ->
  forall b P, wf b -> decode_e1 b = (VALID, P) -> encode_e1 P = b.
Proof.
  intros Hpr b P Hw. unfold decode_e1, e1_read_bytes.
  change G1_SER_BYTES with 48%nat.
  change (Z.eqb Generated.Consts.C_G1_SERIALIZATION Generated.Consts.C_COMPRESSED) with true.
  destruct (Nat.eqb_spec (length b) 48) as [El|El]; cbn [negb]; [|discriminate].
  destruct b as [|h t]; [discriminate|]. cbn [hd0 tl].
  assert (Hh : (h < 256)%N) by (inversion Hw; assumption).
  assert (Ht : wf t) by (inversion Hw; assumption).
  destruct (N.eqb_spec (N.shiftr h 7) 1) as [E7|E7]; cbn [Bool.eqb negb]; [|discriminate].
  destruct (N.eqb_spec (N.land h 0x40) 0) as [E6|E6]; cbn [negb].
  - (* finite point *)
    rewrite fp_read_spec. rewrite set_hd_length.
    cbn [set_hd]. cbn [length] in El |- *. rewrite (proj2 (Nat.eqb_eq _ _) El). cbn [negb].
    pose proof (hdr_aff_sweep h Hh) as Hs. unfold hdr_aff_ok in Hs.
    rewrite E7, E6 in Hs. change ((1 =? 1)%N) with true in Hs. change ((0 =? 0)%N) with true in Hs.
    cbn [andb implb] in Hs.
    apply andb_prop in Hs as [Hs1 Hs2]. apply N.eqb_eq in Hs1. apply N.ltb_lt in Hs2.
    set (h' := N.land h 31) in *.
    assert (Hw' : wf (h' :: t)) by (constructor; assumption).
    pose proof (osZ_bound (h' :: t) Hw') as Hb.
    destruct (Z.ltb_spec (osZ (h' :: t)) pZ) as [Hx|Hx]; [|discriminate].
    set (x := osZ (h' :: t)) in *.
    rewrite rhs_Z by lia.
    destruct (fsqrt ZNum pZ ((x ^ 3 + 4) mod pZ)) as [y|] eqn:Es; [|discriminate].
    pose proof pZ_lt as Hp.
    destruct (fsqrt_Z _ _ Es ltac:(apply Z.mod_pos_bound; lia)) as [Hy Hyy].
    assert (Hy0 : y <> 0).
    { intro; subst y. change (0 * 0) with 0 in Hyy. rewrite Z.mod_0_l in Hyy by lia.
      apply (rhs_nonzero Hpr x); [lia|]. symmetry. exact Hyy. }
    intro H. inversion H; subst P. clear H.
    unfold encode_e1, e1_write_bytes, fp_write_bytes. change Fp_BYTES with 48%nat.
    assert (Ei : i2osp ZNum 48 x = h' :: t).
    { change (i2osp ZNum 48 x) with (i2Z 48 x). unfold x. cbn [length] in El.
      replace 48%nat with (length (h' :: t)) by (cbn [length]; exact El). apply i2Z_osZ. exact Hw'. }
    rewrite Ei. cbn [hd0 set_hd]. f_equal.
    set (s := (N.land (N.shiftr h 5) 1 =? 1)%N) in *.
    assert (Esg : fsign ZNum (if Bool.eqb (fsign ZNum y) s then y else fneg ZNum pZ y) = s).
    { destruct (Bool.eqb (fsign ZNum y) s) eqn:Eb.
      - apply eqb_prop in Eb. exact Eb.
      - rewrite fsign_neg by lia. apply eqb_false_iff in Eb.
        destruct (fsign ZNum y), s; cbn; try reflexivity; congruence. }
    transitivity (N.lor (N.lor h' (if fsign ZNum (if Bool.eqb (fsign ZNum y) s then y else fneg ZNum pZ y) then 32%N else 0%N)) 128); [reflexivity|].
    rewrite Esg. exact Hs1.
  - (* infinity *)
    pose proof (hdr_inf_sweep h Hh) as Hs. unfold hdr_inf_ok in Hs.
    rewrite E7 in Hs. change ((1 =? 1)%N) with true in Hs.
    destruct (N.eqb_spec (N.land h 0x3F) 0) as [E5|E5]; cbn [negb]; [|discriminate].
    rewrite (proj2 (N.eqb_neq _ _) E6) in Hs.
    cbn [andb negb implb] in Hs. apply N.eqb_eq in Hs. subst h.
    destruct (all_zero t) eqn:Ez; [|discriminate].
    intro H. inversion H; subst P. clear H.
    unfold encode_e1, e1_write_bytes. change G1_SER_BYTES with 48%nat.
    cbn [length] in El. f_equal. rewrite (all_zero_repeat t Ez). f_equal. lia.
Qed.

(* ------------------------------------------------------------------ E1 round trip
   every affine curve point with reduced coordinates encodes to bytes that decode back to it.
   Needs p prime twice: Euler's criterion (the exponentiation (p+1)/4 finds a root of a square) and
   no zero divisors (a root of y^2 is y or -y). *)
Lemma pZ_3mod4 : pZ mod 4 = 3. Proof. vm_compute. reflexivity. Qed.

Lemma fsqrt_complete : primeZ pZ -> forall y, 0 < y < pZ ->
  exists c, fsqrt ZNum pZ ((y * y) mod pZ) = Some c /\ (c = y \/ c = (pZ - y) mod pZ).
Proof.
  intros Hpr y Hy. pose proof pZ_lt as Hp. pose proof pZ_3mod4 as H4.
  assert (Hm : 1 < pZ) by lia.
  set (a := (y * y) mod pZ).
  assert (Ha : 0 <= a < pZ) by (apply Z.mod_pos_bound; lia).
  set (e := (pZ + 1) / 4).
  assert (He : pZ + 1 = 4 * e) by (unfold e; pose proof (Z.div_mod (pZ + 1) 4 ltac:(lia)) as D;
    assert ((pZ + 1) mod 4 = 0) by (rewrite <- Zplus_mod_idemp_l, H4; reflexivity); lia).
  assert (He0 : 0 < e) by lia.
  set (c := fpow ZNum pZ a e).
  assert (Ec : c = (a ^ e) mod pZ) by (unfold c, fpow; apply mpow_Z; lia).
  assert (Hc : 0 <= c < pZ) by (rewrite Ec; apply Z.mod_pos_bound; lia).
  (* c^2 = a^(2e) = a^((p+1)/2) = y^(p+1) = y^2 * y^(p-1) = y^2 *)
  assert (Hcc : (c * c) mod pZ = a).
  { rewrite Ec. rewrite <- Z.mul_mod by lia. rewrite <- Z.pow_add_r by lia.
    replace (e + e) with (2 * e) by ring.
    unfold a. rewrite <- Zpower_mod by lia. rewrite <- Z.pow_2_r, <- Z.pow_mul_r by lia.
    replace (2 * (2 * e)) with (2 + (pZ - 1)) by lia. rewrite Z.pow_add_r by lia.
    rewrite Z.mul_mod by lia. rewrite (fermat_unit pZ Hm Hpr y) by (try lia; rewrite Z.mod_small by lia; lia).
    rewrite Z.mul_1_r, Z.mod_mod by lia. now rewrite Z.pow_2_r. }
  exists c. split.
  - unfold fsqrt. fold e. fold c. unfold feqb, fmul. cbn [n_eqb ZNum]. rewrite mmul_Z, Hcc, Z.eqb_refl. reflexivity.
  - apply (sq_eq_cases pZ Hm Hpr c y); [exact Hc|lia|]. rewrite Hcc. reflexivity.
Qed.

Definition on_curve_Z (x y : Z) : Prop := (y * y) mod pZ = (x ^ 3 + 4) mod pZ.

Theorem e1_encode_decode_roundtrip : primeZ pZ -> forall x y,
  0 <= x < pZ -> 0 <= y < pZ -> on_curve_Z x y ->
  decode_e1 (encode_e1 (Aff x y)) = (VALID, Aff x y).
Proof.
  intros Hpr x y Hx Hy Hon. pose proof pZ_lt as Hp.
  assert (Hy0 : y <> 0).
  { intro; subst y. unfold on_curve_Z in Hon. change (0 * 0) with 0 in Hon. rewrite Z.mod_0_l in Hon by lia.
    apply (rhs_nonzero Hpr x Hx). now symmetry. }
  unfold encode_e1, e1_write_bytes, fp_write_bytes. change Fp_BYTES with 48%nat.
  change (i2osp ZNum 48 x) with (i2Z 48 x).
  assert (Hlen : length (i2Z 48 x) = 48%nat) by apply i2Z_length.
  assert (Hwf : wf (i2Z 48 x)) by apply i2Z_wf.
  assert (Hval : osZ (i2Z 48 x) = x) by (apply osZ_i2Z; change (Z.of_nat 48) with 48; lia).
  destruct (i2Z 48 x) as [|h0 t] eqn:Ei; [discriminate|]. cbn [hd0 set_hd].
  assert (Hh0 : (h0 < 256)%N) by (inversion Hwf; assumption).
  assert (Ht : wf t) by (inversion Hwf; assumption).
  (* the top three bits of the first byte are clear because x < p < 2^381 *)
  assert (Hh032 : (h0 < 32)%N).
  { assert (B : osZ (h0 :: t) < 2 ^ 381) by (rewrite Hval; assert (pZ < 2 ^ 381) by (vm_compute; reflexivity); lia).
    change (h0 :: t) with ([h0] ++ t) in B. unfold osZ, os2ip in B. rewrite fold_left_app in B.
    cbn [fold_left n_add n_mul n_of_Z ZNum] in B.
    assert (G : forall l a, wf l -> a * 256 ^ Z.of_nat (length l) <= fold_left (fun acc x0 => acc * 256 + Z.of_N x0) l a).
    { induction l as [|q l IH]; intros a0 W; [cbn; lia|]. inversion W; subst. cbn [fold_left length].
      specialize (IH (a0 * 256 + Z.of_N q) ltac:(assumption)).
      replace (Z.of_nat (S (length l))) with (Z.succ (Z.of_nat (length l))) by lia.
      rewrite Z.pow_succ_r by lia. assert (0 < 256 ^ Z.of_nat (length l)) by (apply Z.pow_pos_nonneg; lia). nia. }
    specialize (G t (0 * 256 + Z.of_N h0) Ht). cbn [length] in Hlen. injection Hlen as Hl. rewrite Hl in G.
    change (Z.of_nat 47) with 47 in G. assert (Z.of_N h0 * 256 ^ 47 < 2 ^ 381) by lia.
    assert (E381 : 2 ^ 381 = 32 * 256 ^ 47) by (vm_compute; reflexivity). rewrite E381 in H.
    assert (0 < 256 ^ 47) by (vm_compute; reflexivity). nia. }
  set (s := fsign ZNum y).
  set (h := N.lor (N.lor h0 (if s then 32 else 0)) 128).
  assert (Hbits : (N.shiftr h 7 =? 1)%N = true /\ (N.land h 64 =? 0)%N = true /\
                  N.land h 31 = h0 /\ (N.land (N.shiftr h 5) 1 =? 1)%N = s).
  { unfold h. clear - Hh032.
    assert (Q : forall b : bool, forallb (fun v => let hh := N.lor (N.lor v (if b then 32 else 0)) 128 in
              (N.shiftr hh 7 =? 1)%N && (N.land hh 64 =? 0)%N && (N.land hh 31 =? v)%N &&
              Bool.eqb (N.land (N.shiftr hh 5) 1 =? 1)%N b) (map N.of_nat (seq 0 32)) = true)
      by (intros [|]; vm_compute; reflexivity).
    specialize (Q s). rewrite forallb_forall in Q.
    assert (I : In h0 (map N.of_nat (seq 0 32))).
    { apply in_map_iff. exists (N.to_nat h0). split; [apply N2Nat.id|apply in_seq; lia]. }
    specialize (Q h0 I). cbv zeta in Q. repeat (apply andb_prop in Q as [Q ?]).
    repeat split; try assumption.
    - now apply N.eqb_eq.
    - now apply eqb_prop. }
  destruct Hbits as (B7 & B6 & B31 & B5).
  unfold decode_e1, e1_read_bytes. change G1_SER_BYTES with 48%nat.
  change (Z.eqb Generated.Consts.C_G1_SERIALIZATION Generated.Consts.C_COMPRESSED) with true.
  cbn [length] in Hlen |- *. rewrite Hlen, Nat.eqb_refl. cbn [negb hd0 tl set_hd].
  rewrite B7. cbn [Bool.eqb negb]. rewrite B6. cbn [negb]. rewrite B5, B31.
  rewrite fp_read_spec. cbn [length]. rewrite Hlen, Nat.eqb_refl. cbn [negb].
  rewrite Hval. destruct (Z.ltb_spec x pZ) as [_|]; [|lia].
  rewrite rhs_Z by lia. rewrite <- Hon.
  destruct (fsqrt_complete Hpr y ltac:(lia)) as (c & Es & Hc). rewrite Es.
  f_equal. f_equal. fold s.
  destruct Hc as [Hc | Hc]; subst c.
  - now rewrite eqb_reflx.
  - assert (Ec : (pZ - y) mod pZ = fneg ZNum pZ y) by (symmetry; apply fneg_Z).
    rewrite Ec. rewrite fsign_neg by lia. fold s.
    assert (Ef : Bool.eqb (negb s) s = false) by (destruct s; reflexivity). rewrite Ef.
    rewrite !fneg_Z. rewrite (Z.mod_small (pZ - y)) by lia.
    replace (pZ - (pZ - y)) with y by ring. apply Z.mod_small. lia.
Qed.
