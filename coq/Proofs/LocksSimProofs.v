(* Level 2 of Model/Locks.v: for threads running well-locked traces, in every
   reachable configuration of the interleaving semantics the critical sections are
   mutually exclusive (writer exclusive, readers shared), there is no conflicting
   access pair, and the interleaved execution is simulated step by step by the
   ATOMIC semantics in which every critical section is a single step taken at the
   moment of its Lock/RLock (forward simulation through [abs]). *)
From Coq Require Import List String Bool Arith Lia.
From V Require Import Model.Skel Model.Locks Proofs.LocksProofs.
Import ListNotations.
Open Scope list_scope.

(* ---- list facts ---- *)
Lemma nth_error_set_nth_eq {A} i (x : A) l t :
  nth_error l i = Some t -> nth_error (set_nth i x l) i = Some x.
Proof.
  revert i. induction l as [|y l IH]; intros [|i]; cbn; try discriminate; auto.
Qed.

Lemma nth_error_set_nth_neq {A} i j (x : A) l :
  i <> j -> nth_error (set_nth i x l) j = nth_error l j.
Proof.
  revert i j. induction l as [|y l IH]; intros [|i] [|j] N; cbn; auto; try congruence.
Qed.

Lemma map_set_nth {A B} (f : A -> B) i x l : map f (set_nth i x l) = set_nth i (f x) (map f l).
Proof. revert i. induction l as [|y l IH]; intros [|i]; cbn; auto. rewrite IH. reflexivity. Qed.

Lemma map_set_nth_ext {A B} (f g : A -> B) i t t' l :
  nth_error l i = Some t -> f t' = g t ->
  (forall j u, j <> i -> nth_error l j = Some u -> f u = g u) ->
  map f (set_nth i t' l) = map g l.
Proof.
  revert i. induction l as [|y l IH]; intros [|i] N E H; cbn in *; try discriminate.
  - inversion N; subst. f_equal; auto. apply map_ext_in. intros u Hu.
    destruct (In_nth_error _ _ Hu) as [j Hj]. apply (H (S j)); auto.
  - f_equal.
    + apply (H 0); auto.
    + apply IH; auto. intros j u Nj Hj. apply (H (S j)); auto.
Qed.

Lemma forallb_nth {A} (p : A -> bool) l :
  forallb p l = true <-> forall j u, nth_error l j = Some u -> p u = true.
Proof.
  rewrite forallb_forall. split.
  - intros H j u N. apply H. eapply nth_error_In; eauto.
  - intros H u I. destruct (In_nth_error _ _ I) as [j Hj]. eauto.
Qed.

Lemma find_none_nth {A} (p : A -> bool) l :
  (forall j u, nth_error l j = Some u -> p u = false) -> find p l = None.
Proof.
  induction l as [|y l IH]; intro H; cbn; auto.
  rewrite (H 0 y eq_refl). apply IH. intros j u N. apply (H (S j)); auto.
Qed.

Lemma find_unique {A} (p : A -> bool) l i t :
  nth_error l i = Some t -> p t = true ->
  (forall j u, j <> i -> nth_error l j = Some u -> p u = false) -> find p l = Some t.
Proof.
  revert i. induction l as [|y l IH]; intros [|i] N T H; cbn in *; try discriminate.
  - inversion N; subst. rewrite T. reflexivity.
  - rewrite (H 0 y); auto. apply (IH i); auto. intros j u Nj Hj. apply (H (S j)); auto.
Qed.

Lemma find_set_nth_same {A} (p : A -> bool) l i t t' :
  nth_error l i = Some t -> p t = false -> p t' = false -> find p (set_nth i t' l) = find p l.
Proof.
  revert i. induction l as [|y l IH]; intros [|i] N T T'; cbn in *; try discriminate.
  - inversion N; subst. rewrite T, T'. reflexivity.
  - destruct (p y); auto; apply (IH i); auto.
Qed.

Section Sem.
  Variables guarded immutable : list string.
  Variables V L : Type.
  Variable rd : string -> V -> L -> L.
  Variable wr : string -> L -> V.

  Notation act_ok := (act_ok guarded immutable).
  Notation run_tr := (run_tr guarded immutable).
  Notation thread := (thread L).
  Notation cfg := (cfg V L).
  Notation mkThread := (mkThread L).
  Notation mkCfg := (mkCfg V L).
  Notation eff := (eff V L rd wr).
  Notation step := (step V L rd wr).
  Notation reach := (reach V L rd wr).
  Notation astep := (astep V L rd wr).
  Notation areach := (areach V L rd wr).
  Notation finish := (finish V L rd wr).
  Notation block := (block V L rd wr).
  Notation fin_thread := (fin_thread V L rd wr).
  Notation abs_mem := (abs_mem V L rd wr).
  Notation abs := (abs V L rd wr).
  Notation next_mode := (next_mode L).
  Notation is_none := (is_none L).
  Notation is_w := (is_w L).
  Notation init_cfg := (init_cfg V L).

  (* every thread's remaining code is well-locked from its current mode; a writer excludes everybody *)
  Record inv (C : cfg) : Prop := {
    inv_wl : forall i t, nth_error (thr V L C) i = Some t -> run_tr (md L t) (code L t) = Some MNone;
    inv_ex : forall i j ti tj, nth_error (thr V L C) i = Some ti -> nth_error (thr V L C) j = Some tj ->
                               i <> j -> md L ti = MW -> md L tj = MNone
  }.

  Lemma step_mode ths (t : thread) a k m' :
    run_tr (md L t) (a :: k) = Some MNone -> next_mode ths t a = Some m' ->
    act_ok (md L t) a = Some m' /\ run_tr m' k = Some MNone.
  Proof.
    cbn. destruct (act_ok (md L t) a) as [h'|] eqn:A; [|discriminate]. intros R N.
    assert (h' = m'); [|subst; auto].
    destruct a; cbn in A, N.
    - destruct (md L t); try discriminate. destruct (forallb _ _); congruence.
    - destruct (md L t); try discriminate. destruct (_ && _); congruence.
    - destruct (md L t); try discriminate. destruct (Locks.is_w L t); congruence.
    - destruct (md L t); try discriminate. cbn in N. congruence.
    - destruct (mem_str f guarded).
      + destruct (md L t); congruence.
      + destruct (mem_str f immutable); congruence.
    - destruct (mem_str f guarded); [|discriminate]. destruct (md L t); congruence.
  Qed.

  Lemma is_none_md (t : thread) : is_none t = true <-> md L t = MNone.
  Proof. unfold Locks.is_none. apply mode_eqb_eq. Qed.
  Lemma is_w_md (t : thread) : is_w t = true <-> md L t = MW.
  Proof. unfold Locks.is_w. apply mode_eqb_eq. Qed.

  Lemma step_form C lb C' : step C lb C' ->
    exists i t a k m',
      nth_error (thr V L C) i = Some t /\ code L t = a :: k /\ next_mode (thr V L C) t a = Some m' /\
      lb = (i, a, md L t) /\
      C' = mkCfg (fst (eff a (cmem V L C) (loc L t)))
                 (set_nth i (mkThread m' (snd (eff a (cmem V L C) (loc L t))) k) (thr V L C)).
  Proof. intro S. destruct S as [C i t a k m' N Cd NM]. exists i, t, a, k, m'. auto. Qed.

  Lemma step_inv C lb C' : inv C -> step C lb C' -> inv C'.
  Proof.
    intros [WL EX] S. destruct (step_form _ _ _ S) as (i & t & a & k & m' & N & Cd & NM & -> & ->). clear S.
    pose proof (WL i t N) as W. rewrite Cd in W.
    destruct (step_mode _ _ _ _ _ W NM) as [A R].
    constructor; cbn.
    - intros j u Hj. destruct (Nat.eq_dec i j) as [->|Ne].
      + rewrite (nth_error_set_nth_eq _ _ _ _ N) in Hj. inversion Hj; subst. cbn. exact R.
      + rewrite (nth_error_set_nth_neq _ _ _ _ Ne) in Hj. eauto.
    - intros j1 j2 t1 t2 H1 H2 Ne W1.
      destruct (Nat.eq_dec i j1) as [E1|N1]; destruct (Nat.eq_dec i j2) as [E2|N2]; try congruence.
      + (* the stepping thread is the writer afterwards *)
        subst j1. rewrite (nth_error_set_nth_eq _ _ _ _ N) in H1. inversion H1; subst. cbn in W1. subst m'.
        rewrite (nth_error_set_nth_neq _ _ _ _ N2) in H2.
        destruct a; cbn in NM.
        * destruct (forallb is_none (thr V L C)) eqn:F; [|discriminate].
          apply is_none_md. eapply forallb_nth; eauto.
        * destruct (_ && _); discriminate.
        * destruct (is_w t); discriminate.
        * destruct (mode_eqb (md L t) MR); discriminate.
        * inversion NM as [M]. eapply (EX i j2); eauto.
        * inversion NM as [M]. eapply (EX i j2); eauto.
      + (* another thread is the writer: the stepping thread stays / becomes lock-free *)
        subst j2. rewrite (nth_error_set_nth_neq _ _ _ _ N1) in H1.
        rewrite (nth_error_set_nth_eq _ _ _ _ N) in H2. inversion H2; subst. cbn.
        pose proof (EX j1 i t1 t H1 N Ne W1) as Mt.
        destruct a; cbn in NM.
        * destruct (forallb is_none (thr V L C)) eqn:F; [|discriminate].
          assert (is_none t1 = true) by (eapply forallb_nth; eauto).
          apply is_none_md in H. congruence.
        * destruct (is_none t) eqn:Q; cbn in NM; [|discriminate].
          destruct (forallb (fun u => negb (is_w u)) (thr V L C)) eqn:F; [|discriminate].
          assert (negb (is_w t1) = true) by (eapply (proj1 (forallb_nth _ _) F); eauto).
          assert (is_w t1 = true) by (apply is_w_md; auto). rewrite H0 in H. discriminate.
        * destruct (is_w t); congruence.
        * destruct (mode_eqb (md L t) MR); congruence.
        * congruence.
        * congruence.
      + rewrite (nth_error_set_nth_neq _ _ _ _ N1) in H1.
        rewrite (nth_error_set_nth_neq _ _ _ _ N2) in H2. eauto.
  Qed.

  Lemma reach_inv C tr C' : inv C -> reach C tr C' -> inv C'.
  Proof. intros I R. induction R as [C|C tr C1 lb C2 R IH S]; [exact I|]. eapply step_inv; [apply IH, I | exact S]. Qed.

  (* ---- mutual exclusion and absence of conflicting accesses ---- *)

  Definition guarded_access (a : act) : option (string * bool) :=   (* field, is-write *)
    match a with
    | ARead f => if mem_str f guarded then Some (f, false) else None
    | AWrite f => Some (f, true)
    | _ => None
    end.

  Theorem inv_mutual_exclusion C : inv C ->
    forall i j ti tj, nth_error (thr V L C) i = Some ti -> nth_error (thr V L C) j = Some tj -> i <> j ->
      md L ti = MW -> md L tj = MNone.
  Proof. intros [_ EX]. exact EX. Qed.

  (* two threads whose NEXT actions touch the same field, one of them writing: impossible *)
  Theorem inv_race_free C : inv C ->
    forall i j ti tj a b ka kb f wb,
      nth_error (thr V L C) i = Some ti -> nth_error (thr V L C) j = Some tj -> i <> j ->
      code L ti = a :: ka -> code L tj = b :: kb ->
      guarded_access a = Some (f, true) -> guarded_access b = Some (f, wb) -> False.
  Proof.
    intros [WL EX] i j ti tj a b ka kb f wb Hi Hj Ne Ca Cb Ga Gb.
    pose proof (WL i ti Hi) as Wi. pose proof (WL j tj Hj) as Wj. rewrite Ca in Wi. rewrite Cb in Wj.
    cbn in Wi, Wj.
    assert (Mi : md L ti = MW).
    { destruct a; cbn in Ga; try discriminate.
      - destruct (mem_str f0 guarded); discriminate.
      - inversion Ga; subst. cbn in Wi. destruct (mem_str f guarded); [|discriminate].
        destruct (md L ti); try discriminate; reflexivity. }
    pose proof (EX i j ti tj Hi Hj Ne Mi) as Mj. rewrite Mj in Wj.
    destruct b; cbn in Gb; try discriminate.
    - destruct (mem_str f0 guarded) eqn:G; [|discriminate]. cbn in Wj. rewrite G in Wj. discriminate.
    - inversion Gb; subst. cbn in Wj. destruct (mem_str f guarded); discriminate.
  Qed.

  (* ---- facts about completing a critical section ---- *)

  Lemma finish_reader_mem m l k h :
    run_tr MR k = Some h -> fst (fst (finish m l k)) = m.
  Proof.
    revert m l. induction k as [|a k IH]; intros m l R; cbn; auto.
    cbn in R. destruct a; cbn in *; try discriminate; auto.
    - destruct (mem_str f guarded); [|destruct (mem_str f immutable); [|discriminate]]; apply IH; auto.
    - destruct (mem_str f guarded); discriminate.
  Qed.

  Lemma finish_mem_unguarded m l k h h' f :
    run_tr h k = Some h' -> mem_str f guarded = false -> fst (fst (finish m l k)) f = m f.
  Proof.
    revert m l h. induction k as [|a k IH]; intros m l h R G; cbn; auto.
    cbn in R. destruct (act_ok h a) as [h1|] eqn:A; [|discriminate].
    destruct a; cbn; auto.
    - rewrite (IH _ _ _ R G). reflexivity.
    - rewrite (IH _ _ _ R G). reflexivity.
    - rewrite (IH _ _ _ R G). reflexivity.
    - rewrite (IH _ _ _ R G). cbn. unfold upd. destruct (String.eqb f f0) eqn:E; auto.
      apply String.eqb_eq in E. subst f0. cbn in A. rewrite G in A. discriminate.
  Qed.

  Lemma fin_thread_none m (t : thread) : md L t = MNone -> fin_thread m t = t.
  Proof. intro M. unfold Locks.fin_thread. rewrite (proj2 (is_none_md t) M). reflexivity. Qed.

  Lemma all_none_abs m ths :
    forallb is_none ths = true -> map (fin_thread m) ths = ths /\ find is_w ths = None.
  Proof.
    intro F. split.
    - rewrite <- (map_id ths) at 2. apply map_ext_in. intros u I.
      apply fin_thread_none, is_none_md. rewrite forallb_forall in F. auto.
    - apply find_none_nth. intros j u N. pose proof (proj1 (forallb_nth _ _) F j u N) as H.
      apply is_none_md in H. unfold Locks.is_w. rewrite H. reflexivity.
  Qed.

  (* ---- the simulation ---- *)

  Theorem sim_step C lb C' : inv C -> step C lb C' ->
    (outside lb = false /\ abs C' = abs C) \/
    (outside lb = true /\ astep (abs C) (fst (fst lb)) (abs C')).
  Proof.
    intros I S. pose proof (step_inv _ _ _ I S) as I'. destruct I as [WL EX].
    destruct (step_form _ _ _ S) as (i & t & a & k & m' & N & Cd & NM & -> & ->). clear S.
    pose proof (WL i t N) as W. rewrite Cd in W.
    destruct (step_mode _ _ _ _ _ W NM) as [A R].
    destruct C as [m ths]. cbn [thr cmem] in *.
    unfold Locks.outside. cbn [snd fst].
    destruct (md L t) eqn:Mt; cbn [mode_eqb].
    - (* the stepping thread is outside any critical section: an atomic step *)
      right. split; [reflexivity|].
      assert (FT : fin_thread m t = t) by (apply fin_thread_none; auto).
      destruct a; cbn in A; try discriminate.
      + (* Lock: everybody is lock-free; the whole section runs now *)
        cbn in NM. destruct (forallb is_none ths) eqn:F; [|discriminate]. inversion NM; subst m'.
        destruct (all_none_abs m _ F) as [Mp Fd].
        assert (AC : abs (mkCfg m ths) = mkCfg m ths).
        { unfold Locks.abs, Locks.abs_mem. cbn. rewrite Mp, Fd. reflexivity. }
        rewrite AC.
        assert (AC' : abs (mkCfg (fst (eff ALock m (loc L t))) (set_nth i (mkThread MW (snd (eff ALock m (loc L t))) k) ths))
                      = mkCfg (fst (fst (block m (loc L t) ALock k)))
                              (set_nth i (mkThread MNone (snd (fst (block m (loc L t) ALock k))) (snd (block m (loc L t) ALock k))) ths)).
        { unfold Locks.abs, Locks.abs_mem. cbn [thr cmem eff fst snd].
          rewrite (find_unique is_w _ i (mkThread MW (loc L t) k)).
          - cbn. f_equal. rewrite map_set_nth, Mp. reflexivity.
          - eapply nth_error_set_nth_eq; eauto.
          - reflexivity.
          - intros j u Nj Hj. rewrite nth_error_set_nth_neq in Hj by auto.
            pose proof (proj1 (forallb_nth _ _) F j u Hj) as Hn. apply is_none_md in Hn.
            unfold Locks.is_w. rewrite Hn. reflexivity. }
        rewrite AC'. apply (AStep V L rd wr (mkCfg m ths) i t ALock k); auto.
      + (* RLock: no writer; readers in progress only read *)
        unfold Locks.next_mode, Locks.is_none in NM. rewrite Mt in NM. cbn [mode_eqb andb] in NM.
        destruct (forallb (fun u => negb (is_w u)) ths) eqn:F; [|discriminate]. inversion NM; subst m'.
        assert (NW : forall j u, nth_error ths j = Some u -> is_w u = false).
        { intros j u Hj. pose proof (proj1 (forallb_nth _ _) F j u Hj) as Hn.
          cbn beta in Hn. destruct (is_w u); [discriminate Hn | reflexivity]. }
        assert (FM : fst (fst (finish m (loc L t) k)) = m) by (eapply finish_reader_mem; eauto).
        assert (AM : abs_mem (mkCfg m ths) = m).
        { unfold Locks.abs_mem. cbn. rewrite (find_none_nth is_w ths NW). reflexivity. }
        assert (AC' : abs (mkCfg (fst (eff ARLock m (loc L t))) (set_nth i (mkThread MR (snd (eff ARLock m (loc L t))) k) ths))
                      = mkCfg (fst (fst (block m (loc L t) ARLock k)))
                              (set_nth i (mkThread MNone (snd (fst (block m (loc L t) ARLock k))) (snd (block m (loc L t) ARLock k)))
                                       (map (fin_thread m) ths))).
        { unfold Locks.abs, Locks.abs_mem. cbn [thr cmem eff fst snd].
          rewrite (find_none_nth is_w).
          - cbn. rewrite FM. f_equal. rewrite map_set_nth. reflexivity.
          - intros j u Hj. destruct (Nat.eq_dec i j) as [->|Ne].
            + rewrite (nth_error_set_nth_eq _ _ _ _ N) in Hj. inversion Hj. reflexivity.
            + rewrite nth_error_set_nth_neq in Hj by auto. eauto. }
        rewrite AC'. unfold Locks.abs. cbn [thr cmem]. rewrite AM.
        apply (AStep V L rd wr (mkCfg m (map (fin_thread m) ths)) i t ARLock k); auto.
        cbn. rewrite (map_nth_error _ _ _ N), FT. reflexivity.
      + (* read of an immutable field outside the lock *)
        destruct (mem_str f guarded) eqn:G; [discriminate|].
        cbn in NM. inversion NM; subst m'.
        assert (AMf : abs_mem (mkCfg m ths) f = m f).
        { unfold Locks.abs_mem. cbn. destruct (find is_w ths) as [u|] eqn:Fd; auto.
          destruct (find_some _ _ Fd) as [Iu Wu]. destruct (In_nth_error _ _ Iu) as [j Hj].
          eapply finish_mem_unguarded; eauto. }
        assert (AM' : abs_mem (mkCfg m (set_nth i (mkThread MNone (rd f (m f) (loc L t)) k) ths)) = abs_mem (mkCfg m ths)).
        { unfold Locks.abs_mem. cbn. rewrite (find_set_nth_same is_w ths i t); auto.
          unfold Locks.is_w. rewrite Mt. reflexivity. }
        assert (AC' : abs (mkCfg m (set_nth i (mkThread MNone (rd f (m f) (loc L t)) k) ths))
                      = mkCfg (abs_mem (mkCfg m ths))
                              (set_nth i (mkThread MNone (rd f (abs_mem (mkCfg m ths) f) (loc L t)) k) (map (fin_thread m) ths))).
        { unfold Locks.abs. cbn [thr cmem]. rewrite AM', map_set_nth, AMf.
          rewrite (fin_thread_none m (mkThread MNone (rd f (m f) (loc L t)) k)) by reflexivity. reflexivity. }
        rewrite Mt.
        change (astep (abs (mkCfg m ths)) i (abs (mkCfg m (set_nth i (mkThread MNone (rd f (m f) (loc L t)) k) ths)))).
        rewrite AC'.
        pose proof (AStep V L rd wr (abs (mkCfg m ths)) i t (ARead f) k) as Q.
        cbn in Q. apply Q; auto.
        rewrite (map_nth_error _ _ _ N), FT. reflexivity.
      + destruct (mem_str f guarded); discriminate.
    - (* inside a read section: a stutter *)
      left. split; [reflexivity|].
      assert (NWt : is_w t = false) by (unfold Locks.is_w; rewrite Mt; reflexivity).
      destruct a; cbn in A; try discriminate.
      + (* RUnlock *)
        cbn in NM. inversion A; subst m'.
        unfold Locks.abs, Locks.abs_mem. cbn [thr cmem eff fst snd]. f_equal.
        * rewrite (find_set_nth_same is_w ths i t); auto.
        * apply (map_set_nth_ext _ _ i t); auto.
          unfold Locks.fin_thread, Locks.is_none. rewrite Mt, Cd. reflexivity.
      + (* Read *)
        assert (m' = MR) by (destruct (mem_str f guarded); [|destruct (mem_str f immutable)]; congruence).
        subst m'.
        unfold Locks.abs, Locks.abs_mem. cbn [thr cmem eff fst snd]. f_equal.
        * rewrite (find_set_nth_same is_w ths i t); auto.
        * apply (map_set_nth_ext _ _ i t); auto.
          unfold Locks.fin_thread, Locks.is_none. rewrite Mt, Cd. reflexivity.
      + destruct (mem_str f guarded); discriminate.
    - (* inside the write section: a stutter *)
      left. split; [reflexivity|].
      assert (Wt : is_w t = true) by (unfold Locks.is_w; rewrite Mt; reflexivity).
      assert (OTH : forall j u, j <> i -> nth_error ths j = Some u -> md L u = MNone).
      { intros j u Nj Hj. eapply (EX i j); eauto. }
      assert (OTHW : forall j u, j <> i -> nth_error ths j = Some u -> is_w u = false).
      { intros j u Nj Hj. unfold Locks.is_w. rewrite (OTH j u Nj Hj). reflexivity. }
      assert (FD : find is_w ths = Some t) by (eapply find_unique; eauto).
      assert (OTHF : forall mm mm' j u, j <> i -> nth_error ths j = Some u -> fin_thread mm u = fin_thread mm' u).
      { intros mm mm' j u Nj Hj. rewrite !fin_thread_none; eauto. }
      destruct a; cbn in A; try discriminate.
      + (* Unlock *)
        inversion A; subst m'.
        unfold Locks.abs, Locks.abs_mem. cbn [thr cmem eff fst snd]. rewrite FD, Cd. cbn. f_equal.
        * rewrite (find_none_nth is_w); auto.
          intros j u Hj. destruct (Nat.eq_dec i j) as [->|Ne].
          -- rewrite (nth_error_set_nth_eq _ _ _ _ N) in Hj. inversion Hj. reflexivity.
          -- rewrite nth_error_set_nth_neq in Hj by auto. eauto.
        * apply (map_set_nth_ext _ _ i t); auto.
          unfold Locks.fin_thread, Locks.is_none. rewrite Mt, Cd. reflexivity.
      + (* Read *)
        assert (m' = MW) by (destruct (mem_str f guarded); [|destruct (mem_str f immutable)]; congruence).
        subst m'.
        unfold Locks.abs, Locks.abs_mem. cbn [thr cmem eff fst snd]. rewrite FD, Cd.
        rewrite (find_unique is_w _ i (mkThread MW (rd f (m f) (loc L t)) k)).
        * cbn. f_equal. apply (map_set_nth_ext _ _ i t); eauto.
          unfold Locks.fin_thread, Locks.is_none. rewrite Mt, Cd. reflexivity.
        * eapply nth_error_set_nth_eq; eauto.
        * reflexivity.
        * intros j u Nj Hj. rewrite nth_error_set_nth_neq in Hj by auto. eauto.
      + (* Write *)
        assert (m' = MW) by (destruct (mem_str f guarded); congruence).
        subst m'.
        unfold Locks.abs, Locks.abs_mem. cbn [thr cmem eff fst snd]. rewrite FD, Cd.
        rewrite (find_unique is_w _ i (mkThread MW (loc L t) k)).
        * cbn. f_equal. apply (map_set_nth_ext _ _ i t); eauto.
          unfold Locks.fin_thread, Locks.is_none. rewrite Mt, Cd. reflexivity.
        * eapply nth_error_set_nth_eq; eauto.
        * reflexivity.
        * intros j u Nj Hj. rewrite nth_error_set_nth_neq in Hj by auto. eauto.
  Qed.

  Lemma atomic_trace_snoc tr lb :
    atomic_trace (tr ++ [lb]) = atomic_trace tr ++ (if outside lb then [fst (fst lb)] else []).
  Proof.
    unfold Locks.atomic_trace. rewrite filter_app, map_app. cbn. destruct (outside lb); reflexivity.
  Qed.

  Theorem sim_reach C tr C' : inv C -> reach C tr C' ->
    inv C' /\ areach (abs C) (atomic_trace tr) (abs C').
  Proof.
    intros I R. induction R as [C|C tr C1 lb C2 R IH S].
    - split; auto. constructor.
    - destruct (IH I) as [I1 AR]. split; [eapply step_inv; eauto|].
      rewrite atomic_trace_snoc.
      destruct (sim_step _ _ _ I1 S) as [[O E]|[O AS]]; rewrite O.
      + rewrite app_nil_r, E. exact AR.
      + econstructor; eauto.
  Qed.

  (* initial configurations *)
  Lemma init_inv m progs :
    Forall (fun p => wl_trace guarded immutable (snd p)) progs -> inv (init_cfg m progs).
  Proof.
    intro F. constructor; unfold Locks.init_cfg; cbn.
    - intros i t N. rewrite nth_error_map in N. destruct (nth_error progs i) as [p|] eqn:E; [|discriminate].
      inversion N; subst. cbn. rewrite Forall_forall in F. apply F. eapply nth_error_In; eauto.
    - intros i j ti tj Hi _ _ M. rewrite nth_error_map in Hi.
      destruct (nth_error progs i); [|discriminate]. inversion Hi; subst. discriminate.
  Qed.

  Lemma abs_quiescent C :
    (forall i t, nth_error (thr V L C) i = Some t -> md L t = MNone) -> abs C = C.
  Proof.
    intro H. destruct C as [m ths]. cbn in H.
    assert (F : forallb is_none ths = true).
    { apply forallb_nth. intros j u N. apply is_none_md. eauto. }
    destruct (all_none_abs m _ F) as [Mp Fd].
    unfold Locks.abs, Locks.abs_mem. cbn. rewrite Mp, Fd. reflexivity.
  Qed.

  Lemma abs_init m progs : abs (init_cfg m progs) = init_cfg m progs.
  Proof.
    apply abs_quiescent. unfold Locks.init_cfg. cbn. intros i t N. rewrite nth_error_map in N.
    destruct (nth_error progs i); [|discriminate]. inversion N; reflexivity.
  Qed.

  (* a configuration in which every thread has finished *)
  Definition finished (C : cfg) : Prop := forall i t, nth_error (thr V L C) i = Some t -> code L t = [].

  Lemma finished_quiescent C : inv C -> finished C -> abs C = C.
  Proof.
    intros [WL _] F. apply abs_quiescent. intros i t N.
    pose proof (WL i t N) as W. rewrite (F i t N) in W. cbn in W. congruence.
  Qed.
End Sem.
