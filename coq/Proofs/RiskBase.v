(* C09 - common definitions for the per-function no-panic theorems, and the bulk theorem for
   the entry points that need NO precondition at all: for every environment (all argument
   lengths, all integer / enum values, all results of foreign calls, all receiver fields)
   no path of the skeleton panics. *)
From Coq Require Import ZArith List String Bool Lia.
From V Require Import Model.Risk Generated.RiskSkel Proofs.RiskProofs.
Import ListNotations.
Open Scope string_scope.
Open Scope Z_scope.

(* call depth bound of the inlining of callees (the deepest chain in the library is 7) *)
Definition risk_fuel : nat := 12.

Definition safe (body : list ev) (e : env) : Prop :=
  Forall no_panic (exec risk_prog risk_fuel body e).

(* f has a skeleton and no environment makes it panic *)
Definition safe_fn (f : string) : Prop :=
  exists body, risk_prog f = Some body /\ forall e, safe body e.

Ltac safe_fn_tac :=
  eexists; split; [vm_compute; reflexivity | unfold safe, risk_fuel; risk_auto].

Definition unconditional : list string :=
  ["BLSGeneratePOP"; "BLSInvalidSignature"; "BLSVerifyPOP"; "DecodePrivateKey";
   "DecodePublicKey"; "DecodePublicKeyCompressed"; "EnoughShares"; "GeneratePrivateKey";
   "IdentityBLSPublicKey"; "IsBLSAggregateEmptyListError"; "IsBLSSignatureIdentity"; "IsDKGFailureError";
   "IsDKGInvalidStateTransitionError"; "IsDuplicatedSignerError"; "IsInvalidHasherSizeError"; "IsInvalidInputsError";
   "IsInvalidSignatureError"; "IsNilHasherError"; "IsNotBLSKeyError"; "IsNotEnoughSharesError";
   "JointFeldmanState.Running"; "NewFeldmanVSS"; "NewFeldmanVSSQual"; "SPOCKProve";
   "SPOCKVerify"; "SPOCKVerifyAgainstData"; "Signature.Bytes"; "Signature.String";
   "SigningAlgorithm.String"; "blsThresholdSignatureInspector.EnoughShares"; "blsThresholdSignatureInspector.HasShare"; "blsThresholdSignatureInspector.TrustedAdd";
   "blsThresholdSignatureInspector.VerifyThresholdSignature"; "blsThresholdSignatureParticipant.SignShare"; "dkgCommon.NextTimeout"; "dkgCommon.Running";
   "dkgCommon.Size"; "dkgCommon.Threshold"; "dkgInvalidStateTransitionError.Unwrap"; "feldmanVSSQualState.ForceDisqualify";
   "feldmanVSSstate.ForceDisqualify"; "hash.ComputeSHA2_256"; "hash.Hash.Equal"; "hash.Hash.Hex";
   "hash.Hash.String"; "hash.HashingAlgorithm.String"; "hash.NewKeccak_256"; "hash.NewSHA2_256";
   "hash.NewSHA2_384"; "hash.NewSHA3_256"; "hash.NewSHA3_384"; "hash.kmac128.Algorithm";
   "hash.kmac128.Reset"; "hash.kmac128.Size"; "hash.sha2_256Algo.Algorithm"; "hash.sha2_256Algo.ComputeHash";
   "hash.sha2_256Algo.SumHash"; "hash.sha2_384Algo.Algorithm"; "hash.sha2_384Algo.ComputeHash"; "hash.sha2_384Algo.SumHash";
   "hash.spongeState.Algorithm"; "hash.spongeState.Reset"; "hash.spongeState.Size"; "invalidHasherSizeError.Unwrap";
   "invalidInputsError.Unwrap"; "pointE2.String"; "prKeyBLSBLS12381.Algorithm"; "prKeyBLSBLS12381.Encode";
   "prKeyBLSBLS12381.Equals"; "prKeyBLSBLS12381.PublicKey"; "prKeyBLSBLS12381.Size"; "prKeyBLSBLS12381.String";
   "prKeyECDSA.Algorithm"; "prKeyECDSA.Equals"; "prKeyECDSA.PublicKey"; "prKeyECDSA.Size";
   "pubKeyBLSBLS12381.Algorithm"; "pubKeyBLSBLS12381.Encode"; "pubKeyBLSBLS12381.EncodeCompressed"; "pubKeyBLSBLS12381.Equals";
   "pubKeyBLSBLS12381.Size"; "pubKeyBLSBLS12381.String"; "pubKeyECDSA.Algorithm"; "pubKeyECDSA.EncodeCompressed";
   "pubKeyECDSA.Equals"; "pubKeyECDSA.Size"; "random.NewChacha20PRG"; "random.chachaPRG.Store";
   "scalar.String"; "blsBLS12381Algo.decodePrivateKey"; "blsBLS12381Algo.decodePublicKey"; "blsBLS12381Algo.decodePublicKeyCompressed";
   "ecdsaAlgo.decodePublicKeyCompressed"].

Theorem unconditional_safe : Forall safe_fn unconditional.
Proof.
  unfold unconditional.
  repeat (apply Forall_cons; [safe_fn_tac|]).
  apply Forall_nil.
Qed.

(* bodies of the loops of a skeleton, in source order (outer before inner): used to state
   facts about what ONE iteration does, e.g. "a share of the wrong length makes the
   iteration return", which justify the stated lengths of accumulated buffers *)
Fixpoint loops_ev (x : ev) : list (list ev) :=
  let lst := fix lst (l : list ev) : list (list ev) :=
               match l with [] => [] | y :: r => (loops_ev y ++ lst r)%list end in
  match x with
  | EIf _ a b => (lst a ++ lst b)%list
  | ELoopRange _ _ b | ELoopN _ _ _ b | ELoopWhile _ b => b :: lst b
  | _ => []
  end.

Definition loops (l : list ev) : list (list ev) := flat_map loops_ev l.

Definition loop_body (l : list ev) (k : nat) : list ev := nth k (loops l) [].

(* every path of the body returns (it never reaches the end of the iteration) *)
Definition always_returns (body : list ev) (e : env) : Prop :=
  Forall (fun o => exists tag vs e', o = Returned tag vs e' /\ True) (exec risk_prog risk_fuel body e).

Ltac returns_auto := unfold always_returns, risk_fuel; intros; apply wp_returns; risk_simpl; risk_split; risk_arith.

(* ---- cutting a callee: the theorem is then about the caller's own operations, and says so.
   Only used for callees that take nothing from the caller but a byte string of arbitrary
   length and are covered elsewhere (the Keccak sponge: Properties/C13). ---- *)
Definition cut_prog (cut : list string) (f : string) : option (list ev) :=
  if existsb (String.eqb f) cut then Some [] else risk_prog f.

Definition safe_cut (cut : list string) (body : list ev) (e : env) : Prop :=
  Forall no_panic (exec (cut_prog cut) risk_fuel body e).

Definition sponge_cut : list string := ["hash.ComputeSHA3_256"].
