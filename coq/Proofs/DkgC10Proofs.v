(* C10: the three DKG models follow the documented API automaton (Spec/DkgApiSpec.v) on
   every call sequence; refused calls are no-ops; End leaves the instance not running. *)
From Coq Require Import ZArith List Bool Arith Lia.
From V Require Import Model.DkgVss Model.DkgQual Model.DkgJoint Spec.DkgApiSpec Proofs.DkgTactics.
Import ListNotations.
Open Scope Z_scope.

Local Opaque peval fixpoly r.

(* ------------------------------------------------------------------ *)
(* generic: a step function simulated by the automaton                 *)
(* ------------------------------------------------------------------ *)
Section Sim.
Context {S : Type}.
Variable step : S -> call -> S * result * list event.
Variable astep : astate -> call -> astate * rclass.
Variable inv : S -> Prop.
Variable abs : S -> astate.

Hypothesis step_sim : forall s c, inv s ->
  let '(s', res, _) := step s c in
  let '(A', k) := astep (abs s) c in
  inv s' /\ abs s' = A' /\ class_of res = Some k.

Fixpoint atrace (A : astate) (cs : list call) : list rclass :=
  match cs with
  | [] => []
  | c :: cs' => let '(A', k) := astep A c in k :: atrace A' cs'
  end.

Lemma run_follows : forall cs s, inv s ->
  map (fun o => class_of (fst o)) (run step s cs) = map Some (atrace (abs s) cs).
Proof.
  induction cs as [|c cs IH]; intros s Hs; [reflexivity|].
  cbn [run atrace]. pose proof (step_sim s c Hs) as H.
  destruct (step s c) as [[s' res] ev]. destruct (astep (abs s) c) as [A' k].
  destruct H as (Hi & Ha & Hc). cbn [map fst]. rewrite Hc. f_equal.
  subst A'. destruct res; try (apply IH; assumption); discriminate Hc.
Qed.

Lemma atrace_length : forall cs A, length (atrace A cs) = length cs.
Proof.
  induction cs as [|c cs IH]; intros A; [reflexivity|].
  cbn. destruct (astep A c). cbn. f_equal. apply IH.
Qed.

Lemma run_length : forall cs s, inv s -> length (run step s cs) = length cs.
Proof.
  intros cs s Hs. pose proof (run_follows cs s Hs) as H.
  apply (f_equal (@length _)) in H. rewrite !map_length in H. rewrite H. apply atrace_length.
Qed.

Lemma final_inv : forall cs s, inv s -> inv (final step s cs).
Proof.
  induction cs as [|c cs IH]; intros s Hs; [exact Hs|].
  cbn [final]. pose proof (step_sim s c Hs) as H.
  destruct (step s c) as [[s' res] ev]. destruct (astep (abs s) c) as [A' k].
  destruct H as (Hi & _ & Hc). destruct res; try (apply IH; assumption); discriminate Hc.
Qed.
End Sim.

(* ------------------------------------------------------------------ *)
(* generateShares                                                       *)
(* ------------------------------------------------------------------ *)
Section Gen.
Variable cf : cfg.
Let n := c_n cf.
Let my := c_my cf.

Lemma gen_loop_spec a js :
  let '(ev, ys, ok) := gen_loop cf a js in
  (length ys <= length js)%nat /\ (ok = true -> length ys = length js) /\
  ok = negb (existsb (Nat.eqb my) js && (peval a (Z.of_nat my + 1) =? 0)).
Proof.
  induction js as [|j js IH]; cbn [gen_loop existsb length].
  - repeat split; auto.
  - destruct (gen_loop cf a js) as [[ev ys] ok]. destruct IH as (IH1 & IH2 & IH3).
    fold my. rewrite (Nat.eqb_sym my j).
    destruct (Nat.eqb_spec j my) as [->|Hne].
    + destruct (peval a (Z.of_nat my + 1) =? 0) eqn:E0; cbn [length].
      * repeat split; try lia. discriminate.
      * rewrite andb_false_r in *. cbn in IH3. repeat split; try lia. intros; f_equal; auto. exact IH3.
    + cbn [length orb]. repeat split; try lia. intros; f_equal; auto. exact IH3.
Qed.

Lemma existsb_seq_my k : (my < k)%nat -> existsb (Nat.eqb my) (seq 0 k) = true.
Proof.
  intro H. apply existsb_exists. exists my. split; [apply in_seq; lia|apply Nat.eqb_refl].
Qed.
End Gen.

(* ------------------------------------------------------------------ *)
(* plain Feldman VSS                                                    *)
(* ------------------------------------------------------------------ *)
Section Vss.
Variable cf : cfg.
Variable d : nat.
Hypothesis Hmy : (c_my cf < c_n cf)%nat.

Let n := c_n cf.
Let my := c_my cf.
Let dealer := Nat.eqb my d.

Definition vabs (s : vstate) : astate := mkA (vs_run s) 0.

(* what no-panic needs *)
Definition v_wf (v : vinst) : Prop :=
  (forall ys, v_y v = Some ys -> length ys = n) /\
  (v_valid v = true -> v_vArecv v = true /\ exists ys, v_y v = Some ys) /\
  (v_vArecv v = true -> (exists ys, v_y v = Some ys) -> exists a0 al, v_vA v = VAFull (a0 :: al)) /\
  (my <> d -> v_vArecv v = false -> v_y v = None).

Definition vinv (s : vstate) : Prop := v_wf (vs_v s).

Lemma fixpoly_cons t l : exists a0 al, fixpoly t l = a0 :: al.
Proof.
  Local Transparent fixpoly.
  unfold fixpoly. destruct (map (fun z => z mod r) l ++ repeat 0 (S t)) eqn:E.
  - destruct (map (fun z : Z => z mod r) l); discriminate E.
  - cbn. eauto.
  Local Opaque fixpoly.
Qed.

Lemma pubkeys_length a : length (pubkeys cf a) = n.
Proof. unfold pubkeys. rewrite map_length, seq_length. reflexivity. Qed.

Lemma verify_share_some v : (forall ys, v_y v = Some ys -> length ys = n) ->
  (exists ys, v_y v = Some ys) -> exists b, verify_share cf v = Some b.
Proof.
  intros H [ys E]. unfold verify_share. rewrite E. specialize (H ys E).
  destruct (nth_error ys (c_my cf)) eqn:En; [eauto|].
  apply nth_error_None in En. fold n my in *. lia.
Qed.

(* generateShares keeps well-formedness and succeeds iff the seed does not fail *)
Lemma gen_shares_spec sd v : my = d -> v_wf v ->
  let '(v', res, ev) := gen_shares cf sd v in
  v_wf v' /\ res = (if seed_fails cf sd then RInvalidInput else ROk) /\
  (sd = SeedShort -> v' = v /\ ev = []) /\
  (res = ROk -> exists a0 al, v_a v' = Some (a0 :: al)) /\
  (forall a0 al, v_a v = Some (a0 :: al) -> exists a0 al, v_a v' = Some (a0 :: al)).
Proof.
  intros Hd Hwf. unfold gen_shares, seed_fails. destruct sd as [|a0].
  { repeat split; auto; try apply Hwf; try discriminate. eauto. }
  pose proof (gen_loop_spec cf (fixpoly (c_t cf) a0) (seq 0 (c_n cf))) as HL.
  destruct (gen_loop cf (fixpoly (c_t cf) a0) (seq 0 (c_n cf))) as [[ev ys] ok].
  destruct HL as (L1 & L2 & L3). rewrite seq_length in L1, L2.
  rewrite existsb_seq_my in L3 by exact Hmy. cbn [andb] in L3.
  destruct (fixpoly_cons (c_t cf) a0) as (b0 & bl & Eb).
  assert (Hlen : length (ys ++ repeat 0 (c_n cf - length ys)) = n).
  { rewrite app_length, repeat_length. fold n. unfold n. lia. }
  destruct Hwf as (W1 & W3 & W4 & W5).
  destruct ok; cbn in L3.
  - apply negb_true_iff in L3. rewrite L3. unfold v_wf. cbn. rewrite Eb.
    repeat split; try discriminate; eauto; try congruence.
    intros ys' E. inversion E; subst. exact Hlen.
  - apply negb_false_iff in L3. rewrite L3. unfold v_wf. cbn. rewrite Eb.
    repeat split; try discriminate; eauto; try congruence.
    + intros ys' E. inversion E; subst. exact Hlen.
    + intro Hv. destruct (W3 Hv) as [Hr _]. exact Hr.
Qed.

Lemma vss_step_sim s c : vinv s ->
  let '(s', res, _) := vss_step cf d s c in
  let '(A', k) := aut_step PVss cf dealer (vabs s) c in
  vinv s' /\ vabs s' = A' /\ class_of res = Some k.
Proof.
  intros Hwf. destruct s as [run v]. unfold vinv in *. cbn [vs_v] in Hwf.
  destruct c as [sd| | | |o m|o m|j]; cbn [vss_step vs_run vs_v aut_step vabs a_run a_to has_timeouts negb].
  - (* Start *)
    unfold vss_start. destruct run; cbn; [auto|].
    unfold dealer. rewrite (Nat.eqb_sym d (c_my cf)). fold my.
    destruct (Nat.eqb_spec my d) as [Ed|Ed]; cbn; [|auto].
    pose proof (gen_shares_spec sd v Ed Hwf) as HG.
    destruct (gen_shares cf sd v) as [[v' res] ev]. destruct HG as (G1 & G2 & _).
    subst res. destruct (seed_fails cf sd); cbn; auto.
  - auto.
  - (* End *)
    unfold vss_end. destruct run; cbn; [|auto].
    destruct (v_valid v) eqn:Ev; cbn; [|auto].
    destruct Hwf as (W1 & W3 & W4 & W5). destruct (W3 Ev) as [Hr (ys & Ey)].
    destruct (W4 Hr (ex_intro _ ys Ey)) as (a0 & al & Ea).
    unfold end_keys. rewrite Ea, Ey. rewrite (W1 _ Ey). fold n. rewrite Nat.ltb_irrefl.
    repeat split; auto. destruct (v_x v =? 0); [reflexivity|]. destruct (a0 =? 0); reflexivity.
  - auto.
  - (* HandleBroadcastMsg *)
    unfold vss_broadcast. destruct run; cbn; [|auto].
    destruct (in_range cf o); cbn; [|auto].
    destruct (Nat.eqb_spec (c_my cf) (Z.to_nat o)) as [Emo|Emo]; cbn; [auto|].
    destruct m as [|sb|vb|cb|ab|tg]; cbn; auto.
    unfold vss_receive_vector.
    destruct (Nat.eqb_spec (Z.to_nat o) d) as [Eod|Eod]; cbn; [|auto].
    assert (Hnd : my <> d) by (unfold my; congruence).
    destruct (v_vArecv v) eqn:Er; cbn; [auto|].
    destruct Hwf as (W1 & W3 & W4 & W5).
    pose proof (W5 Hnd Er) as Ey.
    destruct vb as [|k|l]; cbn.
    + repeat split; auto; cbn; try discriminate; try congruence.
      intros _ [ys E]. congruence.
    + repeat split; auto; cbn; try discriminate; try congruence.
      intros _ [ys E]. congruence.
    + set (v1 := set_vArecv _ true).
      destruct (fixpoly_cons (c_t cf) l) as (a0 & al & Ea).
      assert (Wv1 : v_wf v1).
      { unfold v_wf, v1. cbn. rewrite Ea. repeat split; eauto; try discriminate.
        - intros ys E. inversion E. apply pubkeys_length.
        - intro Hv. destruct (W3 Hv). congruence. }
      destruct (v_xrecv v) eqn:Ex; cbn [v_xrecv v1 set_vArecv set_y set_vA]; rewrite Ex.
      * destruct (verify_share_some v1) as [b Eb]; [apply Wv1|cbn; eauto|].
        rewrite Eb. cbn. repeat split; auto.
        destruct Wv1 as (V1 & V3 & V4 & V5). unfold v_wf. cbn in *. rewrite Ea in *.
        repeat split; eauto.
      * cbn. repeat split; auto.
  - (* HandlePrivateMsg *)
    unfold vss_private. destruct run; cbn; [|auto].
    destruct (in_range cf o); cbn; [|auto].
    destruct (Nat.eqb_spec (c_my cf) (Z.to_nat o)) as [Emo|Emo]; cbn; [auto|].
    unfold vss_receive_share.
    destruct (Nat.eqb_spec (Z.to_nat o) d) as [Eod|Eod]; cbn; [|auto].
    destruct (v_xrecv v) eqn:Ex; cbn; [auto|].
    destruct Hwf as (W1 & W3 & W4 & W5).
    assert (Hbad : v_wf (set_valid (set_xrecv v true) false)).
    { unfold v_wf. cbn. repeat split; auto; discriminate. }
    destruct m as [|sb|vb|cb|ab|tg]; cbn; auto.
    destruct sb as [|z]; cbn; auto.
    destruct (read_star z (v_x v)) as [ok x'] eqn:Ers. cbn.
    destruct ok; cbn.
    + destruct (v_vArecv v) eqn:Er; cbn.
      * destruct (v_y v) as [ys|] eqn:Ey; cbn.
        -- set (v2 := set_x _ x').
           destruct (verify_share_some v2) as [b Eb]; [exact W1|cbn; eauto|].
           rewrite Eb. cbn. repeat split; auto.
           unfold v_wf. cbn. rewrite Er, Ey. repeat split; eauto.
        -- repeat split; auto. unfold v_wf. cbn. rewrite Er, Ey. repeat split; auto.
           intro Hv. destruct (W3 Hv) as [_ [ys E]]. congruence.
      * repeat split; auto. unfold v_wf. cbn. rewrite Er. repeat split; auto.
        intro Hv. destruct (W3 Hv). congruence.
    + repeat split; auto. unfold v_wf. cbn. repeat split; auto; discriminate.
  - (* ForceDisqualify *)
    unfold vss_force. destruct run; cbn; [|auto].
    destruct (in_range cf j); cbn; [|auto].
    destruct (Nat.eqb (Z.to_nat j) d); cbn; auto.
    repeat split; auto; cbn; try apply Hwf; discriminate.
Qed.

End Vss.
