(* C10: the three DKG models follow the documented API automaton (Spec/DkgApiSpec.v) on
   every call sequence; refused calls are no-ops; End leaves the instance not running. *)
From Coq Require Import ZArith List Bool Arith Lia.
From V Require Import Model.DkgVss Model.DkgQual Model.DkgJoint Spec.DkgApiSpec Proofs.DkgTactics.
Import ListNotations.
Open Scope Z_scope.

Local Opaque peval fixpoly r.

(* ------------------------------------------------------------------ *)
(* generic: a step function simulated by the automaton                 *)
(* ------------------------------------------------------------------ *)
Section Sim.
Context {S : Type}.
Variable step : S -> call -> S * result * list event.
Variable p : proto.
Variable cf : cfg.
Variable dealer : bool.
Variable inv : S -> Prop.
Variable abs : S -> astate.

Hypothesis step_sim : forall s c, inv s ->
  let '(s', res, _) := step s c in
  let '(A', k) := aut_step p cf dealer (abs s) c in
  inv s' /\ abs s' = A' /\ class_of res = Some k.

Lemma run_follows : forall cs s, inv s ->
  map (fun o => class_of (fst o)) (run step s cs) = map Some (aut_trace p cf dealer (abs s) cs).
Proof.
  induction cs as [|c cs IH]; intros s Hs; [reflexivity|].
  cbn [run aut_trace]. pose proof (step_sim s c Hs) as H.
  destruct (step s c) as [[s' res] ev]. destruct (aut_step p cf dealer (abs s) c) as [A' k].
  destruct H as (Hi & Ha & Hc). cbn [map fst]. rewrite Hc. f_equal.
  subst A'. destruct res; try (apply IH; assumption); discriminate Hc.
Qed.

Lemma aut_trace_length : forall cs A, length (aut_trace p cf dealer A cs) = length cs.
Proof.
  induction cs as [|c cs IH]; intros A; [reflexivity|].
  cbn [aut_trace]. destruct (aut_step p cf dealer A c). cbn. f_equal. apply IH.
Qed.

Lemma run_length : forall cs s, inv s -> length (run step s cs) = length cs.
Proof.
  intros cs s Hs. pose proof (run_follows cs s Hs) as H.
  apply (f_equal (@length _)) in H. rewrite !map_length in H. rewrite H. apply aut_trace_length.
Qed.

Lemma final_inv : forall cs s, inv s -> inv (final step s cs).
Proof.
  induction cs as [|c cs IH]; intros s Hs; [exact Hs|].
  cbn [final]. pose proof (step_sim s c Hs) as H.
  destruct (step s c) as [[s' res] ev]. destruct (aut_step p cf dealer (abs s) c) as [A' k].
  destruct H as (Hi & _ & Hc). destruct res; try (apply IH; assumption); discriminate Hc.
Qed.

Lemma final_abs : forall cs s A, inv s -> abs s = A ->
  abs (final step s cs) = fold_left (fun A c => fst (aut_step p cf dealer A c)) cs A.
Proof.
  induction cs as [|c cs IH]; intros s A Hs HA; [exact HA|].
  cbn [final fold_left]. pose proof (step_sim s c Hs) as H.
  destruct (step s c) as [[s' res] ev]. rewrite HA in H.
  destruct (aut_step p cf dealer A c) as [A' k]. cbn [fst].
  destruct H as (Hi & Ha & Hc). destruct res; try (apply IH; assumption); discriminate Hc.
Qed.
End Sim.

(* ------------------------------------------------------------------ *)
(* generateShares                                                       *)
(* ------------------------------------------------------------------ *)
Section Gen.
Variable cf : cfg.
Let n := c_n cf.
Let my := c_my cf.

Lemma gen_loop_spec a js :
  let '(ev, ys, ok) := gen_loop cf a js in
  (length ys <= length js)%nat /\ (ok = true -> length ys = length js) /\
  ok = negb (existsb (Nat.eqb my) js && (peval a (Z.of_nat my + 1) =? 0)).
Proof.
  induction js as [|j js IH]; cbn [gen_loop existsb length].
  - repeat split; auto.
  - destruct (gen_loop cf a js) as [[ev ys] ok]. destruct IH as (IH1 & IH2 & IH3).
    fold my. rewrite (Nat.eqb_sym my j).
    destruct (Nat.eqb_spec j my) as [->|Hne].
    + destruct (peval a (Z.of_nat my + 1) =? 0) eqn:E0; cbn [length orb andb negb].
      * split; [lia|]. split; [discriminate|reflexivity].
      * rewrite andb_false_r in *. cbn in IH3. split; [lia|]. split; [intros; f_equal; auto|exact IH3].
    + cbn [length orb]. split; [lia|]. split; [intros; f_equal; auto|exact IH3].
Qed.

Lemma existsb_seq_my k : (my < k)%nat -> existsb (Nat.eqb my) (seq 0 k) = true.
Proof.
  intro H. apply existsb_exists. exists my. split; [apply in_seq; lia|apply Nat.eqb_refl].
Qed.
End Gen.

(* ------------------------------------------------------------------ *)
(* plain Feldman VSS                                                    *)
(* ------------------------------------------------------------------ *)
Section Vss.
Variable cf : cfg.
Variable d : nat.
Hypothesis Hmy : (c_my cf < c_n cf)%nat.

Let n := c_n cf.
Let my := c_my cf.
Let dealer := Nat.eqb my d.

Definition vabs (s : vstate) : astate := mkA (vs_run s) 0.

(* what no-panic needs *)
Definition v_wf (v : vinst) : Prop :=
  (forall ys, v_y v = Some ys -> length ys = n) /\
  (v_valid v = true -> v_vArecv v = true /\ exists ys, v_y v = Some ys) /\
  (v_vArecv v = true -> (exists ys, v_y v = Some ys) -> exists a0 al, v_vA v = VAFull (a0 :: al)) /\
  (my <> d -> v_vArecv v = false -> v_y v = None).

Definition vinv (s : vstate) : Prop := v_wf (vs_v s).

Lemma fixpoly_cons t l : exists a0 al, fixpoly t l = a0 :: al.
Proof.
  Local Transparent fixpoly.
  unfold fixpoly. destruct (map (fun z => z mod r) l ++ repeat 0 (S t)) eqn:E.
  - destruct (map (fun z : Z => z mod r) l); discriminate E.
  - cbn. eauto.
  Local Opaque fixpoly.
Qed.

Lemma pubkeys_length a : length (pubkeys cf a) = n.
Proof. unfold pubkeys. rewrite map_length, seq_length. reflexivity. Qed.

Lemma verify_share_some v : (forall ys, v_y v = Some ys -> length ys = n) ->
  (exists ys, v_y v = Some ys) -> exists b, verify_share cf v = Some b.
Proof.
  intros H [ys E]. unfold verify_share. rewrite E. specialize (H ys E).
  destruct (nth_error ys (c_my cf)) eqn:En; [eauto|].
  apply nth_error_None in En. unfold n in H. lia.
Qed.

(* generateShares keeps well-formedness and succeeds iff the seed does not fail *)
Lemma gen_shares_spec sd v : my = d -> v_wf v ->
  let '(v', res, ev) := gen_shares cf sd v in
  v_wf v' /\ res = (if seed_fails cf sd then RInvalidInput else ROk) /\
  (sd = SeedShort -> v' = v /\ ev = []) /\
  (res = ROk -> exists a0 al, v_a v' = Some (a0 :: al)) /\
  (forall a0 al, v_a v = Some (a0 :: al) -> exists a0 al, v_a v' = Some (a0 :: al)).
Proof.
  intros Hd Hwf. unfold gen_shares, seed_fails. destruct sd as [|a0].
  { split; [exact Hwf|]. split; [reflexivity|]. split; [auto|]. split; [discriminate|eauto]. }
  pose proof (gen_loop_spec cf (fixpoly (c_t cf) a0) (seq 0 (c_n cf))) as HL.
  destruct (gen_loop cf (fixpoly (c_t cf) a0) (seq 0 (c_n cf))) as [[ev ys] ok].
  destruct HL as (L1 & L2 & L3). rewrite seq_length in L1, L2.
  rewrite existsb_seq_my in L3 by exact Hmy. cbn [andb] in L3.
  destruct (fixpoly_cons (c_t cf) a0) as (b0 & bl & Eb).
  assert (Hlen : length (ys ++ repeat 0 (c_n cf - length ys)) = n).
  { rewrite app_length, repeat_length. unfold n. lia. }
  destruct Hwf as (W1 & W3 & W4 & W5).
  destruct ok; cbn in L3.
  - symmetry in L3. apply negb_true_iff in L3. rewrite L3. unfold v_wf. cbn. rewrite Eb.
    split; [|split; [reflexivity|split; [discriminate|split; eauto]]].
    split; [intros ys' E; inversion E; subst; exact Hlen|].
    split; [eauto|]. split; [eauto|]. intros; congruence.
  - symmetry in L3. apply negb_false_iff in L3. rewrite L3. unfold v_wf. cbn. rewrite Eb.
    split; [|split; [reflexivity|split; [discriminate|split; [discriminate|eauto]]]].
    split; [intros ys' E; inversion E; subst; exact Hlen|].
    split; [intro Hv; destruct (W3 Hv) as [Hr _]; eauto|].
    split; [eauto|]. intros; congruence.
Qed.

Ltac wfin :=
  unfold v_wf in *; cbn in *;
  repeat match goal with
  | H : _ /\ _ |- _ => destruct H
  | |- _ /\ _ => split
  end; intros; subst;
  repeat match goal with
  | H : Some _ = Some _ |- _ => inversion H; subst; clear H
  | H : exists _, _ |- _ => destruct H
  end;
  try discriminate; try congruence; try reflexivity; eauto using pubkeys_length.

Lemma vss_step_sim s c : vinv s ->
  let '(s', res, _) := vss_step cf d s c in
  let '(A', k) := aut_step PVss cf dealer (vabs s) c in
  vinv s' /\ vabs s' = A' /\ class_of res = Some k.
Proof.
  intros Hwf. destruct s as [run v]. unfold vinv in *. cbn [vs_v] in Hwf.
  destruct c as [sd| | | |o m|o m|j]; cbn [vss_step vs_run vs_v aut_step vabs a_run a_to has_timeouts negb].
  - (* Start *)
    unfold vss_start. destruct run; cbn; [auto|].
    unfold dealer. rewrite (Nat.eqb_sym d (c_my cf)). fold my.
    destruct (Nat.eqb_spec my d) as [Ed|Ed]; cbn; [|auto].
    pose proof (gen_shares_spec sd v Ed Hwf) as HG.
    destruct (gen_shares cf sd v) as [[v' res] ev]. destruct HG as (G1 & G2 & _).
    subst res. destruct (seed_fails cf sd); cbn; auto.
  - auto.
  - (* End *)
    unfold vss_end. destruct run; cbn; [|auto].
    destruct (v_valid v) eqn:Ev; cbn; [|auto].
    destruct Hwf as (W1 & W3 & W4 & W5). destruct (W3 Ev) as [Hr (ys & Ey)].
    destruct (W4 Hr (ex_intro _ ys Ey)) as (a0 & al & Ea).
    unfold end_keys. rewrite Ea, Ey. rewrite (W1 _ Ey). fold n. rewrite ?Nat.ltb_irrefl.
    split; [unfold v_wf; auto|]. split; [reflexivity|].
    destruct (v_x v =? 0); [reflexivity|]. destruct (a0 =? 0); reflexivity.
  - auto.
  - (* HandleBroadcastMsg *)
    unfold vss_broadcast. destruct run; cbn; [|auto].
    destruct (in_range cf o); cbn; [|auto].
    destruct (Nat.eqb_spec (c_my cf) (Z.to_nat o)) as [Emo|Emo]; cbn; [auto|].
    destruct m as [|sb|vb|cb|ab|tg]; cbn; auto.
    unfold vss_receive_vector.
    destruct (Nat.eqb_spec (Z.to_nat o) d) as [Eod|Eod]; cbn; [|auto].
    assert (Hnd : my <> d) by (unfold my; congruence).
    destruct (v_vArecv v) eqn:Er; cbn; [auto|].
    pose proof Hwf as (W1 & W3 & W4 & W5).
    pose proof (W5 Hnd Er) as Ey.
    destruct vb as [|k|l]; cbn.
    + wfin.
    + wfin.
    + set (v1 := set_vArecv _ true).
      destruct (fixpoly_cons (c_t cf) l) as (a0 & al & Ea).
      assert (Wv1 : v_wf v1) by (unfold v1; rewrite Ea; wfin).
      destruct (v_xrecv v) eqn:Ex; cbn [v_xrecv v1 set_vArecv set_y set_vA]; rewrite ?Ex.
      * destruct (verify_share_some v1) as [b Eb]; [apply Wv1|cbn; eauto|].
        unfold verify_share in Eb. cbn in Eb. rewrite Eb. cbn. unfold v1 in *. rewrite Ea in *. clear Eb. wfin.
      * cbn. auto.
  - (* HandlePrivateMsg *)
    unfold vss_private. destruct run; cbn; [|auto].
    destruct (in_range cf o); cbn; [|auto].
    destruct (Nat.eqb_spec (c_my cf) (Z.to_nat o)) as [Emo|Emo]; cbn; [auto|].
    unfold vss_receive_share.
    destruct (Nat.eqb_spec (Z.to_nat o) d) as [Eod|Eod]; cbn; [|auto].
    destruct (v_xrecv v) eqn:Ex; cbn; [auto|].
    pose proof Hwf as (W1 & W3 & W4 & W5).
    assert (Hbad : v_wf (set_valid (set_xrecv v true) false)) by wfin.
    destruct m as [|sb|vb|cb|ab|tg]; cbn; auto.
    destruct sb as [|z]; cbn; auto.
    destruct (read_star z (v_x v)) as [ok x'] eqn:Ers. cbn.
    destruct ok; cbn.
    + destruct (v_vArecv v) eqn:Er; cbn.
      * destruct (v_y v) as [ys|] eqn:Ey; cbn.
        -- set (v2 := set_x _ x').
           destruct (verify_share_some v2) as [b Eb]; [intros ys' E; cbn in E; rewrite Ey in E; exact (W1 _ E)|cbn; rewrite Ey; eauto|].
           rewrite Eb. cbn. clear Eb. unfold v2. wfin.
        -- wfin.
      * wfin.
    + wfin.
  - (* ForceDisqualify *)
    unfold vss_force. destruct run; cbn; [|auto].
    destruct (in_range cf j); cbn; [|auto].
    destruct (Nat.eqb (Z.to_nat j) d); cbn; auto.
    wfin.
Qed.


Lemma vss_init_inv : vinv vss_init.
Proof. unfold vinv, v_wf. cbn. repeat split; intros; try discriminate; try reflexivity;
  repeat match goal with H : exists _, _ |- _ => destruct H end; discriminate. Qed.

Theorem vss_api_follows_automaton cs :
  map (fun o => class_of (fst o)) (run (vss_step cf d) vss_init cs)
  = map Some (aut_trace PVss cf dealer a_init cs).
Proof. exact (run_follows (vss_step cf d) PVss cf dealer vinv vabs vss_step_sim cs vss_init vss_init_inv). Qed.

Theorem vss_run_complete cs : length (run (vss_step cf d) vss_init cs) = length cs.
Proof. exact (run_length (vss_step cf d) PVss cf dealer vinv vabs vss_step_sim cs vss_init vss_init_inv). Qed.

(* the only refused call that is not a literal no-op: a dealer Start whose polynomial gives
   the dealer itself a zero share (probability 1/r over the seed) *)
Definition degenerate_start (dl : bool) (c : call) : bool :=
  match c with
  | CStart (SeedOk a) => dl && seed_fails cf (SeedOk a)
  | _ => false
  end.

Definition is_refusal (res : result) : Prop := res = RStateErr \/ res = RInvalidInput.

Lemma end_keys_not_refusal x vA y : ~ is_refusal (end_keys cf x vA y).
Proof.
  unfold end_keys, is_refusal. intros [E|E]; repeat brk_hyp E; discriminate.
Qed.

Lemma lift_not_refusal run v h s' res ev :
  pack (lift run v h) = (s', res, ev) -> ~ is_refusal res.
Proof. destruct h as [[v' e]|]; cbn; intros H [E|E]; inversion H; subst; discriminate. Qed.

Lemma vss_refused_noop s c s' res ev :
  vss_step cf d s c = (s', res, ev) -> is_refusal res -> degenerate_start dealer c = false ->
  s' = s /\ ev = [].
Proof.
  destruct s as [run v]. intros H Hr Hdeg.
  destruct c as [sd| | | |o m|o m|j]; cbn [vss_step vs_run vs_v] in H.
  - (* Start *)
    unfold vss_start in H. destruct run; cbn in H; [inversion H; subst; auto|].
    destruct (Nat.eqb d (c_my cf)) eqn:Ed; cbn in H; [|inversion H; subst; destruct Hr; discriminate].
    destruct sd as [|a0]; [cbn in H; inversion H; subst; auto|].
    exfalso. unfold degenerate_start, dealer in Hdeg. unfold my in Hdeg.
    rewrite (Nat.eqb_sym (c_my cf) d), Ed in Hdeg. cbn [andb] in Hdeg.
    unfold gen_shares in H.
    pose proof (gen_loop_spec cf (fixpoly (c_t cf) a0) (seq 0 (c_n cf))) as HL.
    destruct (gen_loop cf (fixpoly (c_t cf) a0) (seq 0 (c_n cf))) as [[ev0 ys] ok].
    destruct HL as (_ & _ & L3). rewrite existsb_seq_my in L3 by exact Hmy. cbn [andb] in L3.
    unfold seed_fails in Hdeg. rewrite Hdeg in L3. cbn in L3. subst ok. cbn in H.
    inversion H; subst. destruct Hr; discriminate.
  - inversion H; subst. destruct Hr; discriminate.
  - (* End *)
    unfold vss_end in H. destruct run; cbn in H; [|inversion H; auto].
    destruct (v_valid v); cbn in H; inversion H; subst.
    + exfalso. eapply end_keys_not_refusal; eauto.
    + destruct Hr; discriminate.
  - inversion H; subst. destruct Hr; discriminate.
  - unfold vss_broadcast in H. destruct run; cbn in H; [|inversion H; auto].
    destruct (in_range cf o); cbn in H; [|inversion H; auto].
    destruct (Nat.eqb (c_my cf) (Z.to_nat o)); [inversion H; subst; destruct Hr; discriminate|].
    destruct m; try (inversion H; subst; destruct Hr; discriminate).
    exfalso. eapply lift_not_refusal; eauto.
  - unfold vss_private in H. destruct run; cbn in H; [|inversion H; auto].
    destruct (in_range cf o); cbn in H; [|inversion H; auto].
    destruct (Nat.eqb (c_my cf) (Z.to_nat o)); [inversion H; subst; destruct Hr; discriminate|].
    exfalso. eapply lift_not_refusal; eauto.
  - unfold vss_force in H. destruct run; cbn in H; [|inversion H; auto].
    destruct (in_range cf j); cbn in H; [|inversion H; auto].
    destruct (Nat.eqb (Z.to_nat j) d); inversion H; subst; destruct Hr; discriminate.
Qed.

Lemma vss_end_not_running s s' res ev :
  vss_step cf d s CEnd = (s', res, ev) -> (res = RStateErr -> s' = s) /\ (res <> RStateErr -> vs_run s' = false).
Proof.
  destruct s as [run v]. cbn [vss_step vs_run vs_v]. unfold vss_end.
  destruct run; cbn; [|intro H; inversion H; subst; split; [auto|congruence]].
  destruct (v_valid v); cbn; intro H; inversion H; subst; cbn; split; auto; try discriminate.
  intro E. exfalso. unfold end_keys in E. repeat brk_hyp E; discriminate.
Qed.

Lemma vss_nexttimeout_noop s : vss_step cf d s CNextTimeout = (s, ROk, []).
Proof. reflexivity. Qed.

End Vss.

(* ------------------------------------------------------------------ *)
(* Feldman VSS with qualification                                       *)
(* ------------------------------------------------------------------ *)
Section Qual.
Variable cf : cfg.
Variable d : nat.
Hypothesis Hmy : (c_my cf < c_n cf)%nat.

Let n := c_n cf.
Let my := c_my cf.
Let dealer := Nat.eqb my d.

Definition b2n (b : bool) : nat := if b then 1%nat else 0%nat.

Definition qabs (s : qstate) : astate :=
  mkA (qs_run s) (b2n (q_st (qs_q s)) + b2n (q_ct (qs_q s))).

(* instance invariant (no-panic and End) *)
Definition q_wf (q : qinst) : Prop :=
  v_wf cf d (q_v q) /\
  (v_vArecv (q_v q) = true -> q_disq q = false -> exists ys, v_y (q_v q) = Some ys) /\
  (q_st q = true -> q_disq q = false -> v_vArecv (q_v q) = true) /\
  (q_ct q = true -> q_st q = true).

Definition qinv (s : qstate) : Prop :=
  q_wf (qs_q s) /\
  (my = d -> qs_run s = true -> exists a0 al, v_a (q_v (qs_q s)) = Some (a0 :: al)).

(* what the handlers leave alone *)
Definition pres (q q' : qinst) : Prop :=
  q_st q' = q_st q /\ q_ct q' = q_ct q /\ v_a (q_v q') = v_a (q_v q).

Definition has_y (v : vinst) : Prop := exists ys, v_y v = Some ys /\ length ys = n.

Lemma wf_has_y q : q_wf q -> v_vArecv (q_v q) = true -> q_disq q = false -> has_y (q_v q).
Proof.
  intros (W & Q1 & _) Hr Hd. destruct (Q1 Hr Hd) as [ys E]. exists ys. split; [exact E|].
  destruct W as (W1 & _). apply W1. exact E.
Qed.

Lemma has_y_verify v : has_y v -> exists b, verify_share cf v = Some b.
Proof.
  intros (ys & E & L). unfold verify_share. rewrite E.
  destruct (nth_error ys (c_my cf)) eqn:En; [eauto|]. apply nth_error_None in En. unfold n in L. lia.
Qed.

Lemma has_y_check v c val : has_y v -> (c < n)%nat -> exists b, check_complaint v c val = Some b.
Proof.
  intros (ys & E & L) Hc. unfold check_complaint. rewrite E.
  destruct (nth_error ys c) eqn:En; [eauto|]. apply nth_error_None in En. lia.
Qed.

Ltac qfin :=
  unfold pres, q_wf, v_wf in *; cbn in *;
  repeat match goal with
  | H : _ /\ _ |- _ => destruct H
  | |- _ /\ _ => split
  end; intros; subst;
  repeat match goal with
  | H : Some _ = Some _ |- _ => inversion H; subst; clear H
  | H : exists _, _ |- _ => destruct H
  end;
  try discriminate; try congruence; try reflexivity; eauto using pubkeys_length;
  repeat match goal with
  | H : ?A -> _, H' : ?A |- _ => match type of A with Prop => specialize (H H') end
  | H : ?x = ?x -> _ |- _ => specialize (H eq_refl)
  end;
  repeat match goal with
  | H : _ /\ _ |- _ => destruct H
  | H : exists _, _ |- _ => destruct H
  end;
  try discriminate; try congruence; eauto.

Lemma build_complaint_ok q : q_wf q -> q_disq q = false ->
  exists q' ev, build_complaint cf d q = Some (q', ev) /\ q_wf q' /\ pres q q'.
Proof.
  intros Hwf Hd. unfold build_complaint.
  assert (Hgo : forall old,
    exists q' ev,
      (let v := q_v q in
       if v_vArecv v && v_xrecv v && match verify_share cf v with None => true | Some _ => false end
       then None
       else
         let entry := match old with None => mkC true false 0 | Some c => mkC true (c_ans c) (c_val c) end in
         let q1 := qset_compl q (upd (q_compl q) (c_my cf) entry) in
         let ev := [EvFlag d; EvBcast (MComplaint (CIdx (Z.of_nat d)))] in
         match old with
         | Some c =>
             if c_ans c then
               if v_vArecv v then
                 match check_complaint v (c_my cf) (c_val c) with
                 | None => None
                 | Some bad =>
                     let q2 := qset_disq q1 bad in
                     if bad then Some (q2, ev ++ [EvDisq d])
                     else Some (qset_v q2 (set_x (q_v q2) (c_val c)), ev)
                 end
               else if q_disq q1 then Some (q1, ev) else Some (qset_v q1 (set_x (q_v q1) (c_val c)), ev)
             else Some (q1, ev)
         | None => Some (q1, ev)
         end) = Some (q', ev) /\ q_wf q' /\ pres q q').
  { intro old. cbn zeta.
    destruct (v_vArecv (q_v q)) eqn:Er.
    - pose proof (wf_has_y q Hwf Er Hd) as Hy.
      destruct (has_y_verify _ Hy) as [b Eb]. rewrite Eb. rewrite andb_false_r.
      destruct old as [c|]; [|eexists; eexists; split; [reflexivity|]; qfin].
      destruct (c_ans c); [|eexists; eexists; split; [reflexivity|]; qfin].
      destruct (has_y_check _ (c_my cf) (c_val c) Hy Hmy) as [bad Ebad]. rewrite Ebad.
      destruct bad; eexists; eexists; (split; [reflexivity|]); qfin.
    - cbn [andb]. destruct old as [c|]; [|eexists; eexists; split; [reflexivity|]; qfin].
      destruct (c_ans c); [|eexists; eexists; split; [reflexivity|]; qfin].
      cbn. rewrite Hd. eexists; eexists; (split; [reflexivity|]); qfin. }
  destruct (q_compl q (c_my cf)) as [c|] eqn:Ec.
  - destruct (c_recv c).
    + eexists; eexists; split; [reflexivity|]. split; [exact Hwf|]. unfold pres. auto.
    + exact (Hgo (Some c)).
  - exact (Hgo None).
Qed.

Lemma pres_trans q1 q2 q3 : pres q1 q2 -> pres q2 q3 -> pres q1 q3.
Proof. unfold pres. intros (A & B & C) (A' & B' & C'). repeat split; congruence. Qed.

Ltac done_some := eexists; eexists; (split; [reflexivity|]); qfin.

Lemma q_receive_share_ok o m q : q_wf q -> q_disq q = false ->
  exists q' ev, q_receive_share cf d o m q = Some (q', ev) /\ q_wf q' /\ pres q q'.
Proof.
  intros Hwf Hd. unfold q_receive_share.
  destruct (Nat.eqb o d); cbn [negb]; [|done_some].
  destruct (q_st q) eqn:Est; [done_some|].
  destruct (v_xrecv (q_v q)) eqn:Ex; [done_some|].
  set (q1 := qset_v q (set_xrecv (q_v q) true)).
  assert (W1 : q_wf q1) by (unfold q1; qfin).
  assert (D1 : q_disq q1 = false) by exact Hd.
  assert (P1 : pres q q1) by (unfold q1; qfin).
  assert (Hcf : forall q2, q_wf q2 -> q_disq q2 = false -> pres q q2 ->
    exists q' ev, match build_complaint cf d q2 with
                  | Some (q3, ev) => Some (q3, ev ++ [EvFlag o])
                  | None => None end = Some (q', ev) /\ q_wf q' /\ pres q q').
  { intros q2 W2 D2 P2. destruct (build_complaint_ok q2 W2 D2) as (q' & ev & E & W & P).
    rewrite E. eexists; eexists; split; [reflexivity|]. split; [exact W|]. exact (pres_trans _ _ _ P2 P). }
  destruct m as [|sb|vb|cb|ab|tg]; try (apply Hcf; assumption).
  destruct sb as [|z]; [apply Hcf; assumption|].
  destruct (read_star z (v_x (q_v q1))) as [ok x'] eqn:Ers.
  set (q2 := qset_v q1 (set_x (q_v q1) x')).
  assert (W2 : q_wf q2) by (unfold q2, q1; qfin).
  assert (P2 : pres q q2) by (unfold q2, q1; qfin).
  destruct ok; cbn [negb]; [|apply Hcf; assumption].
  destruct (v_vArecv (q_v q2)) eqn:Er; [|eexists; eexists; split; [reflexivity|]; split; assumption].
  pose proof (wf_has_y q2 W2 Er Hd) as Hy. destruct (has_y_verify _ Hy) as [b Eb]. rewrite Eb.
  destruct b; [eexists; eexists; split; [reflexivity|]; split; assumption|].
  destruct (build_complaint_ok q2 W2 Hd) as (q' & ev & E & W & P). rewrite E.
  eexists; eexists; split; [reflexivity|]. split; [exact W|]. exact (pres_trans _ _ _ P2 P).
Qed.

Lemma bad_answer_in_some v m js : has_y v -> (forall j, In j js -> (j < n)%nat) ->
  exists b, bad_answer_in v m js = Some b.
Proof.
  intros Hy. induction js as [|j js IH]; intros Hj; cbn [bad_answer_in]; [eauto|].
  assert (IH' : exists b, bad_answer_in v m js = Some b) by (apply IH; intros; apply Hj; right; assumption).
  destruct (m j) as [c|]; [|exact IH'].
  destruct (c_recv c && c_ans c); [|exact IH'].
  destruct (has_y_check v j (c_val c) Hy) as [b Eb]; [apply Hj; left; reflexivity|].
  rewrite Eb. destruct b; [eauto|exact IH'].
Qed.

Lemma q_receive_vector_ok o vb q : q_wf q -> q_disq q = false -> o <> my ->
  exists q' ev, q_receive_vector cf d o vb q = Some (q', ev) /\ q_wf q' /\ pres q q'.
Proof.
  intros Hwf Hd Hom. unfold q_receive_vector.
  destruct (Nat.eqb_spec o d) as [Eod|Eod]; cbn [negb]; [|done_some].
  assert (Hnd : my <> d) by congruence.
  destruct (q_st q) eqn:Est; [done_some|].
  destruct (v_vArecv (q_v q)) eqn:Er; [done_some|].
  assert (Ey : v_y (q_v q) = None) by (destruct Hwf as ((_ & _ & _ & W5) & _); exact (W5 Hnd Er)).
  destruct vb as [|k|l].
  - done_some.
  - done_some.
  - destruct (fixpoly_cons (c_t cf) l) as (a0 & al & Ea).
    set (v2 := set_y (set_vA (set_vArecv (q_v q) true) (VAFull (fixpoly (c_t cf) l))) (Some (pubkeys cf (fixpoly (c_t cf) l)))).
    set (q1 := qset_v q v2).
    assert (Hy : has_y v2).
    { exists (pubkeys cf (fixpoly (c_t cf) l)). split; [reflexivity|apply pubkeys_length]. }
    assert (W1 : q_wf q1) by (unfold q1, v2; rewrite Ea; qfin).
    assert (P1 : pres q q1) by (unfold q1, v2; qfin).
    destruct (bad_answer_in_some v2 (q_compl q1) (seq 0 (c_n cf)) Hy) as [b Eb].
    { intros j Hj. apply in_seq in Hj. unfold n. lia. }
    rewrite Eb. destruct b.
    + eexists; eexists; split; [reflexivity|]. unfold q1, v2. rewrite Ea. qfin.
    + destruct (v_xrecv v2) eqn:Ex; [|eexists; eexists; split; [reflexivity|]; split; assumption].
      destruct (has_y_verify _ Hy) as [b Eb']. rewrite Eb'.
      destruct b; [eexists; eexists; split; [reflexivity|]; split; assumption|].
      destruct (build_complaint_ok q1 W1 Hd) as (q' & ev & E & W & P). rewrite E.
      eexists; eexists; split; [reflexivity|]. split; [exact W|]. exact (pres_trans _ _ _ P1 P).
Qed.

Lemma q_receive_complaint_ok o cb q : q_wf q -> q_disq q = false -> (o < n)%nat ->
  (my = d -> exists a0 al, v_a (q_v q) = Some (a0 :: al)) ->
  exists q' ev, q_receive_complaint cf d o cb q = Some (q', ev) /\ q_wf q' /\ pres q q'.
Proof.
  intros Hwf Hd Ho Ha. unfold q_receive_complaint.
  destruct (q_ct q) eqn:Ect; [done_some|].
  assert (Hdo : exists q' ev, (if Nat.eqb o d then Some (qset_disq q true, [EvDisq o]) else Some (q, []))
                             = Some (q', ev) /\ q_wf q' /\ pres q q').
  { destruct (Nat.eqb o d); done_some. }
  destruct cb as [|b]; [exact Hdo|].
  destruct (Z.of_nat (c_n cf) <=? b); [exact Hdo|].
  destruct (Nat.eqb o d); [done_some|]. cbn [negb].
  destruct (Nat.eqb (Z.to_nat b) d); cbn [negb]; [|done_some].
  destruct (q_compl q o) as [c|] eqn:Ec.
  - destruct (c_recv c); [done_some|].
    set (q1 := qset_compl q _).
    destruct (v_vArecv (q_v q1)) eqn:Er; cbn [andb]; [|done_some].
    destruct (c_ans c); cbn [andb]; [|done_some].
    destruct (negb (Nat.eqb (c_my cf) d)); [|done_some].
    assert (Hy : has_y (q_v q1)) by (apply (wf_has_y q Hwf Er Hd)).
    destruct (has_y_check _ o (c_val c) Hy Ho) as [bad Eb]. rewrite Eb.
    destruct bad; done_some.
  - destruct (Nat.eqb_spec (c_my cf) d) as [Emd|Emd]; [|done_some].
    unfold build_answer. destruct (Ha Emd) as (a0 & al & Ea). cbn [qset_compl q_v q_compl]. rewrite Ea.
    unfold upd at 1. rewrite Nat.eqb_refl. done_some.
Qed.

Lemma q_receive_answer_ok o ab q : q_wf q -> q_disq q = false ->
  exists q' ev, q_receive_answer cf d o ab q = Some (q', ev) /\ q_wf q' /\ pres q q'.
Proof.
  intros Hwf Hd. unfold q_receive_answer.
  destruct (Nat.eqb o d); cbn [negb]; [|done_some].
  destruct ab as [|b z]; [done_some|].
  destruct (Z.of_nat (c_n cf) <=? b) eqn:Eb; [done_some|].
  assert (Hc : (Z.to_nat b < n)%nat) by (apply Z.leb_gt in Eb; unfold n; lia).
  destruct (q_compl q (Z.to_nat b)) as [k|] eqn:Ek.
  - destruct (c_ans k); [done_some|].
    destruct (c_recv k); [|done_some].
    destruct (read_star z (c_val k)) as [ok val].
    destruct ok; cbn [negb]; [|done_some].
    set (q1 := qset_compl q _).
    destruct (v_vArecv (q_v q1)) eqn:Er.
    + assert (Hy : has_y (q_v q1)) by (apply (wf_has_y q Hwf Er Hd)).
      destruct (has_y_check _ (Z.to_nat b) val Hy Hc) as [bad Ebad]. rewrite Ebad.
      destruct bad; cbn [qset_disq q_disq negb andb].
      * done_some.
      * destruct (Nat.eqb (Z.to_nat b) (c_my cf)); done_some.
    + replace (q_disq q1) with false by (symmetry; exact Hd). cbn [negb andb].
      destruct (Nat.eqb (Z.to_nat b) (c_my cf)); done_some.
  - destruct (read_star z 0) as [ok val]. destruct ok; done_some.
Qed.

Lemma gen_shares_more sd v :
  let '(v', res, ev) := gen_shares cf sd v in
  (v_vArecv v = true -> v_vArecv v' = true) /\ (v' = v \/ exists ys, v_y v' = Some ys).
Proof.
  unfold gen_shares. destruct sd as [|a0]; [auto|].
  destruct (gen_loop cf (fixpoly (c_t cf) a0) (seq 0 (c_n cf))) as [[ev ys] ok].
  destruct ok; cbn; split; eauto.
Qed.

Ltac afin :=
  unfold qabs; cbn;
  try match goal with H : q_st _ = _ |- _ => rewrite ?H end;
  try match goal with H : q_ct _ = _ |- _ => rewrite ?H end; cbn; auto.

Lemma qual_step_sim s c : qinv s ->
  let '(s', res, _) := qual_step cf d s c in
  let '(A', k) := aut_step PQual cf dealer (qabs s) c in
  qinv s' /\ qabs s' = A' /\ class_of res = Some k.
Proof.
  intros [Hwf Ha]. destruct s as [run q]. cbn [qs_q qs_run] in *.
  destruct c as [sd| | | |o m|o m|j];
    cbn [qual_step qs_run qs_q aut_step qabs a_run a_to has_timeouts negb].
  - (* Start *)
    unfold q_start, vss_start. destruct run; cbn; [unfold qinv; cbn; auto|].
    unfold dealer. rewrite (Nat.eqb_sym d (c_my cf)). fold my.
    destruct (Nat.eqb_spec my d) as [Ed|Ed]; cbn; [|unfold qinv; cbn; split; [split; [exact Hwf|]; intros; congruence|auto]].
    destruct Hwf as (W & Q1 & Q2 & Q3).
    pose proof (gen_shares_spec cf d Hmy sd (q_v q) Ed W) as HG.
    pose proof (gen_shares_more sd (q_v q)) as HM.
    destruct (gen_shares cf sd (q_v q)) as [[v' res] ev].
    destruct HG as (G1 & G2 & _ & G4 & G5). destruct HM as (M1 & M2).
    subst res. destruct (seed_fails cf sd); cbn.
    + split; [|auto]. unfold qinv, q_wf. cbn. split; [|intros; discriminate].
      split; [exact G1|]. split; [|split; [|exact Q3]].
      * intros Hr Hd. destruct M2 as [->|M2]; auto.
      * intros Hs Hd. apply M1. auto.
    + split; [|auto]. unfold qinv, q_wf. cbn. split; [|intros; apply G4; reflexivity].
      split; [exact G1|]. split; [|split; [|exact Q3]].
      * intros Hr Hd. destruct M2 as [->|M2]; auto.
      * intros Hs Hd. apply M1. auto.
  - (* NextTimeout *)
    unfold q_next_timeout. destruct run; cbn; [|unfold qinv; cbn; auto].
    pose proof Hwf as (W & Q1 & Q2 & Q3).
    destruct (q_st q) eqn:Est, (q_ct q) eqn:Ect; try (specialize (Q3 eq_refl); discriminate); cbn.
    + unfold qinv; cbn. rewrite ?Est, ?Ect. split; [auto|afin].
    + destruct (q_disq q) eqn:Ed; cbn.
      * unfold qinv; cbn. rewrite ?Est. (split; [split; [qfin|exact Ha]|]); afin.
      * unfold set_complaints_timeout.
        destruct (c_t cf <? ncompl cf (q_compl (qset_ct q true)))%nat; cbn; unfold qinv; cbn;
          (split; [split; [qfin|exact Ha]|]); afin.
    + destruct (q_disq q) eqn:Ed; cbn.
      * unfold qinv; cbn. rewrite ?Ect. (split; [split; [qfin|exact Ha]|]); afin.
      * unfold set_shares_timeout. cbn [qset_st q_v negb].
        destruct (v_vArecv (q_v q)) eqn:Er; cbn [negb].
        -- destruct (v_xrecv (q_v q)) eqn:Ex; cbn [negb].
           ++ cbn. unfold qinv; cbn. (split; [split; [qfin|exact Ha]|]); afin.
           ++ destruct (build_complaint_ok (qset_st q true)) as (q' & ev & E & W' & P); [qfin|exact Ed|].
              rewrite E. cbn. destruct P as (P1 & P2 & P3). cbn in P1, P2, P3.
              unfold qinv; cbn. rewrite P3. split; [auto|]. unfold qabs; cbn. rewrite P1, P2, ?Ect. cbn. auto.
        -- cbn. unfold qinv; cbn. (split; [split; [qfin|exact Ha]|]); afin.
  - (* End *)
    unfold q_end. destruct run; cbn; [|unfold qinv; cbn; auto].
    pose proof Hwf as (W & Q1 & Q2 & Q3).
    destruct (q_st q) eqn:Est, (q_ct q) eqn:Ect; try (specialize (Q3 eq_refl); discriminate); cbn;
      try (unfold qinv; cbn; rewrite ?Est, ?Ect; (split; [auto|afin]); fail).
    destruct (q_disq q) eqn:Ed; cbn.
    { rewrite Ed. cbn. unfold qinv; cbn. rewrite ?Est, ?Ect. split; [split; [exact Hwf|intros; discriminate]|afin]. }
    destruct (unanswered cf (q_compl q)); cbn.
    { unfold qinv; cbn. rewrite ?Est, ?Ect. split; [split; [qfin|intros; discriminate]|afin]. }
    rewrite Ed. pose proof (Q2 eq_refl eq_refl) as Er. destruct (Q1 Er eq_refl) as [ys Ey].
    destruct W as (W1 & W3 & W4 & W5). destruct (W4 Er (ex_intro _ ys Ey)) as (a0 & al & Ea).
    unfold end_keys. rewrite Ea, Ey, (W1 _ Ey). fold n. rewrite ?Nat.ltb_irrefl.
    destruct (v_x (q_v q) =? 0); [|destruct (a0 =? 0)]; cbn; unfold qinv; cbn; rewrite ?Est, ?Ect;
      (split; [split; [qfin|intros; discriminate]|afin]).
  - unfold qinv; cbn; auto.
  - (* HandleBroadcastMsg *)
    unfold q_broadcast. destruct run; cbn; [|unfold qinv; cbn; auto].
    destruct (in_range cf o) eqn:Eo; cbn; [|unfold qinv; cbn; auto].
    assert (Ho : (Z.to_nat o < n)%nat).
    { unfold in_range in Eo. apply andb_prop in Eo as [E1 E2]. apply Z.leb_le in E1. apply Z.ltb_lt in E2. unfold n. lia. }
    destruct (Nat.eqb_spec (c_my cf) (Z.to_nat o)) as [Emo|Emo]; cbn; [unfold qinv; cbn; auto|].
    destruct (q_disq q) eqn:Ed; cbn; [unfold qinv; cbn; auto|].
    assert (Hh : forall h, (exists q' ev, h = Some (q', ev) /\ q_wf q' /\ pres q q') ->
      let '(s', res, _) := qpack (qlift true q h) in
      qinv s' /\ qabs s' = qabs (mkQS true q) /\ class_of res = Some KOk).
    { intros h (q' & ev & -> & W' & P1 & P2 & P3). cbn. unfold qinv, qabs; cbn. rewrite P1, P2, P3. auto. }
    assert (Hbad : let '(s', res, _) := qpack (true, (if Nat.eqb (Z.to_nat o) d then qset_disq q true else q), ROk, [EvDisq (Z.to_nat o)]) in
      qinv s' /\ qabs s' = qabs (mkQS true q) /\ class_of res = Some KOk).
    { cbn. destruct (Nat.eqb (Z.to_nat o) d); unfold qinv; cbn; (split; [split; [qfin|exact Ha]|auto]). }
    destruct m as [|sb|vb|cb|ab|tg]; try exact Hbad.
    + apply Hh. apply q_receive_vector_ok; auto.
    + apply Hh. apply q_receive_complaint_ok; auto.
    + apply Hh. apply q_receive_answer_ok; auto.
  - (* HandlePrivateMsg *)
    unfold q_private. destruct run; cbn; [|unfold qinv; cbn; auto].
    destruct (in_range cf o) eqn:Eo; cbn; [|unfold qinv; cbn; auto].
    destruct (Nat.eqb_spec (c_my cf) (Z.to_nat o)) as [Emo|Emo]; cbn; [unfold qinv; cbn; auto|].
    destruct (q_disq q) eqn:Ed; cbn; [unfold qinv; cbn; auto|].
    destruct (q_receive_share_ok (Z.to_nat o) m q Hwf Ed) as (q' & ev & E & W' & P1 & P2 & P3).
    rewrite E. cbn. unfold qinv, qabs; cbn. rewrite P1, P2, P3. auto.
  - (* ForceDisqualify *)
    unfold q_force. destruct run; cbn; [|unfold qinv; cbn; auto].
    destruct (in_range cf j); cbn; [|unfold qinv; cbn; auto].
    destruct (Nat.eqb (Z.to_nat j) d); cbn; unfold qinv; cbn; (split; [split; [qfin|exact Ha]|auto]).
Qed.

Lemma qual_init_inv : qinv qual_init.
Proof.
  unfold qinv, q_wf, v_wf. cbn. repeat split; intros; try discriminate; try reflexivity;
  repeat match goal with H : exists _, _ |- _ => destruct H end; discriminate.
Qed.

Theorem qual_api_follows_automaton cs :
  map (fun o => class_of (fst o)) (run (qual_step cf d) qual_init cs)
  = map Some (aut_trace PQual cf dealer a_init cs).
Proof. exact (run_follows (qual_step cf d) PQual cf dealer qinv qabs qual_step_sim cs qual_init qual_init_inv). Qed.

Theorem qual_run_complete cs : length (run (qual_step cf d) qual_init cs) = length cs.
Proof. exact (run_length (qual_step cf d) PQual cf dealer qinv qabs qual_step_sim cs qual_init qual_init_inv). Qed.

Lemma qlift_not_refusal run q h s' res ev :
  qpack (qlift run q h) = (s', res, ev) -> ~ is_refusal res.
Proof. destruct h as [[v' e]|]; cbn; intros H [E|E]; inversion H; subst; discriminate. Qed.

Lemma qual_refused_noop s c s' res ev :
  qual_step cf d s c = (s', res, ev) -> is_refusal res -> degenerate_start cf dealer c = false ->
  s' = s /\ ev = [].
Proof.
  destruct s as [run q]. intros H Hr Hdeg.
  destruct c as [sd| | | |o m|o m|j]; cbn [qual_step qs_run qs_q] in H.
  - (* Start *)
    unfold q_start in H.
    pose proof (vss_refused_noop cf d Hmy (mkVS run (q_v q)) (CStart sd)) as HV.
    cbn [vss_step vs_run vs_v] in HV.
    destruct (vss_start cf d run (q_v q) sd) as [[[run' v'] res'] ev'].
    cbn in H. inversion H; subst. destruct (HV _ _ _ eq_refl Hr Hdeg) as [E1 E2].
    inversion E1; subst. split; [|reflexivity]. destruct q; reflexivity.
  - (* NextTimeout *)
    unfold q_next_timeout in H. destruct run; cbn in H; [|inversion H; auto].
    destruct (q_ct q); cbn in H; [inversion H; auto|].
    destruct (q_disq q).
    + destruct (negb (q_st q)); inversion H; subst; destruct Hr; discriminate.
    + destruct (negb (q_st q)).
      * exfalso. eapply qlift_not_refusal; eauto.
      * destruct (set_complaints_timeout cf d q). inversion H; subst; destruct Hr; discriminate.
  - (* End *)
    unfold q_end in H. destruct run; cbn in H; [|inversion H; auto].
    destruct (negb (q_st q) || negb (q_ct q)); [inversion H; auto|].
    destruct (negb (q_disq q) && unanswered cf (q_compl q)).
    + cbn in H. inversion H; subst; destruct Hr; discriminate.
    + destruct (q_disq q); [inversion H; subst; destruct Hr; discriminate|].
      exfalso.
      destruct (end_keys cf (v_x (q_v q)) (v_vA (q_v q)) (v_y (q_v q))) eqn:E; inversion H; subst;
        eapply (end_keys_not_refusal cf); rewrite E; exact Hr.
  - inversion H; subst. destruct Hr; discriminate.
  - unfold q_broadcast in H. destruct run; cbn in H; [|inversion H; auto].
    destruct (in_range cf o); cbn in H; [|inversion H; auto].
    destruct (Nat.eqb (c_my cf) (Z.to_nat o)); [inversion H; subst; destruct Hr; discriminate|].
    destruct (q_disq q); [inversion H; subst; destruct Hr; discriminate|].
    destruct m; try (inversion H; subst; destruct Hr; discriminate);
      exfalso; eapply qlift_not_refusal; eauto.
  - unfold q_private in H. destruct run; cbn in H; [|inversion H; auto].
    destruct (in_range cf o); cbn in H; [|inversion H; auto].
    destruct (Nat.eqb (c_my cf) (Z.to_nat o)); [inversion H; subst; destruct Hr; discriminate|].
    destruct (q_disq q); [inversion H; subst; destruct Hr; discriminate|].
    exfalso; eapply qlift_not_refusal; eauto.
  - unfold q_force in H. destruct run; cbn in H; [|inversion H; auto].
    destruct (in_range cf j); cbn in H; [|inversion H; auto].
    destruct (Nat.eqb (Z.to_nat j) d); inversion H; subst; destruct Hr; discriminate.
Qed.

Lemma qual_end_not_running s s' res ev :
  qual_step cf d s CEnd = (s', res, ev) ->
  (res = RStateErr -> s' = s) /\ (res <> RStateErr -> qs_run s' = false).
Proof.
  intro H. split.
  - intro E. subst res. eapply qual_refused_noop in H; [apply H|left; reflexivity|reflexivity].
  - destruct s as [run q]. cbn [qual_step qs_run qs_q] in H. unfold q_end in H.
    destruct run; cbn in H; [|inversion H; congruence].
    destruct (negb (q_st q) || negb (q_ct q)); [inversion H; congruence|].
    destruct (negb (q_disq q) && unanswered cf (q_compl q)); cbn in H.
    + inversion H; reflexivity.
    + destruct (q_disq q); [inversion H; reflexivity|].
      destruct (end_keys cf (v_x (q_v q)) (v_vA (q_v q)) (v_y (q_v q))); inversion H; reflexivity.
Qed.

(* reuse after End: the timeouts are kept, a restarted instance accepts End at once *)
Lemma qual_reuse_keeps_timeouts s sd s' res ev :
  qual_step cf d s (CStart sd) = (s', res, ev) ->
  q_st (qs_q s') = q_st (qs_q s) /\ q_ct (qs_q s') = q_ct (qs_q s) /\ q_disq (qs_q s') = q_disq (qs_q s).
Proof.
  destruct s as [run q]. cbn [qual_step qs_run qs_q]. unfold q_start.
  destruct (vss_start cf d run (q_v q) sd) as [[[run' v'] res'] ev']. cbn. intro H. inversion H; subst. cbn. auto.
Qed.

End Qual.

(* ------------------------------------------------------------------ *)
(* Joint-Feldman                                                        *)
(* ------------------------------------------------------------------ *)
Section Joint.
Variable cf : cfg.
Hypothesis Hmy : (c_my cf < c_n cf)%nat.

Let n := c_n cf.
Let my := c_my cf.

Definition jabs (s : jstate) : astate :=
  let q := hd q_init (j_insts s) in
  mkA (j_jrun s) (b2n (q_st q) + b2n (q_ct q)).

Definition same_to (l : list qinst) (st ct : bool) : Prop :=
  forall q, In q l -> q_st q = st /\ q_ct q = ct.

(* per-instance invariant: well-formed, and the own instance has its polynomial while running *)
Definition inst_ok (need_a : bool) (i : nat) (q : qinst) : Prop :=
  q_wf cf i q /\ (need_a = true -> my = i -> exists a0 al, v_a (q_v q) = Some (a0 :: al)).

Definition jinv (s : jstate) : Prop :=
  length (j_insts s) = n /\
  (forall i q, nth_error (j_insts s) i = Some q -> inst_ok (j_jrun s) i q) /\
  (exists st ct, same_to (j_insts s) st ct) /\
  (j_jrun s = true -> j_run s = true).

(* a loop over the instances whose body succeeds on every instance *)
Section LoopOk.
Variable f : nat -> bool -> qinst -> bool * qinst * result * list event.
Variable P P' : nat -> qinst -> Prop.
Variable R : qinst -> qinst -> Prop.
Hypothesis Hf : forall i q, P i q -> (i < n)%nat ->
  exists q' ev, f i true q = (true, q', ROk, ev) /\ P' i q' /\ R q q'.

Lemma jloop_ok : forall qs i0,
  (forall k q, nth_error qs k = Some q -> P (i0 + k) q) -> (i0 + length qs <= n)%nat ->
  exists qs' ev, jloop f i0 true qs = (true, qs', ROk, ev) /\
    (forall k q', nth_error qs' k = Some q' -> P' (i0 + k) q') /\
    Forall2 R qs qs'.
Proof.
  induction qs as [|q qs IH]; intros i0 Hw Hl; cbn [jloop].
  - exists [], []. split; [reflexivity|]. split; [intros k q' E; destruct k; discriminate|constructor].
  - destruct (Hf i0 q) as (q' & ev & E & W & HR).
    { specialize (Hw 0%nat q eq_refl). rewrite Nat.add_0_r in Hw. exact Hw. }
    { cbn in Hl. lia. }
    rewrite E.
    destruct (IH (S i0)) as (qs' & ev' & E' & W' & HR').
    { intros k q0 Ek. specialize (Hw (S k) q0 Ek). replace (S i0 + k)%nat with (i0 + S k)%nat by lia. exact Hw. }
    { cbn in Hl. lia. }
    rewrite E'. exists (q' :: qs'), (ev ++ ev'). split; [reflexivity|]. split.
    + intros k q0 Ek. destruct k; cbn in Ek.
      * inversion Ek; subst. rewrite Nat.add_0_r. exact W.
      * specialize (W' k q0 Ek). replace (i0 + S k)%nat with (S i0 + k)%nat by lia. exact W'.
    + constructor; assumption.
Qed.
End LoopOk.

(* a loop whose body is refused on the first instance: nothing happens *)
Lemma jloop_refused f i0 run q qs res :
  f i0 run q = (run, q, res, []) -> res <> ROk ->
  jloop f i0 run (q :: qs) = (run, q :: qs, res, []).
Proof.
  intros E Hr. cbn [jloop]. rewrite E. destruct res; try reflexivity. congruence.
Qed.

Lemma Forall2_length_eq {A B} (R : A -> B -> Prop) l l' : Forall2 R l l' -> length l = length l'.
Proof. induction 1; cbn; auto. Qed.

Lemma Forall2_nth {A B} (R : A -> B -> Prop) l l' : Forall2 R l l' ->
  forall k y, nth_error l' k = Some y -> exists x, nth_error l k = Some x /\ R x y.
Proof.
  induction 1; intros k z E; destruct k; cbn in E; try discriminate.
  - inversion E; subst. eexists; split; [reflexivity|assumption].
  - apply IHForall2. exact E.
Qed.

Lemma Forall2_nth' {A B} (R : A -> B -> Prop) l l' : Forall2 R l l' ->
  forall k x, nth_error l k = Some x -> exists y, nth_error l' k = Some y /\ R x y.
Proof.
  induction 1; intros k z E; destruct k; cbn in E; try discriminate.
  - inversion E; subst. eexists; split; [reflexivity|assumption].
  - apply IHForall2. exact E.
Qed.

Lemma Forall2_hd (R : qinst -> qinst -> Prop) l l' : Forall2 R l l' -> l <> [] ->
  R (hd q_init l) (hd q_init l').
Proof. destruct 1; [congruence|auto]. Qed.

(* all instances carry the same timeout flags after a uniform update *)
Lemma same_timeouts_after (R : qinst -> qinst -> Prop) qs qs' st' ct' :
  Forall2 R qs qs' -> (forall q q', In q qs -> R q q' -> q_st q' = st' /\ q_ct q' = ct') ->
  forall q', In q' qs' -> q_st q' = st' /\ q_ct q' = ct'.
Proof.
  intros HF HR q' Hin. apply In_nth_error in Hin as [k Ek].
  destruct (Forall2_nth R qs qs' HF k q' Ek) as (q & Eq & Rq).
  apply (HR q q'); [eapply nth_error_In; eauto|exact Rq].
Qed.

Lemma in_range_lt o : in_range cf o = true -> (Z.to_nat o < n)%nat.
Proof.
  unfold in_range. intro E. apply andb_prop in E as [E1 E2].
  apply Z.leb_le in E1. apply Z.ltb_lt in E2. unfold n. lia.
Qed.

Lemma hd_in (l : list qinst) : l <> [] -> In (hd q_init l) l.
Proof. destruct l; [congruence|left; reflexivity]. Qed.

Lemma aut_ok_keeps_running p dealer to c A' :
  aut_step p cf dealer (mkA true to) c = (A', KOk) -> a_run A' = true.
Proof.
  destruct c; cbn; intro H; repeat brk_hyp H; inversion H; reflexivity.
Qed.

Lemma inst_call_ok i q c A' :
  inst_ok true i q ->
  aut_step PQual cf (Nat.eqb my i) (mkA true (b2n (q_st q) + b2n (q_ct q))) c = (A', KOk) ->
  exists q' ev, qual_step cf i (mkQS true q) c = (mkQS true q', ROk, ev) /\ inst_ok true i q' /\
                (b2n (q_st q') + b2n (q_ct q'))%nat = a_to A'.
Proof.
  intros [Hwf Ha] HA.
  assert (Hinv : qinv cf i (mkQS true q)).
  { split; [exact Hwf|]. cbn. intros e _. apply Ha; [reflexivity|exact e]. }
  pose proof (qual_step_sim cf i Hmy (mkQS true q) c Hinv) as H.
  destruct (qual_step cf i (mkQS true q) c) as [[s' res] ev].
  unfold qabs in H at 1. cbn [qs_run qs_q] in H. fold my in H. rewrite HA in H.
  destruct H as ((W' & Ha') & Hab & Hc).
  destruct res; try discriminate Hc. destruct s' as [run' q'].
  pose proof (aut_ok_keeps_running _ _ _ _ _ HA) as Hrun.
  unfold qabs in Hab. cbn in Hab. destruct A' as [ar ato]. cbn in Hrun. inversion Hab; subst.
  exists q', ev. split; [reflexivity|]. split; [|reflexivity].
  split; [exact W'|]. intros _ e. apply Ha'; [exact e|reflexivity].
Qed.

Lemma to_sum q q' : (q_ct q = true -> q_st q = true) -> (q_ct q' = true -> q_st q' = true) ->
  (b2n (q_st q) + b2n (q_ct q) = b2n (q_st q') + b2n (q_ct q'))%nat -> q_st q = q_st q' /\ q_ct q = q_ct q'.
Proof.
  destruct (q_st q), (q_ct q), (q_st q'), (q_ct q'); cbn; intros A B C; auto; try discriminate;
    try (specialize (A eq_refl); discriminate); try (specialize (B eq_refl); discriminate).
Qed.

Lemma in_set_nth {A} (l : list A) i x y : In y (set_nth l i x) -> y = x \/ In y l.
Proof.
  revert i; induction l as [|a l IH]; intros i H; cbn in H; [contradiction|].
  destruct i; cbn in H.
  - destruct H; [left; auto|right; right; auto].
  - destruct H as [H|H]; [right; left; auto|]. destruct (IH _ H); [left|right; right]; auto.
Qed.

Lemma set_nth_length {A} (l : list A) i x : length (set_nth l i x) = length l.
Proof. revert i; induction l as [|a l IH]; intros [|i]; cbn; auto. Qed.

Lemma nth_set_nth {A} (l : list A) i x k y :
  nth_error (set_nth l i x) k = Some y ->
  (k = i /\ y = x) \/ (k <> i /\ nth_error l k = Some y).
Proof.
  revert i k; induction l as [|a l IH]; intros i k H; [destruct i, k; discriminate|].
  destruct i, k; cbn in H.
  - inversion H; auto.
  - right; split; [lia|exact H].
  - right; split; [lia|exact H].
  - destruct (IH _ _ H) as [[-> ->]|[Hk E]]; [left; auto|right; split; [lia|exact E]].
Qed.

Lemma nth_set_nth_same {A} (l : list A) i x : (i < length l)%nat -> nth_error (set_nth l i x) i = Some x.
Proof. revert i; induction l as [|a l IH]; intros [|i] H; cbn in *; try lia; auto. apply IH. lia. Qed.

Lemma same_to_hd l st ct : same_to l st ct -> l <> [] ->
  q_st (hd q_init l) = st /\ q_ct (hd q_init l) = ct.
Proof. intros H Hl. apply H. apply hd_in. exact Hl. Qed.

Lemma insts_nonempty s : jinv s -> j_insts s <> [].
Proof. intros (L & _) E. rewrite E in L. cbn in L. unfold n in L. lia. Qed.

Lemma qpack_inv x r q res ev : qpack x = (mkQS r q, res, ev) -> x = (r, q, res, ev).
Proof. destruct x as [[[r1 q1] res1] ev1]. cbn. intro H. inversion H. reflexivity. Qed.

Lemma sum_flags q k : (q_ct q = true -> q_st q = true) -> (b2n (q_st q) + b2n (q_ct q))%nat = k ->
  q_st q = (1 <=? k)%nat /\ q_ct q = (2 <=? k)%nat.
Proof.
  destruct (q_st q), (q_ct q); cbn; intros A B; subst k; cbn; auto. specialize (A eq_refl). discriminate.
Qed.

(* End, first loop *)
Definition Rend (q q' : qinst) : Prop := q' = q \/ (q_disq q = false /\ q' = qset_disq q true).

Lemma jend_loop_none q qs i0 : q_st q && q_ct q = false ->
  jend_loop cf i0 (q :: qs) = (q :: qs, [], None).
Proof.
  intro H. cbn [jend_loop]. destruct (q_st q), (q_ct q); cbn in *; try discriminate; reflexivity.
Qed.

Lemma jend_loop_all : forall qs i0,
  same_to qs true true ->
  exists qs' ev, jend_loop cf i0 qs = (qs', ev, Some (length (filter q_disq qs'))) /\ Forall2 Rend qs qs'.
Proof.
  induction qs as [|q qs IH]; intros i0 Hs; cbn [jend_loop].
  - exists [], []. split; [reflexivity|constructor].
  - destruct (Hs q (or_introl eq_refl)) as [Est Ect]. rewrite Est, Ect. cbn [negb orb].
    destruct (IH (S i0)) as (qs' & ev & E & HF). { intros q0 H0. apply Hs. right. exact H0. }
    rewrite E.
    destruct (q_disq q) eqn:Ed; cbn [negb].
    + exists (q :: qs'), ([] ++ ev). split; [|constructor; [left; reflexivity|exact HF]].
      cbn [filter]. rewrite Ed. reflexivity.
    + destruct (unanswered cf (q_compl q)).
      * exists (qset_disq q true :: qs'), ([EvDisq i0] ++ ev). split; [|constructor; [right; auto|exact HF]].
        cbn [filter qset_disq q_disq]. reflexivity.
      * exists (q :: qs'), ([] ++ ev). split; [|constructor; [left; reflexivity|exact HF]].
        cbn [filter]. rewrite Ed. reflexivity.
Qed.

Lemma Rend_wf i q q' : Rend q q' -> q_wf cf i q -> q_wf cf i q'.
Proof.
  intros [->|[Hd ->]] H; [exact H|]. unfold q_wf in *. cbn.
  destruct H as (A & B & C & D). split; [exact A|]. split; [intros; discriminate|].
  split; [intros; discriminate|exact D].
Qed.

Lemma Rend_to q q' : Rend q q' -> q_st q' = q_st q /\ q_ct q' = q_ct q.
Proof. intros [->|[_ ->]]; auto. Qed.

Lemma filter_complement {A} (f : A -> bool) l :
  (length (filter f l) + length (filter (fun x => negb (f x)) l) = length l)%nat.
Proof. induction l as [|a l IH]; cbn; [reflexivity|]. destruct (f a); cbn; lia. Qed.

Lemma opt_all_some {A B} (f : A -> option B) l :
  (forall x, In x l -> exists y, f x = Some y) -> exists ys, opt_all (map f l) = Some ys.
Proof.
  induction l as [|a l IH]; intro H; cbn; [eauto|].
  destruct (H a (or_introl eq_refl)) as [y Ey]. rewrite Ey.
  destruct IH as [ys Eys]; [intros; apply H; right; assumption|]. rewrite Eys. eauto.
Qed.

Lemma sum_up_ok qs :
  (forall q, In q qs -> q_st q = true /\ exists i, q_wf cf i q) ->
  qualified qs <> [] -> exists x Y ys, sum_up cf qs = Some (x, Y, ys).
Proof.
  intros Hq Hne. unfold sum_up.
  destruct (qualified qs) as [|q0 ql] eqn:Eq; [congruence|]. rewrite <- Eq. clear Hne.
  assert (Hql : forall q, In q (qualified qs) ->
            exists a0 al ys, v_vA (q_v q) = VAFull (a0 :: al) /\ v_y (q_v q) = Some ys /\ length ys = n).
  { intros q Hin. unfold qualified in Hin. apply filter_In in Hin as [Hin Hd].
    apply negb_true_iff in Hd. destruct (Hq q Hin) as [Hst [i (W & Q1 & Q2 & Q3)]].
    pose proof (Q2 Hst Hd) as Hr. destruct (Q1 Hr Hd) as [ys Ey].
    destruct W as (W1 & W3 & W4 & W5). destruct (W4 Hr (ex_intro _ ys Ey)) as (a0 & al & Ea).
    exists a0, al, ys. repeat split; auto. }
  destruct (opt_all_some vA0 (qualified qs)) as [pks Ep].
  { intros q Hin. destruct (Hql q Hin) as (a0 & al & ys & Ea & _). unfold vA0. rewrite Ea. eauto. }
  rewrite Ep.
  destruct (opt_all_some (fun j => opt_all (map (yj j) (qualified qs))) (seq 0 (c_n cf))) as [yss Ey].
  { intros j Hj. apply in_seq in Hj. apply opt_all_some. intros q Hin.
    destruct (Hql q Hin) as (a0 & al & ys & _ & Ey & Ly). unfold yj. rewrite Ey.
    destruct (nth_error ys j) eqn:En; [eauto|]. apply nth_error_None in En. unfold n in Ly. lia. }
  rewrite Ey. rewrite Eq. eauto.
Qed.

Lemma nth_error_lt {A} (l : list A) i : (i < length l)%nat -> exists x, nth_error l i = Some x.
Proof. intro H. destruct (nth_error l i) eqn:E; [eauto|]. apply nth_error_None in E. lia. Qed.

(* the loop over all instances for a call every instance accepts *)
Lemma jloop_call_ok s c (g : nat -> nat) :
  jinv s -> j_jrun s = true ->
  (forall b, aut_step PQual cf b (mkA true (a_to (jabs s))) c = (mkA true (g (a_to (jabs s))), KOk)) ->
  forall f, (forall i q, qual_step cf i (mkQS true q) c = qpack (f i true q)) ->
  exists qs' ev, jloop f 0 true (j_insts s) = (true, qs', ROk, ev) /\
     jinv (mkJ true true qs') /\
     jabs (mkJ true true qs') = mkA true (g (a_to (jabs s))).
Proof.
  intros Hinv Hj HA f Hf. pose proof (insts_nonempty s Hinv) as Hne.
  destruct Hinv as (L & Hi & (st & ct & Hs) & J4). rewrite Hj in Hi.
  destruct (same_to_hd _ _ _ Hs Hne) as [Hst Hct].
  unfold jabs in *. cbn [a_to] in *. rewrite Hst, Hct in *.
  destruct (jloop_ok f (fun i q => inst_ok true i q /\ q_st q = st /\ q_ct q = ct) (inst_ok true)
              (fun q q' => (b2n (q_st q') + b2n (q_ct q'))%nat = g (b2n st + b2n ct)%nat))
    with (qs := j_insts s) (i0 := 0%nat) as (qs' & ev & E & W' & HF).
  - intros i q (Hq & E1 & E2) Hlt.
    destruct (inst_call_ok i q c (mkA true (g (b2n st + b2n ct)%nat)) Hq) as (q' & ev & E & W & Hsum).
    { rewrite E1, E2. apply HA. }
    rewrite Hf in E. apply qpack_inv in E. exists q', ev. split; [exact E|]. split; [exact W|exact Hsum].
  - intros k q E. split; [apply Hi; exact E|]. apply Hs. eapply nth_error_In; eauto.
  - rewrite L. lia.
  - exists qs', ev. split; [exact E|].
    assert (Hs' : same_to qs' (1 <=? g (b2n st + b2n ct))%nat (2 <=? g (b2n st + b2n ct))%nat).
    { intros q' Hin. apply In_nth_error in Hin as [k Ek].
      destruct (Forall2_nth _ _ _ HF k q' Ek) as (q & Eq & Rq).
      apply sum_flags; [|exact Rq]. destruct (W' k q' Ek) as [(_ & _ & _ & Q3) _]. exact Q3. }
    assert (Hne' : qs' <> []).
    { intro E0. subst qs'. apply Forall2_length_eq in HF. cbn in HF. rewrite L in HF. unfold n in HF. lia. }
    split.
    + split; [cbn [j_insts]; rewrite <- (Forall2_length_eq _ _ _ HF); exact L|].
      split; [exact W'|]. split; [eauto|auto].
    + cbn [j_insts j_jrun].
      assert (Hhd : In (hd q_init qs') qs') by (apply hd_in; exact Hne').
      apply In_nth_error in Hhd as [k Ek].
      destruct (Forall2_nth _ _ _ HF k _ Ek) as (q & Eq & Rq). rewrite Rq. reflexivity.
Qed.

Lemma joint_step_sim s c : jinv s ->
  let '(s', res, _) := joint_step cf s c in
  let '(A', k) := aut_step PJoint cf true (jabs s) c in
  jinv s' /\ jabs s' = A' /\ class_of res = Some k.
Proof.
  intros Hinv. pose proof (insts_nonempty s Hinv) as Hne.
  pose proof Hinv as (L & Hi & (st & ct & Hs) & J4).
  destruct (same_to_hd _ _ _ Hs Hne) as [Hst Hct].
  assert (HQ3 : ct = true -> st = true).
  { destruct (j_insts s) as [|q0 qs] eqn:Ei; [congruence|].
    destruct (Hi 0%nat q0 eq_refl) as [(_ & _ & _ & Q3) _]. cbn in Hst, Hct. subst st ct. exact Q3. }
  destruct s as [run jrun insts]. cbn [j_insts j_jrun j_run] in *.
  unfold jabs. cbn [j_insts j_jrun]. rewrite Hst, Hct.
  destruct c as [sd| | | |o m|o m|j]; cbn [joint_step aut_step a_run a_to has_timeouts negb].
  - (* Start *)
    unfold joint_start. cbn [j_jrun j_insts]. destruct jrun; cbn.
    { split; [exact Hinv|]. unfold jabs; cbn. rewrite Hst, Hct. auto. }
    destruct (nth_error_lt insts (c_my cf)) as [q Eq]; [rewrite L; exact Hmy|].
    rewrite Eq. destruct (Hi _ _ Eq) as [Wq _].
    assert (Hqi : qinv cf (c_my cf) (mkQS false q)) by (split; [exact Wq|cbn; intros; discriminate]).
    pose proof (qual_step_sim cf (c_my cf) Hmy (mkQS false q) (CStart sd) Hqi) as HS.
    pose proof (qual_reuse_keeps_timeouts cf (c_my cf) (mkQS false q) sd) as HK.
    cbn [qual_step qs_run qs_q] in HS, HK.
    destruct (q_start cf (c_my cf) false q sd) as [[[run' q'] res] ev]. cbn [qpack] in HS, HK.
    destruct (HK _ _ _ eq_refl) as (K1 & K2 & _). cbn in K1, K2.
    unfold qabs in HS. cbn [qs_run qs_q aut_step a_run a_to] in HS. rewrite Nat.eqb_refl in HS. cbn [andb] in HS.
    assert (Hsame' : same_to (set_nth insts (c_my cf) q') st ct).
    { intros q0 H0. apply in_set_nth in H0 as [->|H0]; [|apply Hs; exact H0].
      destruct (Hs q (nth_error_In _ _ Eq)). split; congruence. }
    assert (Hne' : set_nth insts (c_my cf) q' <> []).
    { intro E0. apply (f_equal (@length _)) in E0. rewrite set_nth_length in E0. cbn in E0. rewrite L in E0. unfold n in E0. lia. }
    destruct (same_to_hd _ _ _ Hsame' Hne') as [Hst' Hct'].
    destruct (seed_fails cf sd); destruct HS as ((W' & Ha') & Hab & Hc);
      destruct res; try discriminate Hc; cbn.
    + (* refused: not running *)
      split; [|unfold jabs; cbn; rewrite Hst', Hct'; auto].
      split; [cbn; rewrite set_nth_length; exact L|]. split; [|split; [eauto|intros; discriminate]].
      intros i q0 E0. cbn in E0. apply nth_set_nth in E0 as [[-> ->]|[Hk E0]].
      * split; [exact W'|intros; discriminate].
      * destruct (Hi _ _ E0) as [W0 _]. split; [exact W0|intros; discriminate].
    + split; [|unfold jabs; cbn; rewrite Hst', Hct'; auto].
      split; [cbn; rewrite set_nth_length; exact L|]. split; [|split; [eauto|auto]].
      intros i q0 E0. cbn in E0. apply nth_set_nth in E0 as [[-> ->]|[Hk E0]].
      * split; [exact W'|]. intros _ _. apply Ha'; [reflexivity|]. inversion Hab. reflexivity.
      * destruct (Hi _ _ E0) as [W0 _]. split; [exact W0|]. intros _ E1. unfold my in E1. congruence.
  - (* NextTimeout *)
    unfold joint_next_timeout. cbn [j_jrun j_insts j_run]. destruct jrun; cbn [negb].
    2:{ split; [exact Hinv|]. unfold jabs; cbn. rewrite Hst, Hct. auto. }
    rewrite (J4 eq_refl) in *.
    destruct ct.
    + (* both timeouts elapsed: refused at the first instance *)
      rewrite (HQ3 eq_refl) in *. cbn.
      destruct insts as [|q0 qs]; [congruence|]. cbn in Hct, Hst.
      rewrite (jloop_refused _ 0%nat true q0 qs RStateErr).
      * split; [exact Hinv|]. unfold jabs; cbn. rewrite Hst, Hct. auto.
      * unfold q_next_timeout. cbn. rewrite Hct. reflexivity.
      * discriminate.
    + destruct (jloop_call_ok (mkJ true true insts) CNextTimeout S Hinv eq_refl) with
        (f := fun i run q => q_next_timeout cf i run q) as (qs' & ev & E & Hinv' & Hab).
      * intros b. unfold jabs. cbn. rewrite Hst, Hct. destruct st; reflexivity.
      * intros; reflexivity.
      * cbn [j_insts] in E. rewrite E. replace (b2n st + b2n false)%nat with (b2n st + 0)%nat by reflexivity.
        assert (Hlt : (2 <=? b2n st + 0)%nat = false) by (destruct st; reflexivity).
        rewrite Hlt. split; [exact Hinv'|]. split; [|reflexivity].
        unfold jabs in Hab; cbn in Hab |- *; rewrite Hst, Hct in Hab; exact Hab.
  - (* End *)
    unfold joint_end. cbn [j_jrun j_insts j_run]. destruct jrun; cbn [negb].
    2:{ split; [exact Hinv|]. unfold jabs; cbn. rewrite Hst, Hct. auto. }
    destruct (st && ct) eqn:Eb.
    + apply andb_prop in Eb as [-> ->]. cbn.
      destruct (jend_loop_all insts 0%nat Hs) as (qs' & ev & E & HF). rewrite E.
      assert (Hinv' : jinv (mkJ run false qs')).
      { split; [cbn; rewrite <- (Forall2_length_eq _ _ _ HF); exact L|].
        split; [|split; [|intros; discriminate]].
        - intros i q' E'. cbn in E'. destruct (Forall2_nth _ _ _ HF i q' E') as (q & Eq & Rq).
          destruct (Hi _ _ Eq) as [W0 _]. split; [exact (Rend_wf _ _ _ Rq W0)|intros; discriminate].
        - exists true, true. intros q' Hin. cbn in Hin. apply In_nth_error in Hin as [k Ek].
          destruct (Forall2_nth _ _ _ HF k q' Ek) as (q & Eq & Rq).
          destruct (Rend_to _ _ Rq) as [A B]. destruct (Hs q (nth_error_In _ _ Eq)). split; congruence. }
      assert (Habs' : jabs (mkJ run false qs') = mkA false 2).
      { pose proof (insts_nonempty _ Hinv') as Hne'. cbn in Hne'.
        destruct Hinv' as (_ & _ & (st' & ct' & Hs') & _). cbn in Hs'.
        assert (Hin : In (hd q_init qs') qs') by (apply hd_in; exact Hne').
        apply In_nth_error in Hin as [k Ek].
        destruct (Forall2_nth _ _ _ HF k _ Ek) as (q & Eq & Rq).
        destruct (Rend_to _ _ Rq) as [A B]. destruct (Hs q (nth_error_In _ _ Eq)) as [C D].
        unfold jabs. cbn. rewrite A, B, C, D. reflexivity. }
      match goal with |- context[if ?b then (_, RFailure, _) else _] => destruct b eqn:Efail end.
      * split; [exact Hinv'|]. split; [exact Habs'|reflexivity].
      * apply orb_false_iff in Efail as [_ Ef]. apply Nat.leb_gt in Ef.
        destruct (sum_up_ok qs') as (x & Y & ys & Esum).
        { intros q' Hin. apply In_nth_error in Hin as [k Ek].
          destruct Hinv' as (_ & Hi' & (st' & ct' & Hs') & _). cbn in Hi', Hs'.
          destruct (Forall2_nth _ _ _ HF k q' Ek) as (q & Eq & Rq).
          destruct (Rend_to _ _ Rq) as [A B]. destruct (Hs q (nth_error_In _ _ Eq)) as [C D].
          split; [congruence|]. exists k. apply (Hi' k q' Ek). }
        { intro E0. pose proof (filter_complement q_disq qs') as Hc. unfold qualified in E0. rewrite E0 in Hc.
          cbn in Hc. rewrite <- (Forall2_length_eq _ _ _ HF), L in Hc. unfold n in Hc. lia. }
        rewrite Esum. destruct (x =? 0); [|destruct (Y =? 0)]; (split; [exact Hinv'|]; split; [exact Habs'|reflexivity]).
    + assert (Hlt : (b2n st + b2n ct <? 2)%nat = true) by (destruct st, ct; try discriminate; reflexivity).
      rewrite Hlt. cbn.
      destruct insts as [|q0 qs]; [congruence|]. cbn in Hct, Hst.
      rewrite jend_loop_none by (rewrite Hst, Hct; exact Eb).
      split; [exact Hinv|]. unfold jabs; cbn. rewrite Hst, Hct. auto.
  - split; [exact Hinv|]. unfold jabs; cbn. rewrite Hst, Hct. auto.
  - (* HandleBroadcastMsg *)
    unfold joint_broadcast. cbn [j_jrun j_insts j_run]. destruct jrun; cbn [negb].
    2:{ split; [exact Hinv|]. unfold jabs; cbn. rewrite Hst, Hct. auto. }
    rewrite (J4 eq_refl) in *.
    destruct (in_range cf o) eqn:Eo; cbn [negb].
    + destruct (jloop_call_ok (mkJ true true insts) (CBroadcast o m) (fun k => k) Hinv eq_refl) with
        (f := fun i run q => q_broadcast cf i run q o m) as (qs' & ev & E & Hinv' & Hab).
      * intros b. cbn. rewrite Eo. reflexivity.
      * intros; reflexivity.
      * cbn [j_insts] in E. rewrite E. split; [exact Hinv'|]. split; [|reflexivity].
        unfold jabs in Hab; cbn in Hab |- *; rewrite Hst, Hct in Hab; exact Hab.
    + destruct insts as [|q0 qs]; [congruence|].
      rewrite (jloop_refused _ 0%nat true q0 qs RInvalidInput).
      * split; [exact Hinv|]. unfold jabs; cbn. cbn in Hst, Hct. rewrite Hst, Hct. auto.
      * unfold q_broadcast. cbn. rewrite Eo. reflexivity.
      * discriminate.
  - (* HandlePrivateMsg *)
    unfold joint_private. cbn [j_jrun j_insts j_run]. destruct jrun; cbn [negb].
    2:{ split; [exact Hinv|]. unfold jabs; cbn. rewrite Hst, Hct. auto. }
    rewrite (J4 eq_refl) in *.
    destruct (in_range cf o) eqn:Eo; cbn [negb].
    + destruct (jloop_call_ok (mkJ true true insts) (CPrivate o m) (fun k => k) Hinv eq_refl) with
        (f := fun i run q => q_private cf i run q o m) as (qs' & ev & E & Hinv' & Hab).
      * intros b. cbn. rewrite Eo. reflexivity.
      * intros; reflexivity.
      * cbn [j_insts] in E. rewrite E. split; [exact Hinv'|]. split; [|reflexivity].
        unfold jabs in Hab; cbn in Hab |- *; rewrite Hst, Hct in Hab; exact Hab.
    + destruct insts as [|q0 qs]; [congruence|].
      rewrite (jloop_refused _ 0%nat true q0 qs RInvalidInput).
      * split; [exact Hinv|]. unfold jabs; cbn. cbn in Hst, Hct. rewrite Hst, Hct. auto.
      * unfold q_private. cbn. rewrite Eo. reflexivity.
      * discriminate.
  - (* ForceDisqualify *)
    unfold joint_force. cbn [j_jrun j_insts j_run]. destruct jrun; cbn [negb].
    2:{ split; [exact Hinv|]. unfold jabs; cbn. rewrite Hst, Hct. auto. }
    rewrite (J4 eq_refl) in *.
    destruct (in_range cf j) eqn:Ej; cbn [negb].
    2:{ split; [exact Hinv|]. unfold jabs; cbn. rewrite Hst, Hct. auto. }
    pose proof (in_range_lt j Ej) as Hlt.
    destruct (nth_error_lt insts (Z.to_nat j)) as [q Eq]; [rewrite L; exact Hlt|]. rewrite Eq.
    destruct (inst_call_ok (Z.to_nat j) q (CForce j) (mkA true (b2n (q_st q) + b2n (q_ct q))%nat) (Hi _ _ Eq))
      as (q' & ev & E & W' & Hsum).
    { cbn. rewrite Ej. reflexivity. }
    cbn [qual_step qs_run qs_q] in E. apply qpack_inv in E. rewrite E. cbn [a_to] in Hsum.
    destruct (Hs q (nth_error_In _ _ Eq)) as [C D].
    assert (Hto : q_st q' = st /\ q_ct q' = ct).
    { destruct W' as [(_ & _ & _ & Q3') _]. destruct (Hi _ _ Eq) as [(_ & _ & _ & Q3) _].
      destruct (to_sum q' q Q3' Q3 Hsum). split; congruence. }
    assert (Hsame' : same_to (set_nth insts (Z.to_nat j) q') st ct).
    { intros q0 H0. apply in_set_nth in H0 as [->|H0]; [exact Hto|apply Hs; exact H0]. }
    assert (Hne' : set_nth insts (Z.to_nat j) q' <> []).
    { intro E0. apply (f_equal (@length _)) in E0. rewrite set_nth_length in E0. cbn in E0. rewrite L in E0. unfold n in E0. lia. }
    destruct (same_to_hd _ _ _ Hsame' Hne') as [Hst' Hct'].
    split; [|unfold jabs; cbn; rewrite Hst', Hct'; auto].
    split; [cbn; rewrite set_nth_length; exact L|]. split; [|split; [eauto|auto]].
    intros i q0 E0. cbn in E0. apply nth_set_nth in E0 as [[-> ->]|[Hk E0]]; [exact W'|apply Hi; exact E0].
Qed.

Lemma q_init_wf i : q_wf cf i q_init.
Proof.
  unfold q_wf, v_wf. cbn. repeat split; intros; try discriminate; try reflexivity;
  repeat match goal with H : exists _, _ |- _ => destruct H end; discriminate.
Qed.

Lemma joint_init_inv : jinv (joint_init cf).
Proof.
  unfold joint_init. split; [cbn; apply repeat_length|]. split; [|split; [|intros; discriminate]].
  - intros i q E. cbn in E. apply nth_error_In in E. apply repeat_spec in E. subst q.
    split; [apply q_init_wf|intros; discriminate].
  - exists false, false. intros q Hin. cbn in Hin. apply repeat_spec in Hin. subst q. auto.
Qed.

Theorem joint_api_follows_automaton cs :
  map (fun o => class_of (fst o)) (run (joint_step cf) (joint_init cf) cs)
  = map Some (aut_trace PJoint cf true a_init cs).
Proof.
  pose proof (run_follows (joint_step cf) PJoint cf true jinv jabs joint_step_sim cs (joint_init cf) joint_init_inv) as H.
  assert (E : jabs (joint_init cf) = a_init).
  { unfold jabs, joint_init. cbn. destruct (c_n cf); reflexivity. }
  rewrite E in H. exact H.
Qed.

Theorem joint_run_complete cs : length (run (joint_step cf) (joint_init cf) cs) = length cs.
Proof. exact (run_length (joint_step cf) PJoint cf true jinv jabs joint_step_sim cs (joint_init cf) joint_init_inv). Qed.

Lemma joint_reachable_inv cs : jinv (final (joint_step cf) (joint_init cf) cs).
Proof. exact (final_inv (joint_step cf) PJoint cf true jinv jabs joint_step_sim cs (joint_init cf) joint_init_inv). Qed.

Lemma set_nth_same {A} (l : list A) i x : nth_error l i = Some x -> set_nth l i x = l.
Proof.
  revert i; induction l as [|a l IH]; intros [|i] H; cbn in *; try discriminate.
  - inversion H; reflexivity.
  - f_equal. apply IH. exact H.
Qed.

Definition is_start (c : call) : Prop := exists sd, c = CStart sd.

(* refused calls are no-ops.  The only field that may differ is the shared dkgCommon.running
   flag after a refused Start (Start clears it before trying); it is never read while
   jointRunning is false, see joint_run_flag_unobservable. *)
Lemma joint_refused_noop s c s' res ev :
  jinv s -> joint_step cf s c = (s', res, ev) -> is_refusal res -> degenerate_start cf true c = false ->
  j_jrun s' = j_jrun s /\ j_insts s' = j_insts s /\ (j_run s' = j_run s \/ is_start c) /\ ev = [].
Proof.
  intros Hinv H Hr Hdeg. pose proof (insts_nonempty s Hinv) as Hne.
  pose proof Hinv as (L & Hi & (st & ct & Hs) & J4).
  destruct (same_to_hd _ _ _ Hs Hne) as [Hst Hct].
  destruct s as [run jrun insts]. cbn [j_insts j_jrun j_run] in *.
  assert (Hsame : forall X, X = (s', res, ev) -> X = (mkJ run jrun insts, res, []) ->
            j_jrun s' = jrun /\ j_insts s' = insts /\ (j_run s' = run \/ is_start c) /\ ev = []).
  { intros X E1 E2. rewrite E1 in E2. inversion E2; subst. cbn. auto. }
  assert (Hnot : forall X r e (s0 : jstate), X = (s', res, ev) -> X = (s0, r, e) -> ~ is_refusal r -> False).
  { intros X r e s0 E1 E2 Hn. rewrite E1 in E2. inversion E2; subst. contradiction. }
  destruct c as [sd| | | |o m|o m|j]; cbn [joint_step] in H.
  - (* Start *)
    unfold joint_start in H. cbn [j_jrun j_insts] in H. destruct jrun; [(inversion H; subst; cbn; repeat split; auto)|].
    destruct (nth_error_lt insts (c_my cf)) as [q Eq]; [rewrite L; exact Hmy|]. rewrite Eq in H.
    pose proof (qual_refused_noop cf (c_my cf) Hmy (mkQS false q) (CStart sd)) as HN.
    cbn [qual_step qs_run qs_q] in HN.
    destruct (q_start cf (c_my cf) false q sd) as [[[run' q'] res'] ev'].
    destruct res'; inversion H; subst; try (destruct Hr; discriminate).
    + destruct (HN _ _ _ eq_refl Hr) as [E1 E2].
      { unfold degenerate_start in *. rewrite Nat.eqb_refl. exact Hdeg. }
      inversion E1; subst. cbn. rewrite (set_nth_same _ _ _ Eq). repeat split; auto. right. eexists; reflexivity.
    + destruct (HN _ _ _ eq_refl Hr) as [E1 E2].
      { unfold degenerate_start in *. rewrite Nat.eqb_refl. exact Hdeg. }
      inversion E1; subst. cbn. rewrite (set_nth_same _ _ _ Eq). repeat split; auto. right. eexists; reflexivity.
  - (* NextTimeout *)
    unfold joint_next_timeout in H. cbn [j_jrun j_insts j_run] in H. destruct jrun; cbn [negb] in H; [|(inversion H; subst; cbn; repeat split; auto)].
    rewrite (J4 eq_refl) in *.
    destruct ct.
    + destruct insts as [|q0 qs]; [congruence|]. cbn in Hct.
      rewrite (jloop_refused _ 0%nat true q0 qs RStateErr) in H.
      * (inversion H; subst; cbn; repeat split; auto).
      * unfold q_next_timeout. cbn. rewrite Hct. reflexivity.
      * discriminate.
    + exfalso.
      destruct (jloop_call_ok (mkJ true true insts) CNextTimeout S Hinv eq_refl) with
        (f := fun i run q => q_next_timeout cf i run q) as (qs' & ev0 & E & _).
      * intros b. unfold jabs. cbn. rewrite Hst, Hct. destruct st; reflexivity.
      * intros; reflexivity.
      * cbn [j_insts] in E. rewrite E in H. inversion H; subst. destruct Hr; discriminate.
  - (* End *)
    unfold joint_end in H. cbn [j_jrun j_insts j_run] in H. destruct jrun; cbn [negb] in H; [|(inversion H; subst; cbn; repeat split; auto)].
    destruct (st && ct) eqn:Eb.
    + exfalso. apply andb_prop in Eb as [-> ->].
      destruct (jend_loop_all insts 0%nat Hs) as (qs' & ev0 & E & HF). rewrite E in H.
      repeat brk_hyp H; inversion H; subst; destruct Hr; discriminate.
    + destruct insts as [|q0 qs]; [congruence|]. cbn in Hct, Hst.
      rewrite jend_loop_none in H by (rewrite Hst, Hct; exact Eb). (inversion H; subst; cbn; repeat split; auto).
  - inversion H; subst. destruct Hr; discriminate.
  - (* HandleBroadcastMsg *)
    unfold joint_broadcast in H. cbn [j_jrun j_insts j_run] in H. destruct jrun; cbn [negb] in H; [|(inversion H; subst; cbn; repeat split; auto)].
    rewrite (J4 eq_refl) in *.
    destruct (in_range cf o) eqn:Eo.
    + exfalso.
      destruct (jloop_call_ok (mkJ true true insts) (CBroadcast o m) (fun k => k) Hinv eq_refl) with
        (f := fun i run q => q_broadcast cf i run q o m) as (qs' & ev0 & E & _).
      * intros b. cbn. rewrite Eo. reflexivity.
      * intros; reflexivity.
      * cbn [j_insts] in E. rewrite E in H. inversion H; subst. destruct Hr; discriminate.
    + destruct insts as [|q0 qs]; [congruence|].
      rewrite (jloop_refused _ 0%nat true q0 qs RInvalidInput) in H.
      * (inversion H; subst; cbn; repeat split; auto).
      * unfold q_broadcast. cbn. rewrite Eo. reflexivity.
      * discriminate.
  - (* HandlePrivateMsg *)
    unfold joint_private in H. cbn [j_jrun j_insts j_run] in H. destruct jrun; cbn [negb] in H; [|(inversion H; subst; cbn; repeat split; auto)].
    rewrite (J4 eq_refl) in *.
    destruct (in_range cf o) eqn:Eo.
    + exfalso.
      destruct (jloop_call_ok (mkJ true true insts) (CPrivate o m) (fun k => k) Hinv eq_refl) with
        (f := fun i run q => q_private cf i run q o m) as (qs' & ev0 & E & _).
      * intros b. cbn. rewrite Eo. reflexivity.
      * intros; reflexivity.
      * cbn [j_insts] in E. rewrite E in H. inversion H; subst. destruct Hr; discriminate.
    + destruct insts as [|q0 qs]; [congruence|].
      rewrite (jloop_refused _ 0%nat true q0 qs RInvalidInput) in H.
      * (inversion H; subst; cbn; repeat split; auto).
      * unfold q_private. cbn. rewrite Eo. reflexivity.
      * discriminate.
  - (* ForceDisqualify *)
    unfold joint_force in H. cbn [j_jrun j_insts j_run] in H. destruct jrun; cbn [negb] in H; [|(inversion H; subst; cbn; repeat split; auto)].
    rewrite (J4 eq_refl) in *.
    destruct (in_range cf j) eqn:Ej; cbn [negb] in H; [|(inversion H; subst; cbn; repeat split; auto)].
    exfalso. pose proof (in_range_lt j Ej) as Hlt.
    destruct (nth_error_lt insts (Z.to_nat j)) as [q Eq]; [rewrite L; exact Hlt|]. rewrite Eq in H.
    unfold q_force in H. cbn in H. rewrite Ej in H. cbn in H.
    destruct (Nat.eqb (Z.to_nat j) (Z.to_nat j)); inversion H; subst; destruct Hr; discriminate.
Qed.

(* the shared running flag is not observable while jointRunning is false *)
Lemma joint_run_flag_unobservable b1 b2 insts c :
  let '(s1, r1, e1) := joint_step cf (mkJ b1 false insts) c in
  let '(s2, r2, e2) := joint_step cf (mkJ b2 false insts) c in
  r1 = r2 /\ e1 = e2 /\ j_jrun s1 = j_jrun s2 /\ j_insts s1 = j_insts s2 /\
  (j_jrun s1 = true -> j_run s1 = j_run s2).
Proof.
  destruct c; cbn [joint_step]; try (cbn; repeat split; auto; intros; discriminate).
  unfold joint_start. cbn [j_jrun j_insts].
  destruct (nth_error insts (c_my cf)); [|cbn; repeat split; auto; intros; discriminate].
  destruct (q_start cf (c_my cf) false q sd) as [[[run' q'] res] ev].
  destruct res; cbn; repeat split; auto.
Qed.

Lemma joint_end_not_running s s' res ev :
  joint_step cf s CEnd = (s', res, ev) -> res <> RStateErr -> j_jrun s' = false.
Proof.
  cbn [joint_step]. unfold joint_end. intros H Hn.
  destruct (j_jrun s) eqn:Ej; cbn [negb] in H; [|inversion H; subst; congruence].
  destruct (jend_loop cf 0 (j_insts s)) as [[qs ev0] tot].
  destruct tot; [|inversion H; subst; congruence].
  repeat brk_hyp H; inversion H; reflexivity.
Qed.

(* reuse after End: the instances keep their timeouts (and complaints, disqualified flags) *)
Lemma joint_reuse_keeps_timeouts s sd s' res ev q :
  joint_step cf s (CStart sd) = (s', res, ev) -> nth_error (j_insts s) my = Some q ->
  exists q', nth_error (j_insts s') my = Some q' /\ q_st q' = q_st q /\ q_ct q' = q_ct q /\ q_disq q' = q_disq q.
Proof.
  cbn [joint_step]. unfold joint_start. intros H Eq. fold my in H. rewrite Eq in H.
  destruct (j_jrun s); [inversion H; subst; eauto|].
  pose proof (qual_reuse_keeps_timeouts cf my (mkQS false q) sd) as HK. cbn [qual_step qs_run qs_q] in HK.
  destruct (q_start cf my false q sd) as [[[run' q'] res'] ev'].
  destruct (HK _ _ _ eq_refl) as (K1 & K2 & K3). cbn in K1, K2, K3.
  assert (Hl : (my < length (j_insts s))%nat) by (apply nth_error_Some; congruence).
  exists q'. destruct res'; inversion H; subst; cbn; rewrite nth_set_nth_same by exact Hl; auto.
Qed.

End Joint.
