(* Facts about Model/MapToG1.v (the hash-to-curve step as implemented by the glue and blst).
   1. the constants of Generated/IsoG1.v are consistent (precomputed -A', Z*A', sqrt(-Z^3), the
      exponent of recip_sqrt_fp, the addition chain is 1 - z minus one, the Montgomery constant of
      the glue's reduction), and the call sequence of map_to_g1 is the one the model follows;
   2. the glue's reduction: the output depends only on the residues mod p of the two halves;
   3. for a prime modulus, the simplified SWU map as implemented (map_to_isogenous_E1) returns,
      for EVERY u, a finite Jacobian point satisfying the equation of E1'.
   Primality of the modulus is an explicit hypothesis ([primeZ], MathComp's [prime]). *)
From Coq Require Import ZArith NArith List Bool Lia Zdiv Zpow_facts Morphisms Setoid String.
From V Require Import Lib.Num Lib.FermatZ Prim.Bls12 Spec.ZcashCodec Proofs.ModArith
  Generated.Consts Generated.IsoG1 Model.MapToG1 Spec.HashToCurveSpec.
Import ListNotations.
Open Scope Z_scope.

(* ================= 1. constants ================= *)
Example iso_p_is_pZ : iso_p = pZ. Proof. reflexivity. Qed.
Example iso_Z_is_11 : iso_Z = sswu_Z_G1. Proof. reflexivity. Qed.
Example iso_exp_is_p_minus_3_div_4 : 4 * iso_recip_sqrt_exp + 3 = pZ. Proof. reflexivity. Qed.
Example iso_minus_A_ok : (iso_minus_A + iso_Aprime) mod pZ = 0. Proof. vm_compute. reflexivity. Qed.
Example iso_ZxA_ok : iso_ZxA = (iso_Z * iso_Aprime) mod pZ. Proof. vm_compute. reflexivity. Qed.
Example iso_c2_ok : (iso_sqrt_minus_ZZZ * iso_sqrt_minus_ZZZ + iso_Z * iso_Z * iso_Z) mod pZ = 0.
Proof. vm_compute. reflexivity. Qed.
Example iso_tables_lengths :
  (List.length iso_x_num, List.length iso_x_den, List.length iso_y_num, List.length iso_y_den) = (12, 10, 16, 15)%nat.
Proof. reflexivity. Qed.
Example iso_all_reduced :
  forallb (fun x => (0 <=? x) && (x <? pZ))
    ([iso_Aprime; iso_Bprime; iso_Z; iso_minus_A; iso_ZxA; iso_sqrt_minus_ZZZ]
       ++ iso_x_num ++ iso_x_den ++ iso_y_num ++ iso_y_den) = true.
Proof. vm_compute. reflexivity. Qed.

(* POINTonE1_times_minus_z multiplies by -z = h_eff - 1: the scalar the chain computes *)
Definition chain_scalar (chain : list Z) : Z := fold_left (fun k n => (k + 1) * 2 ^ n) chain 2.
Example chain_is_h_eff_minus_1 : chain_scalar iso_minus_z_chain + 1 = h_eff_G1.
Proof. vm_compute. reflexivity. Qed.

(* the calls of blst's map_to_g1, as the model performs them *)
Example iso_calls_as_modelled :
  iso_map_to_g1_calls =
  ["map_to_isogenous_E1 &p u"; "map_to_isogenous_E1 out v"; "dadd &p &p out Aprime_E1";
   "isogeny_map_to_E1 &p &p"; "POINTonE1_times_minus_z out &p"; "dadd out out &p NULL"]%string.
Proof. reflexivity. Qed.
Example glue_shape_as_modelled :
  (glue_half_divisor, glue_reduce_is_redc_then_mul_RRRR, glue_map_to_G1_calls) =
  (2, true,
   ["map_96_bytes_to_Fp(&u[0], hash, half)"; "map_96_bytes_to_Fp(&u[1], hash + half, half)";
    "map_to_g1((POINTonE1 *)h, (limb_t *)&u[0], (limb_t *)&u[1])"]%string).
Proof. reflexivity. Qed.
Example translator_read_everything : iso_extract_problems = []. Proof. reflexivity. Qed.

(* the glue's map_96_bytes_to_Fp: redc_mont_384 then the Montgomery product with BLS12_381_RRRR
   yields the Montgomery form x * R of x mod p *)
Definition montR : Z := 2 ^ 384.
Definition montRinv : Z := Eval vm_compute in
  (* R^(p-2) mod p *) mpow ZNum pZ (montR mod pZ) (pZ - 2).
Example montRinv_ok : (montR * montRinv) mod pZ = 1. Proof. vm_compute. reflexivity. Qed.
Example RRRR_is_R_cubed : iso_RRRR_raw = (montR * montR * montR) mod pZ. Proof. vm_compute. reflexivity. Qed.

Section Redc.
Variables (p R Ri RRRR : Z).
Hypothesis HR : (R * Ri) mod p = 1 mod p.
Hypothesis HRRRR : RRRR mod p = (R * R * R) mod p.
#[local] Instance eqm_p_equiv0 : Equivalence (eqm p) := eqm_setoid p.
#[local] Instance eqm_p_add0 : Proper (eqm p ==> eqm p ==> eqm p) Z.add := Zplus_eqm p.
#[local] Instance eqm_p_mul0 : Proper (eqm p ==> eqm p ==> eqm p) Z.mul := Zmult_eqm p.
(* redc(x) = x * Ri mod p ; mont_mul(a, b) = a * b * Ri mod p *)
Lemma redc_then_mul_RRRR x :
  ((((x * Ri) mod p) * RRRR * Ri) mod p) = ((x mod p) * R) mod p.
Proof.
  change (eqm p (((x * Ri) mod p) * RRRR * Ri) ((x mod p) * R)).
  rewrite !(Zmod_eqm p).
  change (eqm p RRRR (R * R * R)) in HRRRR. rewrite HRRRR.
  change (eqm p (R * Ri) 1) in HR.
  transitivity (x * R * ((R * Ri) * (R * Ri))).
  - apply (f_equal (fun z => z mod p)). ring.
  - rewrite HR. apply (f_equal (fun z => z mod p)). ring.
Qed.
End Redc.

Theorem glue_reduction_is_mod_p x :
  ((((x * montRinv) mod pZ) * iso_RRRR_raw * montRinv) mod pZ) = ((x mod pZ) * montR) mod pZ.
Proof.
  apply redc_then_mul_RRRR.
  - rewrite montRinv_ok. reflexivity.
  - rewrite RRRR_is_R_cubed. apply Z.mod_mod. discriminate.
Qed.

(* ================= 2. only the residues matter ================= *)
Theorem map_to_G1_ints_residues u0 u1 u0' u1' :
  u0 mod pZ = u0' mod pZ -> u1 mod pZ = u1' mod pZ ->
  map_to_G1_ints ZNum pZ u0 u1 = map_to_G1_ints ZNum pZ u0' u1'.
Proof.
  intros H0 H1. unfold map_to_G1_ints. cbn [n_mod n_of_Z ZNum]. rewrite H0, H1. reflexivity.
Qed.

(* the glue accepts exactly 128 bytes and then computes on (first half mod p, second half mod p) *)
Theorem map_to_G1_spec_bytes {T} (M : num T) (p : T) hash :
  map_to_G1 M p hash =
  if Nat.eqb (List.length hash) 128
  then G1Point (map_to_G1_ints M p (be2z (firstn 64 hash)) (be2z (firstn 64 (skipn 64 hash))))
  else G1Invalid.
Proof.
  unfold map_to_G1. change C_MAP_TO_G1_INPUT_LEN with 128.
  change (glue_slice hash 0) with (firstn 64 hash).
  change (glue_slice hash 1) with (firstn 64 (skipn 64 hash)).
  destruct (Nat.eqb_spec (List.length hash) 128) as [E|E].
  - rewrite E. reflexivity.
  - replace (Z.of_nat (List.length hash) =? 128) with false; [reflexivity|].
    symmetry. apply Z.eqb_neq. lia.
Qed.

Theorem map_to_G1_residues hash hash' :
  List.length hash = 128%nat -> List.length hash' = 128%nat ->
  be2z (firstn 64 hash) mod pZ = be2z (firstn 64 hash') mod pZ ->
  be2z (skipn 64 hash) mod pZ = be2z (skipn 64 hash') mod pZ ->
  map_to_G1 ZNum pZ hash = map_to_G1 ZNum pZ hash'.
Proof.
  intros L L' H0 H1. rewrite !map_to_G1_spec_bytes, L, L'. cbn [Nat.eqb].
  assert (F : forall h : list N, List.length h = 128%nat -> firstn 64 (skipn 64 h) = skipn 64 h).
  { intros h Lh. apply firstn_all2. rewrite skipn_length, Lh. cbn. lia. }
  rewrite (F _ L), (F _ L'). f_equal. apply map_to_G1_ints_residues; assumption.
Qed.

(* the tables the model runs on are the RFC's (literals of Spec/HashToCurveSpec.v) *)
Example iso_tables_are_rfc :
  (iso_Aprime, iso_Bprime, iso_x_num, iso_x_den, iso_y_num, iso_y_den) =
  (rfc_Aprime, rfc_Bprime, rfc_k1, rfc_k2, rfc_k3, rfc_k4).
Proof. reflexivity. Qed.

(* ================= 3. the simplified SWU map lands on E1' ================= *)
(* the identity behind the construction: with x1 = x1n/xd, xd = -A (t^2 + t), x1n = B (t^2 + t + 1)
   and x2 = t x1:  xd^3 g(x2) = t^3 xd^3 g(x1) *)
Lemma swu_poly_small (A B t : Z) :
  t * t * t * (((t * t + t + 1) * B) * ((t * t + t + 1) * B) * ((t * t + t + 1) * B)
               + A * ((t * t + t + 1) * B) * ((- A * (t * t + t)) * (- A * (t * t + t)))
               + B * ((- A * (t * t + t)) * (- A * (t * t + t)) * (- A * (t * t + t)))) =
  (t * ((t * t + t + 1) * B)) * (t * ((t * t + t + 1) * B)) * (t * ((t * t + t + 1) * B))
  + A * (t * ((t * t + t + 1) * B)) * ((- A * (t * t + t)) * (- A * (t * t + t)))
  + B * ((- A * (t * t + t)) * (- A * (t * t + t)) * (- A * (t * t + t))).
Proof. ring. Qed.

Section SswuOnCurve.
Variable p : Z.
Hypothesis Hpr : primeZ p.
Variable prm : sswu_params Z.
Local Notation A := (sp_A prm).
Local Notation B := (sp_B prm).
Local Notation Zc := (sp_Z prm).
Local Notation mA := (sp_minus_A prm).
Local Notation ZxA := (sp_ZxA prm).
Local Notation c2 := (sp_c2 prm).
Local Notation e := (sp_exp prm).
(* the relations between the constants that the algorithm relies on *)
Hypothesis HA0 : A mod p <> 0.
Hypothesis HmA : (mA + A) mod p = 0.
Hypothesis HZxA0 : ZxA mod p <> 0.
Hypothesis Hc2 : (c2 * c2 + Zc * Zc * Zc) mod p = 0.
Hypothesis Hexp : 4 * e + 3 = p.
(* the exceptional case (tv2 = 0) takes the "gx1 is a square" branch: g(B/(Z A)) is a square *)
Hypothesis Hexc : m_e2 (sswu_mid_of ZNum p prm 0) = true.

Let Hp1 : 1 < p := primeZ_gt1 p Hpr.

#[local] Instance eqm_p_equiv : Equivalence (eqm p) := eqm_setoid p.
#[local] Instance eqm_p_add : Proper (eqm p ==> eqm p ==> eqm p) Z.add := Zplus_eqm p.
#[local] Instance eqm_p_mul : Proper (eqm p ==> eqm p ==> eqm p) Z.mul := Zmult_eqm p.
#[local] Instance eqm_p_sub : Proper (eqm p ==> eqm p ==> eqm p) Z.sub := Zminus_eqm p.
#[local] Instance eqm_p_opp : Proper (eqm p ==> eqm p) Z.opp := Zopp_eqm p.
Local Notation "a == b" := (eqm p a b) (at level 70).

Lemma eq_eqm a b : a = b -> a == b. Proof. intros ->. reflexivity. Qed.
Lemma fmul_eqm a b : fmul ZNum p a b == a * b. Proof. apply (Zmod_eqm p). Qed.
Lemma fadd_eqm a b : fadd ZNum p a b == a + b. Proof. apply (Zmod_eqm p). Qed.
Lemma fsub_eqm a b : fsub ZNum p a b == a - b. Proof. apply (Zmod_eqm p). Qed.
Lemma fneg_eqm a : fneg ZNum p a == - a.
Proof.
  change (fneg ZNum p a) with ((p - a) mod p). rewrite (Zmod_eqm p).
  unfold eqm. replace (p - a) with (- a + 1 * p) by ring. apply Z.mod_add. lia.
Qed.
Lemma fmul_range a b : 0 <= fmul ZNum p a b < p. Proof. apply Z.mod_pos_bound. lia. Qed.
Lemma fadd_range a b : 0 <= fadd ZNum p a b < p. Proof. apply Z.mod_pos_bound. lia. Qed.
Lemma eqm0_small a : 0 <= a < p -> a == 0 -> a = 0.
Proof. unfold eqm. intros Ha H. rewrite Z.mod_small in H by lia. rewrite Z.mod_0_l in H by lia. exact H. Qed.
Lemma eqm0_iff a : a == 0 <-> a mod p = 0.
Proof. unfold eqm. rewrite Z.mod_0_l by lia. tauto. Qed.
Lemma feqb_eqm a b : 0 <= a < p -> 0 <= b < p -> (feqb ZNum a b = true <-> a == b).
Proof.
  intros Ha Hb. change (feqb ZNum a b) with (a =? b). rewrite Z.eqb_eq. unfold eqm.
  rewrite !Z.mod_small by lia. tauto.
Qed.

Lemma eqm_sub0 a b : a - b == 0 <-> a == b.
Proof.
  split; intro H.
  - replace a with ((a - b) + b) by ring. rewrite H. apply eq_eqm. ring.
  - rewrite H. apply eq_eqm. ring.
Qed.

(* Euclid's lemma for arbitrary integers *)
Lemma eqm_mul_zero a b : a * b == 0 -> a == 0 \/ b == 0.
Proof.
  intro H. rewrite !eqm0_iff in *. rewrite Zmult_mod in H.
  destruct (euclid_Z p (a mod p) (b mod p) Hpr) as [Q|Q]; try (apply Z.mod_pos_bound; lia).
  - exact H.
  - left. rewrite Z.mod_mod in Q by lia. exact Q.
  - right. rewrite Z.mod_mod in Q by lia. exact Q.
Qed.
Lemma eqm_cancel c a b : ~ c == 0 -> c * a == c * b -> a == b.
Proof.
  intros Hc H. apply eqm_sub0.
  destruct (eqm_mul_zero c (a - b)) as [Q|Q]; [|contradiction|exact Q].
  replace (c * (a - b)) with (c * a - c * b) by ring. apply eqm_sub0. exact H.
Qed.
Lemma eqm_sq_one w : w * w == 1 -> w == 1 \/ w == - 1.
Proof.
  intro H. destruct (eqm_mul_zero (w - 1) (w + 1)) as [Q|Q].
  - replace ((w - 1) * (w + 1)) with (w * w - 1) by ring. apply eqm_sub0. exact H.
  - left. apply eqm_sub0. exact Q.
  - right. apply eqm_sub0. replace (w - - 1) with (w + 1) by ring. exact Q.
Qed.

Lemma e_nonneg : 0 <= e. Proof. lia. Qed.

Lemma fpow_eqm a : fpow ZNum p a e == a ^ e.
Proof.
  pose proof e_nonneg as En. unfold fpow, mpow.
  generalize dependent (sp_exp prm). intros x _ En. destruct x as [|e'|e'].
  - cbn [n_mod n_of_Z ZNum]. rewrite (Zmod_eqm p). reflexivity.
  - apply (mpow_pos_Z p Hp1).
  - lia.
Qed.

(* Euler's criterion, in the form recip_sqrt_fp uses it: t0 = a^((p-3)/4); if (t0 a)^2 <> a then
   t0^2 a = a^((p-1)/2) = -1 *)
Lemma recip_sqrt_nonsquare a t0 :
  0 <= a -> t0 == a ^ e -> ~ (t0 * a) * (t0 * a) == a -> t0 * t0 * a == - 1.
Proof.
  intros Ha Ht Hns.
  assert (Ha0 : ~ a == 0).
  { intro Z0. apply Hns. rewrite Z0. apply eq_eqm. ring. }
  set (w := t0 * t0 * a).
  assert (Hww : w * w == 1).
  { unfold w. replace (t0 * t0 * a * (t0 * t0 * a)) with (t0 * t0 * t0 * t0 * a * a) by ring.
    rewrite Ht.
    replace (a ^ e * a ^ e * a ^ e * a ^ e * a * a) with (a ^ (p - 1)).
    - unfold eqm. rewrite (fermat_unit p Hp1 Hpr a Ha).
      + symmetry. apply Z.mod_small. lia.
      + rewrite <- eqm0_iff. exact Ha0.
    - replace (p - 1) with (e + e + e + e + 1 + 1) by lia.
      pose proof e_nonneg. rewrite !Z.pow_add_r by lia. rewrite Z.pow_1_r. ring. }
  destruct (eqm_sq_one w Hww) as [Q|Q]; [|exact Q].
  exfalso. apply Hns. replace (t0 * a * (t0 * a)) with (w * a) by (unfold w; ring).
  rewrite Q. apply eq_eqm. ring.
Qed.

Lemma mA_eqm : mA == - A.
Proof. apply eqm_sub0. replace (mA - - A) with (mA + A) by ring. apply eqm0_iff. exact HmA. Qed.
Lemma A_nz : ~ A == 0. Proof. rewrite eqm0_iff. exact HA0. Qed.
Lemma c2_sq : c2 * c2 == - (Zc * Zc * Zc).
Proof. apply eqm_sub0. replace (c2 * c2 - - (Zc * Zc * Zc)) with (c2 * c2 + Zc * Zc * Zc) by ring. apply eqm0_iff. exact Hc2. Qed.

Ltac abs_gx1 := match goal with |- context [mid_gx1 ZNum ?p ?prm ?a ?b ?c] =>
  let x := fresh "gx1" in set (x := mid_gx1 ZNum p prm a b c) in *; clearbody x end.
Ltac abs_gxd := match goal with |- context [mid_gxd ZNum ?p ?a ?b] =>
  let x := fresh "gxd" in set (x := mid_gxd ZNum p a b) in *; clearbody x end.
Ltac abs_tv4 := match goal with |- context [mid_tv4 ZNum ?p ?a ?b] =>
  let x := fresh "tv4" in set (x := mid_tv4 ZNum p a b) in *; clearbody x end.
Ltac mid_unfold :=
  cbv beta zeta iota delta [sswu_mid_of recip_sqrt m_x1n m_xd m_gxd m_gx1 m_tv4 m_t0 m_e2 m_y1 fst snd].

(* the denominator: -A tv2, replaced by Z A exactly when tv2 = 0 *)
Lemma mid_xd_cases tv2 : 0 <= tv2 < p ->
  (tv2 = 0 /\ mid_xd ZNum p prm tv2 = ZxA) \/
  (~ tv2 == 0 /\ mid_xd ZNum p prm tv2 == - A * tv2 /\ ~ mid_xd ZNum p prm tv2 == 0).
Proof.
  intro Ht. unfold mid_xd. cbv zeta.
  pose proof (fmul_range mA tv2) as R0.
  pose proof (feqb_eqm (fmul ZNum p mA tv2) 0 R0 ltac:(lia)) as F.
  change (n_of_Z ZNum 0) with 0.
  destruct (feqb ZNum (fmul ZNum p mA tv2) 0) eqn:E.
  - left. assert (Q : fmul ZNum p mA tv2 == 0) by (apply F; reflexivity).
    rewrite fmul_eqm in Q. destruct (eqm_mul_zero _ _ Q) as [Q1|Q1].
    + exfalso. apply A_nz. rewrite mA_eqm in Q1.
      replace A with (- - A) by ring. rewrite Q1. reflexivity.
    + split; [apply eqm0_small; assumption|reflexivity].
  - right. assert (Q : ~ fmul ZNum p mA tv2 == 0).
    { intro Q. apply F in Q. congruence. }
    split; [|split].
    + intro Z0. apply Q. rewrite fmul_eqm, Z0. apply eq_eqm. ring.
    + rewrite fmul_eqm, mA_eqm. reflexivity.
    + exact Q.
Qed.

Section Mid.
Variable tv2 : Z.
Hypothesis Htv2 : 0 <= tv2 < p.
Let m := sswu_mid_of ZNum p prm tv2.

Lemma mid_xd_nz : ~ m_xd m == 0.
Proof.
  unfold m. mid_unfold. destruct (mid_xd_cases tv2 Htv2) as [[_ ->]|[_ [_ Q]]].
  - rewrite eqm0_iff. exact HZxA0.
  - exact Q.
Qed.
Lemma mid_x1n_eqm : m_x1n m == (tv2 + 1) * B.
Proof. unfold m. mid_unfold. unfold mid_x1n. rewrite fmul_eqm, fadd_eqm. reflexivity. Qed.
Lemma mid_gxd_eqm : m_gxd m == m_xd m * m_xd m * m_xd m.
Proof. unfold m. mid_unfold. unfold mid_gxd. rewrite !fmul_eqm. apply eq_eqm. ring. Qed.
Lemma mid_gx1_eqm :
  m_gx1 m == m_x1n m * m_x1n m * m_x1n m + A * m_x1n m * (m_xd m * m_xd m) + B * m_gxd m.
Proof.
  unfold m. mid_unfold. unfold mid_gx1.
  set (xd := mid_xd ZNum p prm tv2). set (x1n := mid_x1n ZNum p prm tv2).
  pose proof (fmul_eqm xd xd) as Hxd2. set (xd2 := fmul ZNum p xd xd) in *. clearbody xd2.
  set (gxd := mid_gxd ZNum p xd xd2). clearbody gxd.
  rewrite !fadd_eqm, !fmul_eqm, !fadd_eqm, !fmul_eqm, Hxd2. apply eq_eqm. ring.
Qed.
Lemma mid_tv4_eqm : m_tv4 m == m_gx1 m * (m_gxd m * m_gxd m * m_gxd m).
Proof. unfold m. mid_unfold. unfold mid_tv4. abs_gx1. abs_gxd. rewrite !fmul_eqm. apply eq_eqm. ring. Qed.
Lemma mid_tv4_range : 0 <= m_tv4 m < p.
Proof. unfold m. mid_unfold. unfold mid_tv4. apply fmul_range. Qed.
Lemma mid_t0_eqm : m_t0 m == m_tv4 m ^ e.
Proof. unfold m. mid_unfold. apply fpow_eqm. Qed.
Lemma mid_y1_eqm : m_y1 m == m_t0 m * (m_gx1 m * m_gxd m).
Proof. unfold m. mid_unfold. abs_tv4. abs_gx1. abs_gxd. rewrite !fmul_eqm. reflexivity. Qed.
Lemma mid_e2_iff : m_e2 m = true <-> (m_t0 m * m_tv4 m) * (m_t0 m * m_tv4 m) == m_tv4 m.
Proof.
  pose proof mid_tv4_range as R. unfold m in *. revert R. mid_unfold. abs_tv4. intro R.
  rewrite feqb_eqm by (try apply fmul_range; exact R).
  rewrite !fmul_eqm. tauto.
Qed.

Lemma mid_gxd_nz : ~ m_gxd m == 0.
Proof.
  rewrite mid_gxd_eqm. intro Q. pose proof mid_xd_nz as N.
  destruct (eqm_mul_zero _ _ Q) as [Q1|Q1]; [|contradiction].
  destruct (eqm_mul_zero _ _ Q1); contradiction.
Qed.

(* y1^2 xd^3 = gx1 * (t0^2 tv4) *)
Lemma mid_y1_sq : m_y1 m * m_y1 m * m_gxd m == m_gx1 m * (m_t0 m * m_t0 m * m_tv4 m).
Proof.
  rewrite mid_y1_eqm. rewrite mid_tv4_eqm. apply eq_eqm.
  generalize (m_t0 m) (m_gx1 m) (m_gxd m). intros. ring.
Qed.

(* "gx1 is a square" branch: (x1n/xd, y1) is on the curve *)
Lemma mid_square_case : m_e2 m = true -> m_y1 m * m_y1 m * m_gxd m == m_gx1 m.
Proof.
  intro E. apply mid_e2_iff in E. rewrite mid_y1_sq.
  destruct (Z.eq_dec (m_tv4 m mod p) 0) as [Z0|NZ].
  - (* tv4 = 0: gx1 = 0 *)
    apply eqm0_iff in Z0. pose proof Z0 as Z1. rewrite mid_tv4_eqm in Z1.
    destruct (eqm_mul_zero _ _ Z1) as [Q|Q].
    + rewrite Q. apply eq_eqm. ring.
    + exfalso. pose proof mid_gxd_nz as N.
      destruct (eqm_mul_zero _ _ Q) as [Q1|Q1]; [|contradiction].
      destruct (eqm_mul_zero _ _ Q1); contradiction.
  - (* tv4 <> 0: t0^2 tv4 = 1 *)
    assert (N : ~ m_tv4 m == 0) by (rewrite eqm0_iff; exact NZ).
    assert (W : m_t0 m * m_t0 m * m_tv4 m == 1).
    { apply (eqm_cancel (m_tv4 m)); [exact N|].
      replace (m_tv4 m * (m_t0 m * m_t0 m * m_tv4 m)) with (m_t0 m * m_tv4 m * (m_t0 m * m_tv4 m)) by ring.
      rewrite E. apply eq_eqm. ring. }
    rewrite W. apply eq_eqm. ring.
Qed.

(* "gx1 is not a square" branch: Euler's criterion gives t0^2 tv4 = -1, and tv2 <> 0 *)
Lemma mid_nonsquare_case : m_e2 m = false ->
  m_t0 m * m_t0 m * m_tv4 m == - 1 /\ ~ tv2 == 0 /\ m_xd m == - A * tv2.
Proof.
  intro E. split; [|].
  - apply recip_sqrt_nonsquare.
    + apply mid_tv4_range.
    + apply mid_t0_eqm.
    + intro Q. apply mid_e2_iff in Q. congruence.
  - destruct (mid_xd_cases tv2 Htv2) as [[Z0 _]|[N [Q _]]].
    + exfalso. unfold m in E. rewrite Z0 in E. rewrite Hexc in E. discriminate.
    + split; [exact N|]. unfold m. mid_unfold. exact Q.
Qed.
End Mid.

(* Jacobian point (X, Y, Z) with Z <> 0 on y^2 = x^3 + a x + b:  Y^2 = X^3 + a X Z^4 + b Z^6 *)
Definition jac_on_curve (a b : Z) (P : @jpt Z) : Prop :=
  (jy P * jy P) mod p =
  (jx P * jx P * jx P + a * jx P * (jz P * jz P * jz P * jz P)
   + b * (jz P * jz P * jz P * jz P * jz P * jz P)) mod p
  /\ jz P mod p <> 0.

(* the two branches, over abstract values *)
Lemma final_square xd x1n gxd gx1 y y' :
  gxd == xd * xd * xd ->
  gx1 == x1n * x1n * x1n + A * x1n * (xd * xd) + B * gxd ->
  y' * y' == y * y ->
  y * y * gxd == gx1 ->
  (y' * gxd) * (y' * gxd) ==
  (x1n * xd) * (x1n * xd) * (x1n * xd) + A * (x1n * xd) * (xd * xd * xd * xd)
  + B * (xd * xd * xd * xd * xd * xd).
Proof.
  intros Hgxd Hgx1 Hy' Hsq.
  transitivity (y' * y' * gxd * gxd); [apply eq_eqm; ring|].
  rewrite Hy', Hsq, Hgx1, Hgxd. apply eq_eqm. ring.
Qed.

Lemma final_nonsquare u uu t tv2 xd x1n gxd gx1 w y1 y2 y' :
  uu == u * u -> t == Zc * (u * u) -> tv2 == t * t + t ->
  gxd == xd * xd * xd ->
  gx1 == x1n * x1n * x1n + A * x1n * (xd * xd) + B * gxd ->
  x1n == (tv2 + 1) * B -> xd == - A * tv2 ->
  y1 * y1 * gxd == gx1 * w -> w == - 1 ->
  y2 == y1 * c2 * uu * u ->
  y' * y' == y2 * y2 ->
  (y' * gxd) * (y' * gxd) ==
  (t * x1n * xd) * (t * x1n * xd) * (t * x1n * xd) + A * (t * x1n * xd) * (xd * xd * xd * xd)
  + B * (xd * xd * xd * xd * xd * xd).
Proof.
  intros Huu Ht Htv Hgxd Hgx1 Hx1n Hxdv Hy1 Hw Hy2 Hy'.
  transitivity (y' * y' * gxd * gxd); [apply eq_eqm; ring|].
  rewrite Hy', Hy2.
  (* y2^2 gxd = c2^2 u^6 (y1^2 gxd) = -Z^3 u^6 gx1 (t0^2 tv4) = t^3 gx1 *)
  transitivity ((c2 * c2) * (uu * uu * (u * u)) * (y1 * y1 * gxd) * gxd); [apply eq_eqm; ring|].
  rewrite Hy1, Hw, c2_sq, Huu.
  transitivity ((Zc * (u * u)) * (Zc * (u * u)) * (Zc * (u * u)) * gx1 * gxd); [apply eq_eqm; ring|].
  rewrite <- Ht. rewrite Hgx1. rewrite Hgxd.
  (* factor xd^3 out of both sides *)
  transitivity ((xd * xd * xd) * (t * t * t * (x1n * x1n * x1n + A * x1n * (xd * xd) + B * (xd * xd * xd)))).
  { apply eq_eqm. ring. }
  transitivity ((xd * xd * xd) * ((t * x1n) * (t * x1n) * (t * x1n) + A * (t * x1n) * (xd * xd) + B * (xd * xd * xd))).
  2: { apply eq_eqm. ring. }
  apply (eqm_p_mul _ _ (reflexivity _)).
  (* polynomial identity of the SWU construction, with xd = -A (t^2 + t), x1n = B (t^2 + t + 1) *)
  rewrite Hxdv, Hx1n, Htv. apply eq_eqm. apply swu_poly_small.
Qed.

Lemma sgn_fix_sq (b : bool) y :
  (if b then fneg ZNum p y else y) * (if b then fneg ZNum p y else y) == y * y.
Proof. destruct b; [rewrite fneg_eqm; apply eq_eqm; ring|reflexivity]. Qed.

Theorem sswu_on_curve_gen u : jac_on_curve A B (sswu ZNum p prm u).
Proof.
  unfold sswu. cbv zeta.
  set (uu := fmul ZNum p u u).
  set (t := fmul ZNum p Zc uu).
  set (tv2 := fadd ZNum p (fmul ZNum p t t) t).
  assert (Htv2 : 0 <= tv2 < p) by apply fadd_range.
  assert (Huu : uu == u * u) by apply fmul_eqm.
  assert (Ht : t == Zc * (u * u)) by (unfold t; rewrite fmul_eqm, Huu; reflexivity).
  assert (Htv : tv2 == t * t + t).
  { unfold tv2. generalize t. intro t'. rewrite fadd_eqm, fmul_eqm. reflexivity. }
  pose proof (mid_xd_nz tv2 Htv2) as Hxd.
  pose proof (mid_gxd_eqm tv2) as Hgxd.
  pose proof (mid_gx1_eqm tv2) as Hgx1.
  pose proof (mid_x1n_eqm tv2) as Hx1n.
  pose proof (mid_square_case tv2 Htv2) as Hsq0.
  pose proof (mid_nonsquare_case tv2 Htv2) as Hns0.
  pose proof (mid_y1_sq tv2) as Hy1.
  set (m := sswu_mid_of ZNum p prm tv2) in *.
  clearbody m. clearbody tv2. clearbody t. clearbody uu.
  unfold jac_on_curve. cbn [jx jy jz]. split; [|rewrite <- eqm0_iff; exact Hxd].
  match goal with |- ?l mod p = ?r mod p => change (l == r) end.
  destruct (m_e2 m).
  - (* gx1 is a square *)
    rewrite !fmul_eqm.
    apply (final_square (m_xd m) (m_x1n m) (m_gxd m) (m_gx1 m) (m_y1 m)); auto.
    apply sgn_fix_sq.
  - (* gx1 is not a square: x2 = Z u^2 x1, y2 = y1 sqrt(-Z^3) u^3 *)
    destruct (Hns0 eq_refl) as [Hw [Hnz Hxdv]].
    set (y2 := fmul ZNum p (fmul ZNum p (fmul ZNum p (m_y1 m) c2) uu) u).
    assert (Hy2 : y2 == m_y1 m * c2 * uu * u) by (unfold y2; rewrite !fmul_eqm; reflexivity).
    clearbody y2.
    rewrite !fmul_eqm.
    apply (final_nonsquare u uu t tv2 (m_xd m) (m_x1n m) (m_gxd m) (m_gx1 m)
             (m_t0 m * m_t0 m * m_tv4 m) (m_y1 m) y2); auto.
    apply sgn_fix_sq.
Qed.
End SswuOnCurve.

(* ---- the concrete parameters of blst ---- *)
Lemma iso_exceptional_is_square : m_e2 (sswu_mid_of ZNum pZ (iso_params ZNum) 0) = true.
Proof. vm_compute. reflexivity. Qed.

(* For a prime modulus, map_to_isogenous_E1 returns for EVERY field element u a finite Jacobian
   point (Z <> 0) of E1': y^2 = x^3 + A' x + B'. *)
Theorem sswu_on_E1prime :
  primeZ pZ -> forall u, jac_on_curve pZ iso_Aprime iso_Bprime (sswu ZNum pZ (iso_params ZNum) u).
Proof.
  intros Hpr u.
  apply (sswu_on_curve_gen pZ Hpr (iso_params ZNum)).
  - vm_compute. discriminate.
  - exact iso_minus_A_ok.
  - vm_compute. discriminate.
  - exact iso_c2_ok.
  - exact iso_exp_is_p_minus_3_div_4.
  - exact iso_exceptional_is_square.
Qed.
Check sswu_on_curve_gen.
Print Assumptions sswu_on_E1prime.
