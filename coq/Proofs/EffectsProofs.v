(* C19: the effect checker accepts the regenerated skeletons (by evaluation), and
   operations that write nothing shared commute under every interleaving. *)
From Coq Require Import List String Bool Arith Lia.
From V Require Import Model.Skel Model.Effects Generated.EffectSkel Generated.CProtos.
Import ListNotations.
Open Scope list_scope.

Lemma listed_ops_check_true : listed_ops_check = true.
Proof. vm_compute. reflexivity. Qed.

Lemma kmac_mutators_on_clone_true : kmac_mutators_on_clone = true.
Proof. vm_compute. reflexivity. Qed.

(* the only non-const C parameters that receive a pointer derived from a parameter are the
   out-buffers of the two serialization helpers (their callers pass fresh buffers: that is
   part of listed_ops_check) *)
Lemma nonconst_sites :
  nonconst_shared_sites = [("writeScalar", "Fr_write_bytes", 0%nat); ("writePointE2", "E2_write_bytes", 0%nat)]%string.
Proof. vm_compute. reflexivity. Qed.

Lemma sset_nth_eq {A} i (x : A) l t : nth_error l i = Some t -> nth_error (sset_nth i x l) i = Some x.
Proof. revert i. induction l as [|y l IH]; intros [|i]; cbn; try discriminate; auto. Qed.

Lemma sset_nth_neq {A} i j (x : A) l : i <> j -> nth_error (sset_nth i x l) j = nth_error l j.
Proof. revert i j. induction l as [|y l IH]; intros [|i] [|j] N; cbn; auto; congruence. Qed.

Section RW.
  Variables V L : Type.
  Variable rd : string -> V -> L -> L.
  Variable wr : string -> L -> V.

  Notation sact := Effects.sact.
  Notation seff := (seff V L rd wr).
  Notation sstep := (sstep V L rd wr).
  Notation sreach := (sreach V L rd wr).
  Notation run_alone := (run_alone V L rd wr).
  Notation sthread := (sthread L).
  Notation scfg := (scfg V L).

  Definition sinit (m0 : smem V) (progs : list (L * list sact)) : scfg :=
    mkSC V L m0 (map (fun p => mkST L (fst p) (snd p)) progs).

  Lemma run_alone_app m s a b :
    run_alone m s (a ++ b) = run_alone (fst (run_alone m s a)) (snd (run_alone m s a)) b.
  Proof. revert m s. induction a as [|x a IH]; intros m s; cbn; auto. Qed.

  Lemma run_alone_mem m s code : write_free code = true -> fst (run_alone m s code) = m.
  Proof.
    revert m s. induction code as [|a k IH]; intros m s W; cbn; auto.
    cbn in W. apply andb_prop in W as [Wa Wk]. destruct a; cbn in Wa; [|discriminate].
    cbn. apply IH, Wk.
  Qed.

  (* invariant of every reachable configuration *)
  Record sinv (m0 : smem V) (progs : list (L * list sact)) (C : scfg) : Prop := {
    si_mem : sc_mem V L C = m0;
    si_thr : forall i t, nth_error (sc_thr V L C) i = Some t ->
               exists p done, nth_error progs i = Some p /\ snd p = done ++ st_code L t /\
                              st_loc L t = snd (run_alone m0 (fst p) done) /\
                              write_free (snd p) = true
  }.

  Lemma write_free_app a b : write_free (a ++ b) = write_free a && write_free b.
  Proof. unfold write_free. apply forallb_app. Qed.

  Lemma sinit_inv m0 progs :
    Forall (fun p => write_free (snd p) = true) progs -> sinv m0 progs (sinit m0 progs).
  Proof.
    intro F. constructor; cbn; auto. intros i t N. rewrite nth_error_map in N.
    destruct (nth_error progs i) as [p|] eqn:E; [|discriminate]. inversion N; subst. cbn.
    exists p, []. repeat split; auto. rewrite Forall_forall in F. apply F. eapply nth_error_In; eauto.
  Qed.

  Lemma sstep_inv m0 progs C C' : sinv m0 progs C -> sstep C C' -> sinv m0 progs C'.
  Proof.
    intros [M T] S. destruct S as [C i t a k N Cd].
    destruct (T i t N) as (p & done & Np & Sp & Lc & W). rewrite Cd in Sp.
    assert (W2 := W). rewrite Sp, write_free_app in W2. apply andb_prop in W2 as [WD WC].
    cbn in WC. apply andb_prop in WC as [Wa Wk]. destruct a as [l|l]; cbn in Wa; [|discriminate].
    constructor; cbn; auto.
    intros j u Nj. destruct (Nat.eq_dec i j) as [E|Ne].
    - subst j. rewrite (sset_nth_eq _ _ _ _ N) in Nj. inversion Nj; subst u. cbn.
      exists p, (done ++ [SRd l]). repeat split; auto.
      + rewrite <- app_assoc. exact Sp.
      + rewrite run_alone_app. cbn. rewrite <- Lc.
        rewrite (run_alone_mem m0 (fst p) done WD), M. reflexivity.
    - rewrite (sset_nth_neq _ _ _ _ Ne) in Nj. apply T, Nj.
  Qed.

  Lemma sreach_inv m0 progs C C' : sinv m0 progs C -> sreach C C' -> sinv m0 progs C'.
  Proof.
    intros I R. induction R as [C|C C1 C2 R IH S]; [exact I|]. eapply sstep_inv; [apply IH, I | exact S].
  Qed.

  (* In any interleaving of operations that write nothing shared:
     - the shared memory is never modified,
     - every thread's private state is the one it reaches running ALONE on the initial memory
       over the part of its program executed so far; in particular a finished operation has
       exactly the result it has when run alone,
     - no two enabled accesses of different threads conflict. *)
  Theorem commute m0 progs C :
    Forall (fun p => write_free (snd p) = true) progs ->
    sreach (sinit m0 progs) C ->
    sc_mem V L C = m0 /\
    (forall i t, nth_error (sc_thr V L C) i = Some t ->
       exists p done, nth_error progs i = Some p /\ snd p = done ++ st_code L t /\
                      st_loc L t = snd (run_alone m0 (fst p) done)) /\
    (forall i t, nth_error (sc_thr V L C) i = Some t -> st_code L t = [] ->
       exists p, nth_error progs i = Some p /\ st_loc L t = snd (run_alone m0 (fst p) (snd p))) /\
    (forall i j ti tj a b ka kb,
       nth_error (sc_thr V L C) i = Some ti -> nth_error (sc_thr V L C) j = Some tj -> i <> j ->
       st_code L ti = a :: ka -> st_code L tj = b :: kb -> conflict a b = false).
  Proof.
    intros F R. pose proof (sreach_inv m0 progs _ _ (sinit_inv m0 progs F) R) as [M T].
    split; [exact M|]. split; [|split].
    - intros i t N. destruct (T i t N) as (p & done & Np & Sp & Lc & _). exists p, done. auto.
    - intros i t N E. destruct (T i t N) as (p & done & Np & Sp & Lc & _).
      exists p. split; auto. rewrite E, app_nil_r in Sp. rewrite Sp. exact Lc.
    - intros i j ti tj a b ka kb Ni Nj _ Ca Cb.
      destruct (T i ti Ni) as (p & d1 & _ & Sp & _ & W). destruct (T j tj Nj) as (q & d2 & _ & Sq & _ & W').
      rewrite Sp, write_free_app, Ca in W. rewrite Sq, write_free_app, Cb in W'.
      apply andb_prop in W as [_ W]. apply andb_prop in W' as [_ W']. cbn in W, W'.
      apply andb_prop in W as [Wa _]. apply andb_prop in W' as [Wb _].
      unfold conflict. destruct a, b; cbn in *; try discriminate. apply andb_false_r.
  Qed.
End RW.
