(* C15, part 2: stale buffer bytes never influence any helper, and UintN is exactly
   uniform over the tapes: an explicit involution on chunk sequences exchanges the
   events "returns v" and "returns v'", hence equal counts for every fuel. *)
From Coq Require Import ZArith NArith List Bool Lia ZifyN ZifyNat Permutation.
From V Require Import Lib.ListX Model.Rand Spec.RandSpec Proofs.RandUintN.
Import ListNotations.
Open Scope N_scope.

(* ---------- states that differ only in the (8-byte) buffer ---------- *)

Definition same_tape (s1 s2 : prg) : Prop :=
  tape s1 = tape s2 /\ length (ubuf s1) = 8%nat /\ length (ubuf s2) = 8%nat.

Definition res_rel {A} (r1 r2 : res A) : Prop :=
  match r1, r2 with
  | Ok a s1, Ok b s2 => a = b /\ same_tape s1 s2
  | Err e, Err e' => e = e'
  | Panic, Panic => True
  | OutOfTape, OutOfTape => True
  | OutOfFuel, OutOfFuel => True
  | _, _ => False
  end.

Lemma uintn_fuel_stale fuel n s1 s2 :
  n < w64 -> same_tape s1 s2 -> res_rel (uintn_fuel fuel n s1) (uintn_fuel fuel n s2).
Proof.
  intros Hw [Ht [H1 H2]]. destruct (N.eq_dec n 0) as [->|Hn]; [cbn; exact I|].
  destruct (uintn_fuel_refines fuel n s1) as [Hf1 Hb1]; [lia|assumption|assumption|].
  destruct (uintn_fuel_refines fuel n s2) as [Hf2 Hb2]; [lia|assumption|assumption|].
  rewrite Ht in Hf1. rewrite <- Hf2 in Hf1. clear Hf2.
  destruct (uintn_fuel fuel n s1), (uintn_fuel fuel n s2); cbn in *; try discriminate; try exact I.
  - inversion Hf1; subst. repeat split; assumption.
  - inversion Hf1. reflexivity.
Qed.

Lemma uintn_stale n s1 s2 :
  n < w64 -> same_tape s1 s2 -> res_rel (uintn n s1) (uintn n s2).
Proof.
  intros Hw H. unfold uintn. destruct H as [Ht H']. rewrite Ht.
  apply uintn_fuel_stale; [exact Hw|]. split; assumption.
Qed.

Lemma bind_rel {A B} (r1 r2 : res A) (f g : A -> prg -> res B) :
  res_rel r1 r2 -> (forall a s1 s2, same_tape s1 s2 -> res_rel (f a s1) (g a s2)) ->
  res_rel (bind r1 f) (bind r2 g).
Proof.
  intros Hr Hfg. destruct r1, r2; cbn in *; try contradiction; try assumption.
  destruct Hr as [-> Hs]. apply Hfg. exact Hs.
Qed.

Lemma u64_of_int_lt x : u64_of_int x < w64.
Proof.
  unfold u64_of_int. assert (0 <= x mod Z.of_N w64 < Z.of_N w64)%Z by (apply Z.mod_pos_bound; reflexivity).
  lia.
Qed.

Lemma perm_loop_stale cnt : forall i items s1 s2,
  same_tape s1 s2 -> res_rel (perm_loop cnt i items s1) (perm_loop cnt i items s2).
Proof.
  induction cnt as [|cnt IH]; intros i items s1 s2 Hs; cbn [perm_loop].
  - cbn. split; [reflexivity|exact Hs].
  - apply bind_rel; [apply uintn_stale; [apply u64_of_int_lt|exact Hs]|].
    intros j t1 t2 Ht. destruct (nth_error items (N.to_nat j)); [|exact I].
    destruct (set_nth i z items); [|exact I].
    destruct (set_nth (N.to_nat j) (Z.of_nat i) l); [|exact I]. apply IH. exact Ht.
Qed.

Lemma permutation_stale n s1 s2 :
  same_tape s1 s2 -> res_rel (permutation n s1) (permutation n s2).
Proof.
  intro Hs. unfold permutation. destruct (n <? 0)%Z; [reflexivity|]. apply perm_loop_stale. exact Hs.
Qed.

Lemma subpermutation_stale n m s1 s2 :
  same_tape s1 s2 -> res_rel (subpermutation n m s1) (subpermutation n m s2).
Proof.
  intro Hs. unfold subpermutation. destruct (m <? 0)%Z; [reflexivity|]. destruct (n <? m)%Z; [reflexivity|].
  pose proof (permutation_stale n s1 s2 Hs) as H.
  destruct (permutation n s1), (permutation n s2); cbn in H; try contradiction; try exact I.
  - destruct H as [-> H]. destruct (Nat.leb (Z.to_nat m) (length a0)); [|exact I]. cbn. split; [reflexivity|exact H].
  - destruct (m =? 0)%Z; [|exact I]. cbn. split; [reflexivity|exact Hs].
Qed.

Lemma samples_loop_stale cnt : forall n i s1 s2,
  same_tape s1 s2 -> res_rel (samples_loop cnt n i s1) (samples_loop cnt n i s2).
Proof.
  induction cnt as [|cnt IH]; intros n i s1 s2 Hs; cbn [samples_loop].
  - cbn. split; [reflexivity|exact Hs].
  - apply bind_rel; [apply uintn_stale; [apply u64_of_int_lt|exact Hs]|].
    intros j t1 t2 Ht. apply bind_rel; [apply IH; exact Ht|].
    intros sw u1 u2 Hu. cbn. split; [reflexivity|exact Hu].
Qed.

Lemma samples_stale n m s1 s2 :
  same_tape s1 s2 -> res_rel (samples n m s1) (samples n m s2).
Proof.
  intro Hs. unfold samples. destruct (m <? 0)%Z; [reflexivity|]. destruct (n <? m)%Z; [reflexivity|].
  apply samples_loop_stale. exact Hs.
Qed.

Lemma shuffle_stale n s1 s2 :
  same_tape s1 s2 -> res_rel (shuffle n s1) (shuffle n s2).
Proof.
  intro Hs. unfold shuffle. destruct (n <? 0)%Z; [reflexivity|]. apply samples_stale. exact Hs.
Qed.

(* ---------- chunk sequences as tapes ---------- *)

Lemma le_bytes_length k c : length (le_bytes k c) = k.
Proof. revert c. induction k as [|k IH]; intro c; cbn; [reflexivity|rewrite IH; reflexivity]. Qed.

Lemma le_num_le_bytes k c : le_num (le_bytes k c) = c mod 256 ^ N.of_nat k.
Proof.
  revert c. induction k as [|k IH]; intro c.
  - cbn [le_bytes le_num]. change (256 ^ N.of_nat 0) with 1. rewrite N.mod_1_r. reflexivity.
  - cbn [le_bytes le_num]. rewrite IH, Nat2N.inj_succ, N.pow_succ_r'.
    assert (0 < 256 ^ N.of_nat k) by (apply N.neq_0_lt_0, N.pow_nonzero; discriminate).
    rewrite N.mod_mul_r by lia. reflexivity.
Qed.

Lemma le_bytes_byte k c : Forall (fun x => x < 256) (le_bytes k c).
Proof.
  revert c. induction k as [|k IH]; intro c; cbn; constructor; [apply N.mod_lt; discriminate|apply IH].
Qed.

Lemma spec_on_chunks n b k cs :
  Forall (fun c => c < 256 ^ N.of_nat k) cs ->
  spec_sample (length cs) n b k (tape_of k cs) =
    match first_accept n b cs with
    | Some (v, i) => SOk v (tape_of k (skipn i cs))
    | None => SFuel
    end.
Proof.
  induction cs as [|c r IH]; intro HF; [reflexivity|].
  inversion HF as [|? ? Hc Hr]; subst.
  cbn [length spec_sample first_accept].
  assert (tape_of k (c :: r) = le_bytes k c ++ tape_of k r) as -> by reflexivity.
  rewrite app_length, le_bytes_length.
  replace (Nat.ltb (k + length (tape_of k r)) k) with false by (symmetry; apply Nat.ltb_ge; lia).
  rewrite firstn_app_exact by apply le_bytes_length.
  rewrite skipn_app_exact by apply le_bytes_length.
  rewrite le_num_le_bytes, N.mod_small by exact Hc.
  destruct (attempt b c <? n); [reflexivity|].
  rewrite IH by exact Hr. destruct (first_accept n b r) as [[v i]|]; reflexivity.
Qed.

(* ---------- the involution exchanging the fibres of v and v' ---------- *)

Definition transp (v v' x : N) : N := if x =? v then v' else if x =? v' then v else x.

Definition retarget (b v v' c : N) : N := transp v v' (c mod 2 ^ b) + 2 ^ b * (c / 2 ^ b).

Lemma transp_invol v v' x : transp v v' (transp v v' x) = x.
Proof.
  unfold transp. destruct (N.eqb_spec x v) as [->|H1].
  - destruct (N.eqb_spec v' v) as [->|H2]; [reflexivity|]. rewrite N.eqb_refl. reflexivity.
  - destruct (N.eqb_spec x v') as [->|H2].
    + rewrite N.eqb_refl. reflexivity.
    + destruct (N.eqb_spec x v); [contradiction|]. destruct (N.eqb_spec x v'); [contradiction|]. reflexivity.
Qed.

Lemma transp_lt v v' x m : v < m -> v' < m -> (transp v v' x < m <-> x < m).
Proof.
  intros Hv Hv'. unfold transp. destruct (N.eqb_spec x v) as [->|H1]; [tauto|].
  destruct (N.eqb_spec x v') as [->|H2]; tauto.
Qed.

Section Retarget.
  Variables b v v' : N.
  Hypothesis Hv : v < 2 ^ b.
  Hypothesis Hv' : v' < 2 ^ b.

  Lemma retarget_mod c : attempt b (retarget b v v' c) = transp v v' (attempt b c).
  Proof.
    unfold attempt, retarget. pose proof (pow2_pos b).
    rewrite (N.mul_comm (2 ^ b)), N.mod_add by lia. apply N.mod_small.
    apply transp_lt; [assumption|assumption|]. apply N.mod_lt. lia.
  Qed.

  Lemma retarget_div c : retarget b v v' c / 2 ^ b = c / 2 ^ b.
  Proof.
    unfold retarget. pose proof (pow2_pos b).
    set (t := transp v v' (c mod 2 ^ b)).
    assert (t < 2 ^ b) as Ht by (apply transp_lt; [assumption|assumption|]; apply N.mod_lt; lia).
    replace (t + 2 ^ b * (c / 2 ^ b)) with (c / 2 ^ b * 2 ^ b + t) by lia.
    rewrite N.div_add_l by lia. rewrite (N.div_small t) by exact Ht. lia.
  Qed.

  Lemma retarget_invol c : retarget b v v' (retarget b v v' c) = c.
  Proof.
    unfold retarget at 1. fold (attempt b (retarget b v v' c)).
    rewrite retarget_mod, retarget_div, transp_invol. unfold attempt.
    pose proof (pow2_pos b). rewrite N.add_comm. symmetry. apply N.div_mod. lia.
  Qed.

  Lemma retarget_bound k8 c : b <= k8 -> c < 2 ^ k8 -> retarget b v v' c < 2 ^ k8.
  Proof.
    intros Hb Hc. pose proof (pow2_pos b).
    assert (2 ^ k8 = 2 ^ b * 2 ^ (k8 - b)) as Hs by (rewrite <- N.pow_add_r; f_equal; lia).
    assert (retarget b v v' c / 2 ^ b < 2 ^ (k8 - b)) as Hq.
    { rewrite retarget_div. apply N.div_lt_upper_bound; [lia|]. rewrite <- Hs. exact Hc. }
    set (x := retarget b v v' c) in *.
    pose proof (N.div_mod x (2 ^ b)) as Hdm. pose proof (N.mod_lt x (2 ^ b)) as Hml.
    rewrite Hs. nia.
  Qed.
End Retarget.

Definition map_result (v v' : N) (o : option (N * nat)) : option (N * nat) :=
  match o with Some (x, i) => Some (transp v v' x, i) | None => None end.

Lemma first_accept_retarget n b v v' cs :
  n <= 2 ^ b -> v < n -> v' < n ->
  first_accept n b (map (retarget b v v') cs) = map_result v v' (first_accept n b cs).
Proof.
  intros Hn Hv Hv'. induction cs as [|c r IH]; [reflexivity|].
  cbn [map first_accept]. rewrite retarget_mod by lia.
  destruct (N.ltb_spec (attempt b c) n) as [Ha|Ha].
  - replace (transp v v' (attempt b c) <? n) with true; [reflexivity|].
    symmetry. apply N.ltb_lt. apply transp_lt; assumption.
  - replace (transp v v' (attempt b c) <? n) with false.
    + rewrite IH. destruct (first_accept n b r) as [[x i]|]; reflexivity.
    + symmetry. apply N.ltb_ge. destruct (N.lt_ge_cases (transp v v' (attempt b c)) n) as [Hlt|]; [|assumption].
      apply transp_lt in Hlt; [lia|assumption|assumption].
Qed.

(* ---------- UintN on a tape made of [fuel] chunks ---------- *)

Definition chunks_ok (k : nat) (cs : list N) : Prop := Forall (fun c => c < 256 ^ N.of_nat k) cs.

(* value returned by the model on the tape made of the chunks cs, fuel = number of chunks *)
Definition uintn_value (n : N) (buf : list N) (cs : list N) : option N :=
  match uintn_fuel (length cs) n (mkPrg (tape_of (nbytes (n - 1)) cs) buf) with
  | Ok v _ => Some v
  | _ => None
  end.

Lemma uintn_value_spec n buf cs :
  0 < n -> n < w64 -> length buf = 8%nat -> chunks_ok (nbytes (n - 1)) cs ->
  uintn_value n buf cs = option_map fst (first_accept n (bits (n - 1)) cs).
Proof.
  intros Hn Hw Hb Hcs. unfold uintn_value.
  destruct (uintn_fuel_refines (length cs) n (mkPrg (tape_of (nbytes (n - 1)) cs) buf)) as [Hf _];
    [assumption|assumption|exact Hb|].
  cbn [tape] in Hf. unfold spec_uintn in Hf. rewrite spec_on_chunks in Hf by exact Hcs.
  destruct (uintn_fuel (length cs) n _); cbn [forget] in Hf;
    destruct (first_accept n (bits (n - 1)) cs) as [[x i]|]; cbn; try discriminate; try reflexivity.
  inversion Hf. reflexivity.
Qed.

Definition retarget_tape (n v v' : N) (cs : list N) : list N := map (retarget (bits (n - 1)) v v') cs.

Lemma retarget_tape_ok n v v' cs :
  0 < n -> v < n -> v' < n -> chunks_ok (nbytes (n - 1)) cs -> chunks_ok (nbytes (n - 1)) (retarget_tape n v v' cs).
Proof.
  intros Hn Hv Hv' H. unfold chunks_ok, retarget_tape in *. rewrite Forall_map.
  eapply Forall_impl; [|exact H]. cbn. intros c Hc. rewrite pow256 in *.
  pose proof (n_le_pow_bits n Hn). apply retarget_bound; [lia|lia|apply bits_le_8_nbytes|exact Hc].
Qed.

Lemma retarget_tape_invol n v v' cs :
  0 < n -> v < n -> v' < n -> retarget_tape n v v' (retarget_tape n v v' cs) = cs.
Proof.
  intros Hn Hv Hv'. unfold retarget_tape. rewrite map_map. pose proof (n_le_pow_bits n Hn).
  induction cs as [|c r IH]; [reflexivity|]. cbn [map]. rewrite IH, retarget_invol by lia. reflexivity.
Qed.

Lemma retarget_tape_length n v v' cs : length (retarget_tape n v v' cs) = length cs.
Proof. apply map_length. Qed.

Lemma uintn_value_retarget n buf v v' cs :
  0 < n -> n < w64 -> length buf = 8%nat -> v < n -> v' < n -> chunks_ok (nbytes (n - 1)) cs ->
  uintn_value n buf (retarget_tape n v v' cs) = option_map (transp v v') (uintn_value n buf cs).
Proof.
  intros Hn Hw Hb Hv Hv' Hcs.
  rewrite !uintn_value_spec by (try assumption; apply retarget_tape_ok; assumption).
  unfold retarget_tape. rewrite first_accept_retarget by (try assumption; apply n_le_pow_bits; exact Hn).
  destruct (first_accept n (bits (n - 1)) cs) as [[x i]|]; reflexivity.
Qed.

Lemma uintn_value_exchange n buf v v' cs :
  0 < n -> n < w64 -> length buf = 8%nat -> v < n -> v' < n -> chunks_ok (nbytes (n - 1)) cs ->
  (uintn_value n buf cs = Some v <-> uintn_value n buf (retarget_tape n v v' cs) = Some v').
Proof.
  intros Hn Hw Hb Hv Hv' Hcs. rewrite uintn_value_retarget by assumption.
  destruct (uintn_value n buf cs) as [x|]; cbn; [|split; discriminate].
  unfold transp. destruct (N.eqb_spec x v) as [->|H1]; [tauto|].
  destruct (N.eqb_spec x v') as [->|H2]; split; intro H; inversion H; congruence.
Qed.

(* ---------- counting over all chunk sequences of a given length ---------- *)

Fixpoint vectors (C : N) (f : nat) : list (list N) :=
  match f with
  | O => [[]]
  | S f' => flat_map (fun c => map (cons c) (vectors C f')) (nrange C)
  end.

Lemma in_nrange C c : In c (nrange C) <-> c < C.
Proof.
  unfold nrange. rewrite in_map_iff. split.
  - intros [x [<- Hx]]. apply in_seq in Hx. lia.
  - intro H. exists (N.to_nat c). split; [lia|]. apply in_seq. lia.
Qed.

Lemma in_vectors C f cs : In cs (vectors C f) <-> length cs = f /\ Forall (fun c => c < C) cs.
Proof.
  revert cs. induction f as [|f IH]; intro cs; cbn [vectors].
  - split.
    + intros [<-|[]]. split; [reflexivity|constructor].
    + intros [H _]. destruct cs; [left; reflexivity|discriminate].
  - rewrite in_flat_map. split.
    + intros [c [Hc Hin]]. apply in_map_iff in Hin. destruct Hin as [r [<- Hr]]. apply IH in Hr.
      destruct Hr as [Hl HF]. split; [cbn; lia|]. constructor; [apply in_nrange; exact Hc|exact HF].
    + intros [Hl HF]. destruct cs as [|c r]; [discriminate|]. inversion HF; subst.
      exists c. split; [apply in_nrange; assumption|]. apply in_map. apply IH. split; [cbn in Hl; lia|assumption].
Qed.

Lemma NoDup_app_intro {A} (l1 l2 : list A) :
  NoDup l1 -> NoDup l2 -> (forall x, In x l1 -> ~ In x l2) -> NoDup (l1 ++ l2).
Proof.
  induction l1 as [|a l1 IH]; intros H1 H2 Hd; [exact H2|]. cbn. inversion H1; subst. constructor.
  - rewrite in_app_iff. intros [H|H]; [contradiction|]. apply (Hd a); [left; reflexivity|exact H].
  - apply IH; [assumption|assumption|]. intros x Hx. apply Hd. right. exact Hx.
Qed.

Lemma NoDup_nrange C : NoDup (nrange C).
Proof.
  unfold nrange. apply FinFun.Injective_map_NoDup; [|apply seq_NoDup]. intros x y H. apply Nat2N.inj. exact H.
Qed.

Lemma NoDup_vectors C f : NoDup (vectors C f).
Proof.
  induction f as [|f IH]; cbn [vectors]; [constructor; [intros []|constructor]|].
  generalize (NoDup_nrange C). generalize (nrange C) as l.
  induction l as [|c l IHl]; intro Hl; [constructor|]. cbn [flat_map]. inversion Hl; subst.
  apply NoDup_app_intro.
  - apply FinFun.Injective_map_NoDup; [|exact IH]. intros x y H. inversion H. reflexivity.
  - apply IHl. assumption.
  - intros x Hx Hx'. apply in_map_iff in Hx. destruct Hx as [r [<- _]].
    apply in_flat_map in Hx'. destruct Hx' as [c' [Hc' Hin]]. apply in_map_iff in Hin.
    destruct Hin as [r' [E _]]. inversion E; subst. contradiction.
Qed.

Lemma filter_length_perm {A} (p : A -> bool) l l' :
  Permutation l l' -> length (filter p l) = length (filter p l').
Proof.
  induction 1 as [|x l l' _ IH|x y l|l l' l'' _ IH1 _ IH2]; cbn.
  - reflexivity.
  - destruct (p x); cbn; rewrite IH; reflexivity.
  - destruct (p x), (p y); reflexivity.
  - congruence.
Qed.

Definition opt_is (o : option N) (v : N) : bool :=
  match o with Some x => x =? v | None => false end.

Lemma opt_is_true o v : opt_is o v = true <-> o = Some v.
Proof.
  destruct o as [x|]; cbn; [|split; discriminate]. rewrite N.eqb_eq. split; [intros ->; reflexivity|intro H; inversion H; reflexivity].
Qed.

(* number of tapes of [fuel] chunks (each of k bytes) on which UintN(n) returns v *)
Definition count_tapes (n : N) (buf : list N) (fuel : nat) (v : N) : nat :=
  length (filter (fun cs => opt_is (uintn_value n buf cs) v)
                 (vectors (256 ^ N.of_nat (nbytes (n - 1))) fuel)).

Lemma count_tapes_uniform n buf fuel v v' :
  0 < n -> n < w64 -> length buf = 8%nat -> v < n -> v' < n ->
  count_tapes n buf fuel v = count_tapes n buf fuel v'.
Proof.
  intros Hn Hw Hb Hv Hv'. unfold count_tapes.
  set (C := 256 ^ N.of_nat (nbytes (n - 1))).
  assert (Permutation (map (retarget_tape n v v') (vectors C fuel)) (vectors C fuel)) as HP.
  { apply NoDup_Permutation.
    - apply FinFun.Injective_map_NoDup; [|apply NoDup_vectors]. intros x y H.
      rewrite <- (retarget_tape_invol n v v' x), <- (retarget_tape_invol n v v' y) by assumption.
      rewrite H. reflexivity.
    - apply NoDup_vectors.
    - intro cs. rewrite in_map_iff, in_vectors. split.
      + intros [x [<- Hx]]. apply in_vectors in Hx. destruct Hx as [Hl HF].
        split; [rewrite retarget_tape_length; exact Hl|]. apply retarget_tape_ok; assumption.
      + intros [Hl HF]. exists (retarget_tape n v v' cs). split; [apply retarget_tape_invol; assumption|].
        apply in_vectors. split; [rewrite retarget_tape_length; exact Hl|]. apply retarget_tape_ok; assumption. }
  symmetry. rewrite <- (filter_length_perm _ _ _ HP). rewrite length_filter_map. f_equal.
  apply filter_ext_in. intros cs Hcs. apply in_vectors in Hcs. destruct Hcs as [_ HF].
  apply eq_true_iff_eq. rewrite !opt_is_true. symmetry. apply uintn_value_exchange; assumption.
Qed.
