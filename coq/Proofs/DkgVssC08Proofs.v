(* C08, plain Feldman VSS: after an invalid verification vector, or a share that does not
   match the vector, End never returns keys - whatever else is called, in whatever order. *)
From Coq Require Import ZArith List Bool Arith Lia.
From V Require Import Model.DkgVss Spec.DkgApiSpec Proofs.DkgTactics Proofs.DkgC10Proofs.
Import ListNotations.
Open Scope Z_scope.

Local Opaque peval fixpoly r.

Section Vss.
Variable cf : cfg.
Variable d : nat.
Hypothesis Hnd : c_my cf <> d.      (* the participant is not the dealer *)

(* a state from which validKey can never become true again, or the share is zero *)
Definition never_keys (v : vinst) : Prop :=
  v_vArecv v = true /\ v_valid v = false /\ (v_y v = None \/ v_xrecv v = true)
  \/ v_xrecv v = true /\ v_vArecv v = true /\ v_x v = 0.

Definition is_keys (res : result) : Prop := exists x Y ys, res = RKeys x Y ys.

Lemma end_keys_zero vA y : ~ is_keys (end_keys cf 0 vA y).
Proof.
  unfold end_keys. intros (x & Y & ys & E). repeat brk_hyp E; try discriminate.
Qed.

Lemma nk_ok : ~ is_keys ROk. Proof. intros (x & Y & ys & E); discriminate. Qed.
Lemma nk_state : ~ is_keys RStateErr. Proof. intros (x & Y & ys & E); discriminate. Qed.
Lemma nk_inv : ~ is_keys RInvalidInput. Proof. intros (x & Y & ys & E); discriminate. Qed.
Lemma nk_fail : ~ is_keys RFailure. Proof. intros (x & Y & ys & E); discriminate. Qed.
Lemma nk_panic : ~ is_keys RPanic. Proof. intros (x & Y & ys & E); discriminate. Qed.
Lemma nk_bool b : ~ is_keys (RBool b). Proof. intros (x & Y & ys & E); discriminate. Qed.
Local Hint Resolve nk_ok nk_state nk_inv nk_fail nk_panic nk_bool : core.

Ltac nk := split; [try assumption; auto|auto].

Lemma never_keys_step s c :
  never_keys (vs_v s) ->
  let '(s', res, _) := vss_step cf d s c in never_keys (vs_v s') /\ ~ is_keys res.
Proof.
  intros HN. destruct s as [run v]. cbn [vs_v] in HN.
  destruct c as [sd| | | |o m|o m|j]; cbn [vss_step vs_run vs_v].
  - unfold vss_start. destruct run; cbn; [nk|].
    rewrite (proj2 (Nat.eqb_neq d (c_my cf))) by congruence. cbn. nk.
  - cbn. nk.
  - unfold vss_end. destruct run; cbn; [|nk].
    destruct (v_valid v) eqn:Ev; cbn; [|nk].
    split; [exact HN|]. destruct HN as [(A & B & C)|(A & B & C)]; [congruence|].
    rewrite C. apply end_keys_zero.
  - cbn. nk.
  - unfold vss_broadcast. destruct run; cbn; [|nk].
    destruct (in_range cf o); cbn; [|nk].
    destruct (Nat.eqb (c_my cf) (Z.to_nat o)); cbn; [nk|].
    destruct m; cbn; try (nk; fail).
    unfold vss_receive_vector. destruct (Nat.eqb (Z.to_nat o) d); cbn; [|nk].
    assert (Hr : v_vArecv v = true) by (destruct HN as [(A & _)|(_ & A & _)]; exact A).
    rewrite Hr. cbn. nk.
  - unfold vss_private. destruct run; cbn; [|nk].
    destruct (in_range cf o); cbn; [|nk].
    destruct (Nat.eqb (c_my cf) (Z.to_nat o)); cbn; [nk|].
    unfold vss_receive_share. destruct (Nat.eqb (Z.to_nat o) d); cbn; [|nk].
    destruct (v_xrecv v) eqn:Ex; cbn; [nk|].
    destruct HN as [(A & B & [C|C])|(A & _)]; try congruence.
    (* the vector was rejected: s.y is nil, the share is never checked *)
    destruct m as [|sb|vb|cb|ab|tg]; cbn; try (split; [left; cbn; auto|auto]; fail).
    destruct sb as [|z]; cbn; [split; [left; cbn; auto|auto]|].
    destruct (read_star z (v_x v)) as [ok x']. cbn. destruct ok; cbn.
    + rewrite A, C. cbn. split; [left; cbn; auto|auto].
    + split; [left; cbn; auto|auto].
  - unfold vss_force. destruct run; cbn; [|nk].
    destruct (in_range cf j); cbn; [|nk].
    destruct (Nat.eqb (Z.to_nat j) d); cbn; [|nk]. split; [|auto].
    destruct HN as [(A & B & C)|(A & B & C)]; [left|right]; cbn; auto.
Qed.

Lemma never_keys_run : forall cs s, never_keys (vs_v s) ->
  forall o, In o (run (vss_step cf d) s cs) -> ~ is_keys (fst o).
Proof.
  induction cs as [|c cs IH]; intros s HN o Hin; cbn [run] in Hin; [contradiction|].
  pose proof (never_keys_step s c HN) as H.
  destruct (vss_step cf d s c) as [[s' res] ev]. destruct H as [HN' Hk].
  destruct Hin as [<-|Hin]; [exact Hk|].
  destruct res; try (eapply IH; eauto); contradiction.
Qed.

Hypothesis Hd : (d < c_n cf)%nat.

Lemma in_range_d : in_range cf (Z.of_nat d) = true.
Proof. unfold in_range. apply andb_true_intro. split; [apply Z.leb_le|apply Z.ltb_lt]; lia. Qed.

(* --- invalid vector: every kind, share before or after, anything in between --- *)
Definition invalid_vec (vb : vbody) : Prop := match vb with VOk _ => False | _ => True end.

(* [s]: any state in which the dealer's vector has not been processed yet *)
Lemma invalid_vector_never_keys s vb post :
  vs_run s = true -> v_vArecv (vs_v s) = false -> v_valid (vs_v s) = false ->
  (v_xrecv (vs_v s) = false -> v_y (vs_v s) = None) ->
  invalid_vec vb ->
  forall o, In o (run (vss_step cf d) s (CBroadcast (Z.of_nat d) (MVec vb) :: post)) -> ~ is_keys (fst o).
Proof.
  intros Hrun Hr Hv Hy Hinv o Hin. destruct s as [run v]. cbn [vs_run vs_v] in *. subst run.
  cbn [run vss_step vs_run vs_v] in Hin. unfold vss_broadcast in Hin. cbn [negb] in Hin.
  rewrite in_range_d in Hin. cbn [negb] in Hin. rewrite Nat2Z.id in Hin.
  rewrite (proj2 (Nat.eqb_neq (c_my cf) d)) in Hin by exact Hnd.
  unfold vss_receive_vector in Hin. rewrite Nat.eqb_refl, Hr in Hin. cbn [negb] in Hin.
  destruct vb as [|k|l]; [| |contradiction]; cbn in Hin.
  - destruct Hin as [<-|Hin]; [auto|].
    eapply never_keys_run; [|exact Hin]. cbn. left. cbn. repeat split; auto.
    destruct (v_xrecv v); [right; reflexivity|left; apply Hy; reflexivity].
  - destruct Hin as [<-|Hin]; [auto|].
    eapply never_keys_run; [|exact Hin]. cbn. left. cbn. repeat split; auto.
    destruct (v_xrecv v); [right; reflexivity|left; apply Hy; reflexivity].
Qed.

Hypothesis Hmy : (c_my cf < c_n cf)%nat.

Lemma pubkeys_nth a : nth_error (pubkeys cf a) (c_my cf) = Some (peval a (Z.of_nat (c_my cf) + 1)).
Proof.
  unfold pubkeys. rewrite nth_error_map, nth_error_nth' with (d := 0%nat) by (rewrite seq_length; exact Hmy).
  rewrite seq_nth by exact Hmy. reflexivity.
Qed.

(* validKey is only ever true when the stored share is the discrete log of y[myIndex] *)
Definition valid_matches (v : vinst) : Prop :=
  v_valid v = true -> exists ys, v_y v = Some ys /\ nth_error ys (c_my cf) = Some (v_x v).

Lemma valid_matches_step s c : v_wf cf d (vs_v s) -> valid_matches (vs_v s) ->
  valid_matches (vs_v (fst (fst (vss_step cf d s c)))).
Proof.
  intros (W1 & W3 & W4 & W5) HV. destruct s as [run v]. cbn [vs_v] in *.
  assert (Hnv : v_vArecv v = false -> v_valid v = false).
  { intro E. destruct (v_valid v) eqn:Ev; [|reflexivity]. destruct (W3 eq_refl). congruence. }
  destruct c as [sd| | | |o m|o m|j]; cbn [vss_step vs_run vs_v].
  - unfold vss_start. destruct run; cbn; [exact HV|].
    rewrite (proj2 (Nat.eqb_neq d (c_my cf))) by congruence. cbn. exact HV.
  - exact HV.
  - unfold vss_end. destruct run; cbn; [|exact HV]. destruct (v_valid v); cbn; exact HV.
  - exact HV.
  - unfold vss_broadcast. destruct run; cbn; [|exact HV].
    destruct (in_range cf o); cbn; [|exact HV].
    destruct (Nat.eqb (c_my cf) (Z.to_nat o)); cbn; [exact HV|].
    destruct m; cbn; try exact HV.
    unfold vss_receive_vector. destruct (Nat.eqb (Z.to_nat o) d); cbn; [|exact HV].
    destruct (v_vArecv v) eqn:Er; cbn; [exact HV|].
    destruct v0 as [|k|l]; cbn; try (intro; discriminate).
    destruct (v_xrecv v); cbn.
    + unfold verify_share. cbn. rewrite pubkeys_nth. cbn.
      intro Hv. cbn in Hv. apply Z.eqb_eq in Hv. eexists. split; [reflexivity|]. cbn. rewrite pubkeys_nth. f_equal. symmetry. exact Hv.
    + intro Hv. cbn in Hv. rewrite (Hnv eq_refl) in Hv. discriminate.
  - unfold vss_private. destruct run; cbn; [|exact HV].
    destruct (in_range cf o); cbn; [|exact HV].
    destruct (Nat.eqb (c_my cf) (Z.to_nat o)); cbn; [exact HV|].
    unfold vss_receive_share. destruct (Nat.eqb (Z.to_nat o) d); cbn; [|exact HV].
    destruct (v_xrecv v); cbn; [exact HV|].
    destruct m as [|sb|vb|cb|ab|tg]; cbn; try (intro; discriminate).
    destruct sb as [|z]; cbn; [intro; discriminate|].
    destruct (read_star z (v_x v)) as [ok x']. cbn. destruct ok; cbn; [|intro; discriminate].
    destruct (v_vArecv v) eqn:Er; cbn.
    + destruct (v_y v) as [ys|] eqn:Ey; cbn.
      * unfold verify_share. cbn. rewrite Ey. destruct (nth_error ys (c_my cf)) eqn:En; cbn.
        -- intro Hv. cbn in Hv. apply Z.eqb_eq in Hv. exists ys. split; [exact Ey|]. cbn. rewrite En. f_equal. symmetry. exact Hv.
        -- exact HV.
      * intro Hv. cbn in Hv. destruct (W3 Hv) as [_ [ys E]]. congruence.
    + intro Hv. cbn in Hv. rewrite (Hnv eq_refl) in Hv. discriminate.
  - unfold vss_force. destruct run; cbn; [|exact HV].
    destruct (in_range cf j); cbn; [|exact HV].
    destruct (Nat.eqb (Z.to_nat j) d); cbn; [intro; discriminate|exact HV].
Qed.

Lemma reachable_inv : forall cs s, v_wf cf d (vs_v s) -> valid_matches (vs_v s) ->
  v_wf cf d (vs_v (final (vss_step cf d) s cs)) /\ valid_matches (vs_v (final (vss_step cf d) s cs)).
Proof.
  induction cs as [|c cs IH]; intros s W V; [auto|].
  cbn [final]. pose proof (valid_matches_step s c W V) as V'.
  pose proof (vss_step_sim cf d Hmy s c W) as HS.
  destruct (vss_step cf d s c) as [[s' res] ev]. cbn [fst] in V'.
  destruct (aut_step PVss cf (Nat.eqb (c_my cf) d) (vabs s) c) as [A' k]. destruct HS as (W' & _ & Hc).
  destruct res; try (apply IH; assumption); discriminate Hc.
Qed.

(* both the dealer's first share and first vector have been processed (in any order, with
   anything in between) and they do not match: never keys afterwards *)
Definition mismatch (v : vinst) : Prop :=
  match v_y v with
  | Some ys => nth_error ys (c_my cf) <> Some (v_x v)
  | None => True
  end.

Lemma mismatched_share_never_keys pre post :
  let s := final (vss_step cf d) vss_init pre in
  v_xrecv (vs_v s) = true -> v_vArecv (vs_v s) = true -> mismatch (vs_v s) ->
  forall o, In o (run (vss_step cf d) s post) -> ~ is_keys (fst o).
Proof.
  intros s Hx Hr Hm. apply never_keys_run.
  destruct (reachable_inv pre vss_init) as [W V].
  { apply (vss_init_inv cf d). }
  { intro Hv. discriminate Hv. }
  fold s in W, V. left. split; [exact Hr|]. split; [|right; exact Hx].
  destruct (v_valid (vs_v s)) eqn:Ev; [|reflexivity]. exfalso.
  destruct (V Ev) as (ys & Ey & En). unfold mismatch in Hm. rewrite Ey in Hm. contradiction.
Qed.

Lemma invalid_vector_never_keys_reachable pre vb post :
  let s := final (vss_step cf d) vss_init pre in
  vs_run s = true -> v_vArecv (vs_v s) = false -> invalid_vec vb ->
  forall o, In o (run (vss_step cf d) s (CBroadcast (Z.of_nat d) (MVec vb) :: post)) -> ~ is_keys (fst o).
Proof.
  intros s Hrun Hr Hinv.
  destruct (reachable_inv pre vss_init) as [(W1 & W3 & W4 & W5) V].
  { apply (vss_init_inv cf d). }
  { intro Hv. discriminate Hv. }
  fold s in W1, W3, W4, W5, V.
  apply invalid_vector_never_keys; auto.
  destruct (v_valid (vs_v s)) eqn:Ev; [|reflexivity]. destruct (W3 eq_refl). congruence.
Qed.

(* the two orders, message level: [s] is any reachable state in which neither the vector nor
   the share of the dealer has been processed *)
Definition share_mismatch (l : list Z) (m : msg) : Prop :=
  match m with
  | MShare (SVal z) => z <> peval (fixpoly (c_t cf) l) (Z.of_nat (c_my cf) + 1) \/ z = 0 \/ r <= z
  | _ => True
  end.

Lemma never_keys_after_both v :
  v_vArecv v = true -> v_xrecv v = true -> v_valid v = false -> never_keys v.
Proof. intros. left. auto. Qed.

Lemma step2_never_keys s c1 c2 post :
  (let '(s1, r1, _) := vss_step cf d s c1 in
   let '(s2, r2, _) := vss_step cf d s1 c2 in
   ~ is_keys r1 /\ ~ is_keys r2 /\ never_keys (vs_v s2)) ->
  forall o, In o (run (vss_step cf d) s (c1 :: c2 :: post)) -> ~ is_keys (fst o).
Proof.
  intros H o Hin. cbn [run] in Hin.
  destruct (vss_step cf d s c1) as [[s1 r1] e1]. destruct (vss_step cf d s1 c2) as [[s2 r2] e2].
  destruct H as (K1 & K2 & HN).
  destruct Hin as [<-|Hin]; [exact K1|].
  destruct r1; try contradiction; cbn [run] in Hin;
    try (destruct Hin as [<-|Hin]; [exact K2|]; destruct r2; try contradiction; eapply never_keys_run; eauto).
Qed.

Lemma read_star_ok z old : 0 < z < r -> read_star z old = (true, z).
Proof.
  intros [A B]. unfold read_star. apply Z.ltb_lt in A. apply Z.ltb_lt in B. rewrite A, B. reflexivity.
Qed.

Lemma read_star_fst z old : fst (read_star z old) = (0 <? z) && (z <? r).
Proof. unfold read_star. destruct ((0 <? z) && (z <? r)); [reflexivity|]. destruct (z =? 0); reflexivity. Qed.

Lemma read_star_bad z old : z <= 0 \/ r <= z -> fst (read_star z old) = false.
Proof.
  intros H. rewrite read_star_fst. destruct (0 <? z) eqn:A; [|reflexivity].
  destruct (z <? r) eqn:B; [|reflexivity]. apply Z.ltb_lt in A. apply Z.ltb_lt in B. lia.
Qed.

Lemma vector_then_share_never_keys s l m post :
  vs_run s = true -> v_vArecv (vs_v s) = false -> v_xrecv (vs_v s) = false -> v_valid (vs_v s) = false ->
  share_mismatch l m ->
  forall o, In o (run (vss_step cf d) s
                    (CBroadcast (Z.of_nat d) (MVec (VOk l)) :: CPrivate (Z.of_nat d) m :: post)) -> ~ is_keys (fst o).
Proof.
  intros Hrun Hr Hx Hv Hm. apply step2_never_keys.
  destruct s as [run v]. cbn [vs_run vs_v] in *. subst run.
  cbn [vss_step vs_run vs_v]. unfold vss_broadcast, vss_private. cbn [negb].
  rewrite in_range_d. cbn [negb]. rewrite Nat2Z.id.
  rewrite (proj2 (Nat.eqb_neq (c_my cf) d)) by exact Hnd.
  unfold vss_receive_vector. rewrite Nat.eqb_refl, Hr. cbn [negb].
  cbn [v_xrecv set_vArecv set_y set_vA]. rewrite Hx. cbn [lift pack vs_run vs_v].
  cbn [negb].
  unfold vss_receive_share. rewrite Nat.eqb_refl. cbn [negb v_xrecv set_vArecv set_y set_vA]. rewrite Hx.
  destruct m as [|sb|vb|cb|ab|tg]; cbn; try (split; [auto|split; [auto|apply never_keys_after_both; cbn; auto]]).
  destruct sb as [|z]; cbn; [split; [auto|split; [auto|apply never_keys_after_both; cbn; auto]]|].
  cbn in Hm.
  destruct (Z_le_gt_dec z 0) as [Ez|Ez]; [|destruct (Z_le_gt_dec r z) as [Er|Er]].
  - pose proof (read_star_bad z (v_x v) (or_introl Ez)) as Eb.
    destruct (read_star z (v_x v)) as [ok x']. cbn in Eb. subst ok. cbn.
    split; [auto|split; [auto|apply never_keys_after_both; cbn; auto]].
  - pose proof (read_star_bad z (v_x v) (or_intror Er)) as Eb.
    destruct (read_star z (v_x v)) as [ok x']. cbn in Eb. subst ok. cbn.
    split; [auto|split; [auto|apply never_keys_after_both; cbn; auto]].
  - rewrite read_star_ok by lia. cbn. unfold verify_share. cbn. rewrite pubkeys_nth. cbn.
    destruct Hm as [Hm|[Hm|Hm]]; try lia.
    destruct (z =? peval (fixpoly (c_t cf) l) (Z.of_nat (c_my cf) + 1)) eqn:E; [apply Z.eqb_eq in E; contradiction|].
    cbn. split; [auto|split; [auto|apply never_keys_after_both; cbn; auto]].
Qed.

Lemma read_star_bad_val z : z <= 0 \/ r <= z -> snd (read_star z 0) = 0.
Proof.
  intro H. pose proof (read_star_bad z 0 H) as E. rewrite read_star_fst in E.
  unfold read_star. rewrite E. destruct (z =? 0); reflexivity.
Qed.

Lemma share_then_vector_never_keys s l m post :
  vs_run s = true -> v_vArecv (vs_v s) = false -> v_xrecv (vs_v s) = false -> v_valid (vs_v s) = false ->
  v_x (vs_v s) = 0 -> v_y (vs_v s) = None ->
  share_mismatch l m ->
  forall o, In o (run (vss_step cf d) s
                    (CPrivate (Z.of_nat d) m :: CBroadcast (Z.of_nat d) (MVec (VOk l)) :: post)) -> ~ is_keys (fst o).
Proof.
  intros Hrun Hr Hx Hv Hx0 Hy Hm. apply step2_never_keys.
  destruct s as [run v]. cbn [vs_run vs_v] in *. subst run.
  cbn [vss_step vs_run vs_v]. unfold vss_broadcast, vss_private. cbn [negb].
  rewrite in_range_d. cbn [negb]. rewrite Nat2Z.id.
  rewrite (proj2 (Nat.eqb_neq (c_my cf) d)) by exact Hnd.
  unfold vss_receive_share. rewrite Nat.eqb_refl, Hx. cbn [negb].
  assert (Hbad : forall v1, v_vArecv v1 = false -> v_xrecv v1 = true -> v_x v1 = 0 ->
     let '(s2, r2, _) := pack (lift true v1 (vss_receive_vector cf d d (VOk l) v1)) in
     ~ is_keys r2 /\ never_keys (vs_v s2)).
  { intros v1 A B C. unfold vss_receive_vector. rewrite Nat.eqb_refl, A. cbn [negb].
    cbn [v_xrecv set_vArecv set_y set_vA]. rewrite B. unfold verify_share. cbn. rewrite pubkeys_nth. cbn.
    split; [auto|]. right. cbn. auto. }
  assert (Hbad' : forall v1, v_vArecv v1 = false -> v_xrecv v1 = true -> v_x v1 = 0 ->
     let '(s2, r2, _) := pack (lift true v1 (vss_receive_vector cf d d (VOk l) v1)) in
     ~ is_keys ROk /\ ~ is_keys r2 /\ never_keys (vs_v s2)).
  { intros v1 A B C. pose proof (Hbad v1 A B C) as HB.
    destruct (pack (lift true v1 (vss_receive_vector cf d d (VOk l) v1))) as [[s2 r2] e2].
    destruct HB. auto. }
  destruct m as [|sb|vb|cb|ab|tg]; cbn [lift pack vs_run vs_v negb];
    try (apply Hbad'; cbn; auto; fail).
  destruct sb as [|z]; [cbn [lift pack vs_run vs_v negb]; apply Hbad'; cbn; auto|].
  cbn in Hm. cbn [v_x set_xrecv]. rewrite Hx0.
  destruct (Z_le_gt_dec z 0) as [Ez|Ez]; [|destruct (Z_le_gt_dec r z) as [Er|Er]].
  - pose proof (read_star_bad z 0 (or_introl Ez)) as Eb. pose proof (read_star_bad_val z (or_introl Ez)) as Ev.
    destruct (read_star z 0) as [ok x']. cbn in Eb, Ev. subst ok x'. cbn [negb lift pack vs_run vs_v].
    apply Hbad'; cbn; auto.
  - pose proof (read_star_bad z 0 (or_intror Er)) as Eb. pose proof (read_star_bad_val z (or_intror Er)) as Ev.
    destruct (read_star z 0) as [ok x']. cbn in Eb, Ev. subst ok x'. cbn [negb lift pack vs_run vs_v].
    apply Hbad'; cbn; auto.
  - rewrite read_star_ok by lia. cbn [negb]. cbn [v_vArecv set_x set_xrecv]. rewrite Hr. cbn [andb lift pack vs_run vs_v negb].
    unfold vss_receive_vector. rewrite Nat.eqb_refl. cbn [negb v_vArecv set_x set_xrecv]. rewrite Hr.
    cbn [v_xrecv set_vArecv set_y set_vA set_x set_xrecv]. unfold verify_share. cbn. rewrite pubkeys_nth. cbn.
    destruct Hm as [Hm|[Hm|Hm]]; try lia.
    destruct (z =? peval (fixpoly (c_t cf) l) (Z.of_nat (c_my cf) + 1)) eqn:E; [apply Z.eqb_eq in E; contradiction|].
    split; [auto|split; [auto|apply never_keys_after_both; cbn; auto]].
Qed.

(* in a reachable state of a non-dealer, an unread share slot is zero and validKey is false
   until both messages came *)
Definition fresh_ok (v : vinst) : Prop := v_xrecv v = false -> v_x v = 0.

Lemma fresh_ok_step s c : fresh_ok (vs_v s) -> fresh_ok (vs_v (fst (fst (vss_step cf d s c)))).
Proof.
  intros HV. destruct s as [run v]. cbn [vs_v] in *.
  destruct c as [sd| | | |o m|o m|j]; cbn [vss_step vs_run vs_v].
  - unfold vss_start. destruct run; cbn; [exact HV|].
    rewrite (proj2 (Nat.eqb_neq d (c_my cf))) by congruence. cbn. exact HV.
  - exact HV.
  - unfold vss_end. destruct run; cbn; [|exact HV]. destruct (v_valid v); cbn; exact HV.
  - exact HV.
  - unfold vss_broadcast. destruct run; cbn; [|exact HV].
    destruct (in_range cf o); cbn; [|exact HV].
    destruct (Nat.eqb (c_my cf) (Z.to_nat o)); cbn; [exact HV|].
    destruct m; cbn; try exact HV.
    unfold vss_receive_vector. destruct (Nat.eqb (Z.to_nat o) d); cbn; [|exact HV].
    destruct (v_vArecv v) eqn:Er; cbn; [exact HV|].
    destruct v0 as [|k|l]; cbn; try exact HV.
    destruct (v_xrecv v) eqn:Ex; cbn; [|exact HV].
    unfold verify_share. cbn. destruct (nth_error (pubkeys cf (fixpoly (c_t cf) l)) (c_my cf)); cbn; [|exact HV].
    intro E. cbn in E. congruence.
  - unfold vss_private. destruct run; cbn; [|exact HV].
    destruct (in_range cf o); cbn; [|exact HV].
    destruct (Nat.eqb (c_my cf) (Z.to_nat o)); cbn; [exact HV|].
    unfold vss_receive_share. destruct (Nat.eqb (Z.to_nat o) d); cbn; [|exact HV].
    destruct (v_xrecv v); cbn; [exact HV|].
    destruct m as [|sb|vb|cb|ab|tg]; cbn; try (intro; discriminate).
    destruct sb as [|z]; cbn; [intro; discriminate|].
    destruct (read_star z (v_x v)) as [ok x']. cbn. destruct ok; cbn; [|intro; discriminate].
    destruct (v_vArecv v && match v_y v with Some _ => true | None => false end); cbn.
    + destruct (verify_share cf (set_x (set_xrecv v true) x')); cbn; [intro; discriminate|exact HV].
    + intro; discriminate.
  - unfold vss_force. destruct run; cbn; [|exact HV].
    destruct (in_range cf j); cbn; [|exact HV].
    destruct (Nat.eqb (Z.to_nat j) d); cbn; exact HV.
Qed.

Lemma fresh_ok_reachable : forall cs s, fresh_ok (vs_v s) -> fresh_ok (vs_v (final (vss_step cf d) s cs)).
Proof.
  induction cs as [|c cs IH]; intros s F; [exact F|].
  cbn [final]. pose proof (fresh_ok_step s c F) as F'.
  destruct (vss_step cf d s c) as [[s' res] ev]. cbn [fst] in F'.
  destruct res; try (apply IH; assumption); exact F'.
Qed.

End Vss.
