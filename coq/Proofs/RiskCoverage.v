(* C09 - which entry points are covered by which theorem, and the check that the lists are
   COMPLETE with respect to the translator's lists of exported functions / methods
   (risk_roots) and of methods reachable through interface calls (risk_dyn_targets):
   a new exported function in /repo makes [coverage_complete] fail. *)
From Coq Require Import ZArith List String Bool.
From V Require Import Model.Risk Generated.RiskSkel Proofs.RiskBase.
Import ListNotations.
Open Scope string_scope.

(* entry points with a no-panic theorem under stated preconditions (Proofs/RiskThm*.v) *)
Definition conditional : list string :=
  ["prKeyBLSBLS12381.Sign"; "pubKeyBLSBLS12381.Verify"; "AggregateBLSSignatures"; "AggregateBLSPrivateKeys";
   "AggregateBLSPublicKeys"; "RemoveBLSPublicKeys"; "VerifyBLSSignatureOneMessage";
   "BatchVerifyBLSSignaturesOneMessage"; "VerifyBLSSignatureManyMessages"; "blsBLS12381Algo.generatePrivateKey";
   "E2PolynomialImages"; "blsThresholdSignatureInspector.VerifyShare"; "blsThresholdSignatureInspector.VerifyAndAdd";
   "blsThresholdSignatureInspector.ThresholdSignature"; "BLSReconstructThresholdSignature";
   "prKeyECDSA.Encode"; "prKeyECDSA.String"; "pubKeyECDSA.Encode"; "pubKeyECDSA.String"; "prKeyECDSA.Sign";
   "pubKeyECDSA.Verify"; "SignatureFormatCheck"; "ecdsaAlgo.decodePublicKey"; "ecdsaAlgo.decodePrivateKey";
   "ecdsaAlgo.generatePrivateKey"; "random.chachaCore.Read"; "random.RestoreChacha20PRG";
   "random.genericPRG.UintN"; "random.genericPRG.Permutation"; "random.genericPRG.SubPermutation";
   "random.genericPRG.Samples"; "random.genericPRG.Shuffle"; "hash.NewKMAC_128"; "NewExpandMsgXOFKMAC128";
   "hash.kmac128.ComputeHash"; "hash.kmac128.SumHash"; "NewBLSThresholdSignatureInspector";
   "NewBLSThresholdSignatureParticipant"; "BLSThresholdKeyGen"; "feldmanVSSstate.Start";
   "feldmanVSSstate.HandleBroadcastMsg"; "feldmanVSSstate.HandlePrivateMsg"; "feldmanVSSstate.End";
   "feldmanVSSQualState.HandleBroadcastMsg"; "feldmanVSSQualState.HandlePrivateMsg";
   "feldmanVSSQualState.NextTimeout"; "feldmanVSSQualState.End"; "JointFeldmanState.ForceDisqualify";
   "JointFeldmanState.Start"; "NewJointFeldman"; "JointFeldmanState.NextTimeout";
   "JointFeldmanState.HandlePrivateMsg"; "JointFeldmanState.HandleBroadcastMsg"; "JointFeldmanState.End"].

(* entry points WITHOUT a skeleton-level theorem, with the reason *)
Definition not_covered : list (string * string) :=
  [("hash.spongeState.Write",
    "Keccak sponge absorb loop: safety rests on the loop-carried buffer invariant (bufIndex = 0, 0 <= bufSize <= rate <= 136) and on xorIn's len(buf) = 8*(n-i); the one-iteration loop abstraction of the skeleton semantics cannot carry it. Covered at model level, loops executed, by C13_sponge_ops_preserve_wf (re-exported below).");
   ("hash.spongeState.SumHash", "same sponge invariant (padAndPermute / copyOut); C13_sponge_ops_preserve_wf");
   ("hash.spongeState.ComputeHash", "same sponge invariant (Reset; write; sum); C13_sponge_ops_preserve_wf");
   ("hash.ComputeSHA3_256", "same sponge invariant on a fresh state; C13_sponge_ops_preserve_wf with C13_constructors_wf. Callers (generateFrPolynomial: BLSThresholdKeyGen, dealer Start) are proved with this callee cut (sponge_cut).")].

(* reachable functions the translator does not walk at all *)
Definition opaque_functions : list (string * string) := risk_opaque.

Definition covered (f : string) : bool :=
  existsb (String.eqb f) unconditional || existsb (String.eqb f) conditional ||
  existsb (String.eqb f) (map fst not_covered).

Theorem coverage_complete :
  forallb covered (risk_roots ++ risk_dyn_targets) = true.
Proof. vm_compute. reflexivity. Qed.

(* and nothing is listed twice or listed without being an entry point *)
Fixpoint nodupb (l : list string) : bool :=
  match l with
  | [] => true
  | x :: r => negb (existsb (String.eqb x) r) && nodupb r
  end.

Theorem coverage_exact :
  forallb (fun f => existsb (String.eqb f) (risk_roots ++ risk_dyn_targets))
          (unconditional ++ conditional ++ map fst not_covered) = true /\
  nodupb (unconditional ++ conditional ++ map fst not_covered) = true.
Proof. split; vm_compute; reflexivity. Qed.
