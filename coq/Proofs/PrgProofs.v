(* C14: the PRG core reads the RFC 8439 keystream whatever the read sizes,
   and restore (store c) rebuilds exactly the same generator. *)
From Coq Require Import ZArith NArith List Bool Lia ZifyN ZifyNat.
From V Require Import Lib.ListX Prim.ChaCha Model.Prg Proofs.ChaChaFacts.
Import ListNotations.
Open Scope N_scope.
Ltac Zify.zify_post_hook ::= Z.div_mod_to_equations.

Definition limit : N := 274877906944.   (* 2^38 = 2^32 blocks of 64 bytes *)

(* the generator for (key, nonce) after bc output bytes *)
Definition core_at (key nonce : list N) (bc : N) : core :=
  {| cipher_ := {| ck := key; cn := nonce; cpos := bc |}; bytesCounter := bc;
     seed_ := key; customizer_ := nonce |}.

Lemma map2_lxor_zeros l n : length l = n -> map2 N.lxor (zeros n) l = l.
Proof.
  revert n; induction l as [|x l IH]; intros [|n] H; cbn in *; try discriminate; auto.
  f_equal. apply IH. congruence.
Qed.

Lemma firstn_zeros n m : (n <= m)%nat -> firstn n (zeros m) = zeros n.
Proof.
  revert m; induction n as [|n IH]; intros [|m] H; cbn; auto; try lia.
  f_equal. apply IH. lia.
Qed.

Lemma zeros_length n : length (zeros n) = n.
Proof. apply repeat_length. Qed.

Lemma read_message_zeros n :
  (if Nat.leb n lenEmptyMessage then firstn n (zeros lenEmptyMessage) else zeros n) = zeros n.
Proof.
  destruct (Nat.leb_spec n lenEmptyMessage) as [H|H]; [apply firstn_zeros; exact H|reflexivity].
Qed.

Lemma read_core_at key nonce bc n :
  bc + N.of_nat n < w64 ->
  read (core_at key nonce bc) n = (ks_range key nonce bc n, core_at key nonce (bc + N.of_nat n)).
Proof.
  intro Hb. unfold read. rewrite read_message_zeros.
  unfold xor_key_stream, core_at. cbn [cipher_ ck cn cpos bytesCounter seed_ customizer_].
  rewrite zeros_length.
  rewrite map2_lxor_zeros by apply ks_range_length.
  rewrite N.mod_small by exact Hb. reflexivity.
Qed.

Definition total (sizes : list nat) : N := fold_right (fun n acc => N.of_nat n + acc) 0 sizes.

Lemma reads_core_at key nonce sizes : forall bc,
  bc + total sizes < w64 ->
  concat (fst (reads (core_at key nonce bc) sizes)) = ks_range key nonce bc (N.to_nat (total sizes)) /\
  snd (reads (core_at key nonce bc) sizes) = core_at key nonce (bc + total sizes).
Proof.
  induction sizes as [|n r IH]; intros bc Hb; cbn [reads total fold_right] in *.
  - cbn [fst snd concat]. change (N.to_nat 0) with 0%nat. rewrite ks_range_0, N.add_0_r. auto.
  - fold (total r) in *. rewrite read_core_at by lia.
    destruct (reads (core_at key nonce (bc + N.of_nat n)) r) as [os c2] eqn:E.
    specialize (IH (bc + N.of_nat n)). rewrite E in IH. cbn [fst snd] in *.
    destruct IH as [IH1 IH2]; [lia|].
    split.
    + cbn [concat]. rewrite IH1.
      replace (N.to_nat (N.of_nat n + total r)) with (n + N.to_nat (total r))%nat by lia.
      now rewrite ks_range_split.
    + rewrite IH2. f_equal. lia.
Qed.

Lemma copy_into_exact k l : length l = k -> copy_into k l = l.
Proof.
  intro H. unfold copy_into. rewrite <- H, firstn_all, Nat.sub_diag. cbn. apply app_nil_r.
Qed.

Lemma copy_into_length k l : length (copy_into k l) = k.
Proof.
  unfold copy_into. rewrite app_length, firstn_length, zeros_length. lia.
Qed.

(* NewChacha20PRG: accepted exactly for 32-byte seeds and <= 12-byte customizers *)
Lemma new_prg_ok seed cust :
  length seed = keySize -> (length cust <= nonceSize)%nat ->
  new_prg seed cust = ROk (core_at seed (copy_into nonceSize cust) 0).
Proof.
  intros Hs Hc. unfold new_prg. rewrite Hs, Nat.eqb_refl. cbn [negb].
  destruct (Nat.ltb_spec nonceSize (length cust)); [lia|].
  rewrite copy_into_exact by exact Hs. reflexivity.
Qed.

Lemma new_prg_rejects seed cust :
  (length seed <> keySize \/ (nonceSize < length cust)%nat) ->
  exists e, new_prg seed cust = RErr e.
Proof.
  intros H. unfold new_prg.
  destruct (Nat.eqb_spec (length seed) keySize) as [E|E]; cbn [negb].
  - destruct (Nat.ltb_spec nonceSize (length cust)); [eauto|lia].
  - eauto.
Qed.

(* the 2^38 statement: any list of read sizes *)
Theorem reads_concat_eq_keystream seed cust sizes c :
  new_prg seed cust = ROk c -> total sizes <= limit ->
  concat (fst (reads c sizes)) =
    ks_range seed (copy_into nonceSize cust) 0 (N.to_nat (total sizes)).
Proof.
  intros Hn Ht.
  destruct (Nat.eqb_spec (length seed) keySize) as [Hs|Hs].
  2:{ destruct (new_prg_rejects seed cust (or_introl Hs)) as [e He]. congruence. }
  destruct (Nat.ltb_spec nonceSize (length cust)) as [Hc|Hc].
  { destruct (new_prg_rejects seed cust (or_intror Hc)) as [e He]. congruence. }
  rewrite new_prg_ok in Hn by assumption. inversion Hn; subst c.
  apply reads_core_at. unfold limit, w64 in *. lia.
Qed.

(* ---- Store / Restore ---- *)

Lemma le_val_le_bytes k : forall v, v < 256 ^ N.of_nat k -> le_val (le_bytes k v) = v.
Proof.
  induction k as [|k IH]; intros v Hv.
  - cbn in *. lia.
  - cbn [le_bytes le_val]. rewrite IH.
    + pose proof (N.div_mod v 256). lia.
    + replace (N.of_nat (S k)) with (N.succ (N.of_nat k)) in Hv by lia.
      rewrite N.pow_succ_r' in Hv. apply N.div_lt_upper_bound; lia.
Qed.

Lemma le_bytes_length k v : length (le_bytes k v) = k.
Proof. revert v; induction k as [|k IH]; intro v; cbn; auto. Qed.

Lemma store_length key nonce bc :
  length key = keySize -> length nonce = nonceSize ->
  length (store (core_at key nonce bc)) = (keySize + nonceSize + counterBytesLen)%nat.
Proof.
  intros Hk Hn. unfold store, core_at. cbn [seed_ customizer_ bytesCounter].
  rewrite !app_length, le_bytes_length. lia.
Qed.

Theorem restore_store key nonce bc :
  length key = keySize -> length nonce = nonceSize -> bc < limit ->
  restore (store (core_at key nonce bc)) = ROk (core_at key nonce bc).
Proof.
  intros Hk Hn Hb. unfold restore. rewrite store_length by assumption.
  change expectedLen with (keySize + nonceSize + counterBytesLen)%nat.
  rewrite Nat.eqb_refl. cbn [negb].
  change bytesPerBlock with 64.
  unfold store, core_at. cbn [seed_ customizer_ bytesCounter].
  rewrite (firstn_app_exact key _ keySize Hk).
  rewrite (skipn_app_exact key _ keySize Hk).
  rewrite (firstn_app_exact nonce _ nonceSize Hn).
  replace (key ++ nonce ++ le_bytes counterBytesLen bc) with ((key ++ nonce) ++ le_bytes counterBytesLen bc)
    by (now rewrite app_assoc).
  rewrite (skipn_app_exact (key ++ nonce) _ (keySize + nonceSize)) by (rewrite app_length; lia).
  rewrite le_val_le_bytes by (unfold limit in Hb; cbn; lia).
  unfold xor_key_stream, set_counter. cbn [ck cn cpos]. rewrite zeros_length.
  do 3 f_equal.
  unfold limit, w32 in *. lia.
Qed.

Lemma restore_rejects st :
  length st <> (keySize + nonceSize + counterBytesLen)%nat -> restore st = RErr E_STATELEN.
Proof.
  intro H. unfold restore. change expectedLen with (keySize + nonceSize + counterBytesLen)%nat.
  destruct (Nat.eqb_spec (length st) (keySize + nonceSize + counterBytesLen)); [contradiction|reflexivity].
Qed.

(* Restoring after any prefix of reads resumes the stream: every later read and
   every later Store coincide, because the restored generator IS the original one. *)
Theorem restore_resumes seed cust pre c c1 :
  new_prg seed cust = ROk c -> total pre < limit ->
  snd (reads c pre) = c1 ->
  restore (store c1) = ROk c1.
Proof.
  intros Hn Ht Hc1.
  destruct (Nat.eqb_spec (length seed) keySize) as [Hs|Hs].
  2:{ destruct (new_prg_rejects seed cust (or_introl Hs)) as [e He]. congruence. }
  destruct (Nat.ltb_spec nonceSize (length cust)) as [Hc|Hc].
  { destruct (new_prg_rejects seed cust (or_intror Hc)) as [e He]. congruence. }
  rewrite new_prg_ok in Hn by assumption. inversion Hn; subst c.
  destruct (reads_core_at seed (copy_into nonceSize cust) pre 0) as [_ H2].
  { unfold limit, w64 in *. lia. }
  rewrite H2 in Hc1. subst c1. rewrite N.add_0_l.
  apply restore_store; [exact Hs|apply copy_into_length|exact Ht].
Qed.

(* The bound is needed: at 2^38 the uint32 block counter truncates. *)
Example restore_truncates_at_limit :
  let key := zeros 32 in let nonce := zeros 12 in
  match restore (store (core_at key nonce limit)) with
  | ROk c => cpos (cipher_ c) = 0 /\ bytesCounter c = limit
  | RErr _ => False
  end.
Proof. vm_compute. split; reflexivity. Qed.
