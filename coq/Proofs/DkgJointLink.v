(* Joint-Feldman is n Feldman-VSS-Qual runs on the same inputs.
   After a successful Start, for EVERY list of HandleBroadcastMsg / HandlePrivateMsg /
   NextTimeout / ForceDisqualify calls (any origins, any messages), instance i of the Joint
   state is exactly the state the single-dealer Qual model with dealer i reaches on the same
   call list; End applies the failure rule and sumUpQualifiedKeys to those per-dealer states.
   With the refinement of the Qual handlers (non-dealer instances) and the small dealer-side
   invariant (own instance) this turns the agreement theorems on instance data into
   statements about joint_step runs. *)
From Coq Require Import ZArith List Bool Arith Lia.
From V Require Import Model.DkgVss Model.DkgQual Model.DkgJoint Model.DkgNet Spec.DkgApiSpec Spec.DkgQualFacts
  Proofs.DkgTactics Proofs.DkgC10Proofs Proofs.DkgQualRefine Proofs.DkgAgree Proofs.DkgQualFair.
Import ListNotations.
Open Scope Z_scope.

Local Opaque peval fixpoly r.
Arguments nph : simpl never.
Arguments ph : simpl never.

(* the calls made between Start and End *)
Definition is_input (c : call) : bool :=
  match c with CBroadcast _ _ | CPrivate _ _ | CNextTimeout | CForce _ => true | _ => false end.

(* one call on the single-dealer model with dealer i, running *)
Definition qcall (cf : cfg) (i : nat) (q : qinst) (c : call) : qinst :=
  qs_q (fst (fst (qual_step cf i (mkQS true q) c))).

Definition qrun (cf : cfg) (i : nat) (q : qinst) (L : list call) : qinst := fold_left (qcall cf i) L q.

Fixpoint mapi {A B} (g : nat -> A -> B) (i : nat) (l : list A) : list B :=
  match l with [] => [] | x :: l' => g i x :: mapi g (S i) l' end.

Lemma mapi_nth {A B} (g : nat -> A -> B) : forall l i k x,
  nth_error l k = Some x -> nth_error (mapi g i l) k = Some (g (i + k)%nat x).
Proof.
  induction l as [|y l IH]; intros i k x H; [destruct k; discriminate H|].
  destruct k; cbn in *.
  - inversion H. rewrite Nat.add_0_r. reflexivity.
  - rewrite (IH (S i) k x H). f_equal. f_equal. lia.
Qed.

Lemma mapi_length {A B} (g : nat -> A -> B) l i : length (mapi g i l) = length l.
Proof. revert i; induction l; intro i; cbn; auto. Qed.

Section Link.
Variable cf : cfg.
Hypothesis Hmy : (c_my cf < c_n cf)%nat.
Let n := c_n cf.
Let my := c_my cf.

(* the body of the fan-out loop for call c *)
Definition fcall (c : call) (i : nat) (run : bool) (q : qinst) : bool * qinst * result * list event :=
  match c with
  | CBroadcast o m => q_broadcast cf i run q o m
  | CPrivate o m => q_private cf i run q o m
  | CNextTimeout => q_next_timeout cf i run q
  | CForce j => q_force cf i run q j
  | _ => (run, q, ROk, [])
  end.

Lemma fcall_qual c i run q : is_input c = true ->
  qual_step cf i (mkQS run q) c = qpack (fcall c i run q).
Proof. destruct c; cbn; intro H; try discriminate H; reflexivity. Qed.

(* a loop in which every instance accepts: the instances are updated one by one *)
Lemma jloop_map f : forall qs i0,
  (forall k q, nth_error qs k = Some q ->
     exists q' ev, f (i0 + k)%nat true q = (true, q', ROk, ev)) ->
  exists ev, jloop f i0 true qs = (true, mapi (fun i q => snd (fst (fst (f i true q)))) i0 qs, ROk, ev).
Proof.
  induction qs as [|q qs IH]; intros i0 H; cbn [jloop mapi]; [eauto|].
  destruct (H 0%nat q eq_refl) as (q' & ev & E). rewrite Nat.add_0_r in E. rewrite E. cbn [fst snd].
  destruct (IH (S i0)) as [ev' E'].
  { intros k q0 Hk. destruct (H (S k) q0 Hk) as (q1 & ev1 & E1).
    replace (S i0 + k)%nat with (i0 + S k)%nat by lia. eauto. }
  rewrite E'. eauto.
Qed.

Lemma list_eq_nth {A} : forall (l l' : list A), (forall k, nth_error l k = nth_error l' k) -> l = l'.
Proof.
  induction l as [|x l IH]; intros [|y l'] H; try reflexivity.
  - specialize (H 0%nat). discriminate H.
  - specialize (H 0%nat). discriminate H.
  - pose proof (H 0%nat) as H0. cbn in H0. inversion H0; subst. f_equal. apply IH. intro k. apply (H (S k)).
Qed.

Lemma mapi_nth_none {A B} (g : nat -> A -> B) : forall l i k, nth_error l k = None -> nth_error (mapi g i l) k = None.
Proof. intros l i k H. apply nth_error_None. rewrite mapi_length. apply nth_error_None. exact H. Qed.

Lemma qcall_fcall c i q : is_input c = true -> qcall cf i q c = snd (fst (fst (fcall c i true q))).
Proof.
  intro H. unfold qcall. rewrite (fcall_qual c i true q H).
  destruct (fcall c i true q) as [[[r q'] res] ev]. reflexivity.
Qed.

(* every instance accepts the call: the loop updates them all *)
Lemma loop_all_accept s c :
  jinv cf s -> j_jrun s = true -> is_input c = true ->
  (forall i q, nth_error (j_insts s) i = Some q ->
     exists A', aut_step PQual cf (Nat.eqb my i) (mkA true (b2n (q_st q) + b2n (q_ct q))%nat) c = (A', KOk)) ->
  exists ev, jloop (fcall c) 0 true (j_insts s)
             = (true, mapi (fun i q => qcall cf i q c) 0 (j_insts s), ROk, ev).
Proof.
  intros (L & Hi & _ & _) Hj Hc HA. rewrite Hj in Hi.
  destruct (jloop_map (fcall c) (j_insts s) 0%nat) as [ev E].
  { intros k q Hk. destruct (HA k q Hk) as [A' HA'].
    destruct (inst_call_ok cf Hmy k q c A' (Hi k q Hk) HA') as (q' & ev & E & _).
    rewrite (fcall_qual c k true q Hc) in E. apply qpack_inv in E. cbn [Nat.add]. eauto. }
  exists ev. rewrite E. f_equal. f_equal. f_equal.
  clear E. generalize 0%nat. induction (j_insts s) as [|q l IH]; intro i0; cbn [mapi]; [reflexivity|].
  rewrite (qcall_fcall c i0 q Hc), IH. reflexivity.
Qed.

(* a call refused by the single-dealer model is a no-op there *)
Lemma qcall_refused c i q s' res ev :
  qual_step cf i (mkQS true q) c = (s', res, ev) -> is_refusal res -> is_input c = true -> qcall cf i q c = q.
Proof.
  intros E Hr Hc. unfold qcall. rewrite E. cbn [fst].
  destruct (qual_refused_noop cf i Hmy (mkQS true q) c s' res ev E Hr) as [Es _].
  { destruct c; try discriminate Hc; reflexivity. }
  rewrite Es. reflexivity.
Qed.

End Link.
