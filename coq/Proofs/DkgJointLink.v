(* Joint-Feldman is n Feldman-VSS-Qual runs on the same inputs.
   After a successful Start, for EVERY list of HandleBroadcastMsg / HandlePrivateMsg /
   NextTimeout / ForceDisqualify calls (any origins, any messages), instance i of the Joint
   state is exactly the state the single-dealer Qual model with dealer i reaches on the same
   call list; End applies the failure rule and sumUpQualifiedKeys to those per-dealer states.
   With the refinement of the Qual handlers (non-dealer instances) and the small dealer-side
   invariant (own instance) this turns the agreement theorems on instance data into
   statements about joint_step runs. *)
From Coq Require Import ZArith List Bool Arith Lia.
From V Require Import Model.DkgVss Model.DkgQual Model.DkgJoint Model.DkgNet Spec.DkgApiSpec Spec.DkgQualFacts
  Proofs.DkgTactics Proofs.DkgC10Proofs Proofs.DkgQualRefine Proofs.DkgAgree Proofs.DkgQualEvents Proofs.DkgQualFair.
Import ListNotations.
Open Scope Z_scope.

Local Opaque peval fixpoly r.
Arguments nph : simpl never.
Arguments ph : simpl never.

(* the calls made between Start and End *)
Definition is_input (c : call) : bool :=
  match c with CBroadcast _ _ | CPrivate _ _ | CNextTimeout | CForce _ => true | _ => false end.

(* one call on the single-dealer model with dealer i, running *)
Definition qcall (cf : cfg) (i : nat) (q : qinst) (c : call) : qinst :=
  qs_q (fst (fst (qual_step cf i (mkQS true q) c))).

Definition qrun (cf : cfg) (i : nat) (q : qinst) (L : list call) : qinst := fold_left (qcall cf i) L q.

Fixpoint mapi {A B} (g : nat -> A -> B) (i : nat) (l : list A) : list B :=
  match l with [] => [] | x :: l' => g i x :: mapi g (S i) l' end.

Lemma mapi_nth {A B} (g : nat -> A -> B) : forall l i k x,
  nth_error l k = Some x -> nth_error (mapi g i l) k = Some (g (i + k)%nat x).
Proof.
  induction l as [|y l IH]; intros i k x H; [destruct k; discriminate H|].
  destruct k; cbn in *.
  - inversion H. rewrite Nat.add_0_r. reflexivity.
  - rewrite (IH (S i) k x H). f_equal. f_equal. lia.
Qed.

Lemma mapi_length {A B} (g : nat -> A -> B) l i : length (mapi g i l) = length l.
Proof. revert i; induction l; intro i; cbn; auto. Qed.

Section Link.
Variable cf : cfg.
Hypothesis Hmy : (c_my cf < c_n cf)%nat.
Let n := c_n cf.
Let my := c_my cf.

(* the body of the fan-out loop for call c *)
Definition fcall (c : call) (i : nat) (run : bool) (q : qinst) : bool * qinst * result * list event :=
  match c with
  | CBroadcast o m => q_broadcast cf i run q o m
  | CPrivate o m => q_private cf i run q o m
  | CNextTimeout => q_next_timeout cf i run q
  | CForce j => q_force cf i run q j
  | _ => (run, q, ROk, [])
  end.

Lemma fcall_qual c i run q : is_input c = true ->
  qual_step cf i (mkQS run q) c = qpack (fcall c i run q).
Proof. destruct c; cbn; intro H; try discriminate H; reflexivity. Qed.

(* a loop in which every instance accepts: the instances are updated one by one *)
Lemma jloop_map f : forall qs i0,
  (forall k q, nth_error qs k = Some q ->
     exists q' ev, f (i0 + k)%nat true q = (true, q', ROk, ev)) ->
  exists ev, jloop f i0 true qs = (true, mapi (fun i q => snd (fst (fst (f i true q)))) i0 qs, ROk, ev).
Proof.
  induction qs as [|q qs IH]; intros i0 H; cbn [jloop mapi]; [eauto|].
  destruct (H 0%nat q eq_refl) as (q' & ev & E). rewrite Nat.add_0_r in E. rewrite E. cbn [fst snd].
  destruct (IH (S i0)) as [ev' E'].
  { intros k q0 Hk. destruct (H (S k) q0 Hk) as (q1 & ev1 & E1).
    replace (S i0 + k)%nat with (i0 + S k)%nat by lia. eauto. }
  rewrite E'. eauto.
Qed.

Lemma list_eq_nth {A} : forall (l l' : list A), (forall k, nth_error l k = nth_error l' k) -> l = l'.
Proof.
  induction l as [|x l IH]; intros [|y l'] H; try reflexivity.
  - specialize (H 0%nat). discriminate H.
  - specialize (H 0%nat). discriminate H.
  - pose proof (H 0%nat) as H0. cbn in H0. inversion H0; subst. f_equal. apply IH. intro k. apply (H (S k)).
Qed.

Lemma mapi_nth_none {A B} (g : nat -> A -> B) : forall l i k, nth_error l k = None -> nth_error (mapi g i l) k = None.
Proof. intros l i k H. apply nth_error_None. rewrite mapi_length. apply nth_error_None. exact H. Qed.

Lemma qcall_fcall c i q : is_input c = true -> qcall cf i q c = snd (fst (fst (fcall c i true q))).
Proof.
  intro H. unfold qcall. rewrite (fcall_qual c i true q H).
  destruct (fcall c i true q) as [[[r q'] res] ev]. reflexivity.
Qed.

(* every instance accepts the call: the loop updates them all *)
Lemma loop_all_accept s c :
  jinv cf s -> j_jrun s = true -> is_input c = true ->
  (forall i q, nth_error (j_insts s) i = Some q ->
     exists A', aut_step PQual cf (Nat.eqb my i) (mkA true (b2n (q_st q) + b2n (q_ct q))%nat) c = (A', KOk)) ->
  exists ev, jloop (fcall c) 0 true (j_insts s)
             = (true, mapi (fun i q => qcall cf i q c) 0 (j_insts s), ROk, ev).
Proof.
  intros (L & Hi & _ & _) Hj Hc HA. rewrite Hj in Hi.
  destruct (jloop_map (fcall c) (j_insts s) 0%nat) as [ev E].
  { intros k q Hk. destruct (HA k q Hk) as [A' HA'].
    destruct (inst_call_ok cf Hmy k q c A' (Hi k q Hk) HA') as (q' & ev & E & _).
    rewrite (fcall_qual c k true q Hc) in E. apply qpack_inv in E. cbn [Nat.add]. eauto. }
  exists ev. rewrite E. f_equal. f_equal. f_equal.
  clear E L Hi HA. generalize 0%nat. induction (j_insts s) as [|q l IH]; intro i0; cbn [mapi]; [reflexivity|].
  rewrite (qcall_fcall c i0 q Hc), IH. reflexivity.
Qed.

(* a call refused by the single-dealer model is a no-op there *)
Lemma qcall_refused c i q s' res ev :
  qual_step cf i (mkQS true q) c = (s', res, ev) -> is_refusal res -> is_input c = true -> qcall cf i q c = q.
Proof.
  intros E Hr Hc. unfold qcall. rewrite E. cbn [fst].
  destruct (qual_refused_noop cf i Hmy (mkQS true q) c s' res ev E Hr) as [Es _].
  { destruct c; try discriminate Hc; reflexivity. }
  rewrite Es. reflexivity.
Qed.

Lemma mapi_id {A} (g : nat -> A -> A) : forall l i0, (forall i q, In q l -> g i q = q) -> mapi g i0 l = l.
Proof.
  induction l as [|x l IH]; intros i0 H; cbn [mapi]; [reflexivity|].
  rewrite (H i0 x (or_introl eq_refl)), IH; [reflexivity|]. intros; apply H; right; assumption.
Qed.

Lemma nth_error_set_nth {A} : forall (l : list A) i x k,
  nth_error (set_nth l i x) k =
  if Nat.eqb k i then match nth_error l k with Some _ => Some x | None => None end else nth_error l k.
Proof.
  induction l as [|y l IH]; intros i x k; [destruct i, k; cbn; try reflexivity; destruct (Nat.eqb k i); reflexivity|].
  destruct i, k; cbn [set_nth nth_error Nat.eqb]; try reflexivity. apply IH.
Qed.

Lemma aut_input_keeps_running p dl to c :
  is_input c = true -> a_run (fst (aut_step p cf dl (mkA true to) c)) = true.
Proof.
  destruct c; cbn; intro H; try discriminate H; repeat brk_goal; reflexivity.
Qed.

(* one call of Joint-Feldman = the same call on each of the n single-dealer models *)
Lemma joint_step_link s c :
  jinv cf s -> j_jrun s = true -> is_input c = true ->
  let '(s', res, _) := joint_step cf s c in
  res <> RPanic /\ jinv cf s' /\ j_jrun s' = true /\
  j_insts s' = mapi (fun i q => qcall cf i q c) 0 (j_insts s).
Proof.
  intros Hinv Hj Hc.
  pose proof (joint_step_sim cf Hmy s c Hinv) as HS.
  pose proof (aut_input_keeps_running PJoint true (a_to (jabs s)) c Hc) as HR.
  pose proof (insts_nonempty cf Hmy s Hinv) as Hne.
  pose proof Hinv as (L & Hi & (st & ct & Hs) & J4). rewrite Hj in Hi. specialize (J4 Hj).
  assert (Hjabs : jabs s = mkA true (a_to (jabs s))) by (unfold jabs; cbn; rewrite Hj; reflexivity).
  rewrite Hjabs in HS.
  assert (Hin : forall i q, nth_error (j_insts s) i = Some q -> q_st q = st /\ q_ct q = ct /\ (ct = true -> st = true)).
  { intros i q E. destruct (Hs q (nth_error_In _ _ E)) as [E1 E2].
    destruct (Hi i q E) as [(_ & _ & _ & Q3) _]. rewrite E1, E2 in Q3. auto. }
  assert (Hmain : j_insts (fst (fst (joint_step cf s c))) = mapi (fun i q => qcall cf i q c) 0 (j_insts s)).
  { destruct s as [run jrun insts]. cbn [j_jrun j_run j_insts] in *. subst run jrun.
    (* every instance refuses, with the same answer and untouched *)
    assert (Hrefuse : forall res0, is_refusal res0 ->
              (forall i q, nth_error insts i = Some q -> fcall c i true q = (true, q, res0, [])) ->
              mapi (fun i q => qcall cf i q c) 0 insts = insts /\
              jloop (fcall c) 0 true insts = (true, insts, res0, [])).
    { intros res0 Hr0 Hf. split.
      - apply list_eq_nth. intro k. destruct (nth_error insts k) as [q|] eqn:Ek.
        + rewrite (mapi_nth _ insts 0 k q Ek). f_equal. cbn [Nat.add].
          rewrite (qcall_fcall c k q Hc), (Hf k q Ek). reflexivity.
        + apply mapi_nth_none. exact Ek.
      - destruct insts as [|q0 qs]; [congruence|].
        apply jloop_refused; [apply (Hf 0%nat q0 eq_refl)|]. destruct Hr0; subst; discriminate. }
    (* every instance accepts *)
    assert (Haccept : (forall i q, nth_error insts i = Some q ->
                exists A', aut_step PQual cf (Nat.eqb my i) (mkA true (b2n (q_st q) + b2n (q_ct q))%nat) c = (A', KOk)) ->
              exists ev, jloop (fcall c) 0 true insts = (true, mapi (fun i q => qcall cf i q c) 0 insts, ROk, ev)).
    { intro HA. apply (loop_all_accept (mkJ true true insts) c Hinv eq_refl Hc HA). }
    destruct c as [sd| | | |o m|o m|j]; try discriminate Hc; cbn [joint_step].
    - (* NextTimeout *)
      unfold joint_next_timeout. cbn [j_jrun j_run j_insts negb].
      change (jloop (fun i run q => q_next_timeout cf i run q)) with (jloop (fcall CNextTimeout)).
      destruct ct.
      + destruct (Hrefuse RStateErr) as [E1 E2]; [left; reflexivity| |rewrite E2; cbn; symmetry; exact E1].
        intros i q E. destruct (Hin i q E) as (_ & Ect & _). cbn. unfold q_next_timeout. cbn. rewrite Ect. reflexivity.
      + destruct Haccept as [ev E]; [|rewrite E; reflexivity].
        intros i q E. destruct (Hin i q E) as (Est & Ect & _). rewrite Est, Ect. cbn. destruct st; eexists; reflexivity.
    - (* HandleBroadcastMsg *)
      unfold joint_broadcast. cbn [j_jrun j_run j_insts negb].
      change (jloop (fun i run q => q_broadcast cf i run q o m)) with (jloop (fcall (CBroadcast o m))).
      destruct (in_range cf o) eqn:Eo.
      + destruct Haccept as [ev E]; [|rewrite E; reflexivity].
        intros i q E. cbn. rewrite Eo. cbn. eauto.
      + destruct (Hrefuse RInvalidInput) as [E1 E2]; [right; reflexivity| |rewrite E2; cbn; symmetry; exact E1].
        intros i q E. cbn. unfold q_broadcast. cbn. rewrite Eo. reflexivity.
    - (* HandlePrivateMsg *)
      unfold joint_private. cbn [j_jrun j_run j_insts negb].
      change (jloop (fun i run q => q_private cf i run q o m)) with (jloop (fcall (CPrivate o m))).
      destruct (in_range cf o) eqn:Eo.
      + destruct Haccept as [ev E]; [|rewrite E; reflexivity].
        intros i q E. cbn. rewrite Eo. cbn. eauto.
      + destruct (Hrefuse RInvalidInput) as [E1 E2]; [right; reflexivity| |rewrite E2; cbn; symmetry; exact E1].
        intros i q E. cbn. unfold q_private. cbn. rewrite Eo. reflexivity.
    - (* ForceDisqualify *)
      unfold joint_force. cbn [j_jrun j_run j_insts negb].
      destruct (in_range cf j) eqn:Ej; cbn [negb].
      + pose proof (in_range_lt cf Hmy j Ej) as Hlt.
        destruct (nth_error insts (Z.to_nat j)) as [q|] eqn:Eq; [|apply nth_error_None in Eq; lia].
        unfold q_force. cbn [negb]. rewrite Ej, Nat.eqb_refl. cbn.
        apply list_eq_nth. intro k. rewrite nth_error_set_nth.
        destruct (nth_error insts k) as [q'|] eqn:Ek.
        * rewrite (mapi_nth _ insts 0 k q' Ek). cbn [Nat.add]. unfold qcall. cbn [qual_step qs_run qs_q].
          unfold q_force. cbn [negb]. rewrite Ej. cbn [negb].
          destruct (Nat.eqb_spec k (Z.to_nat j)) as [->|Hk].
          -- rewrite Nat.eqb_refl. cbn. rewrite Eq in Ek. inversion Ek. reflexivity.
          -- rewrite (proj2 (Nat.eqb_neq (Z.to_nat j) k)) by (intro; apply Hk; symmetry; assumption). reflexivity.
        * rewrite (mapi_nth_none _ insts 0 k Ek). destruct (Nat.eqb k (Z.to_nat j)); reflexivity.
      + cbn. symmetry. apply mapi_id. intros i q _. unfold qcall. cbn. unfold q_force. cbn. rewrite Ej. reflexivity. }
  destruct (joint_step cf s c) as [[s' res] ev]. cbn [fst] in Hmain.
  destruct (aut_step PJoint cf true (mkA true (a_to (jabs s))) c) as [A' k] eqn:EA. cbn [fst] in HR.
  destruct HS as (I' & Ab & Cl). split; [intro E; subst res; discriminate Cl|].
  split; [exact I'|]. split; [|exact Hmain].
  unfold jabs in Ab. rewrite <- Ab in HR. exact HR.
Qed.

Lemma mapi_mapi {A B C} (g : nat -> A -> B) (h : nat -> B -> C) : forall l i,
  mapi h i (mapi g i l) = mapi (fun k x => h k (g k x)) i l.
Proof. induction l as [|x l IH]; intro i; cbn; [reflexivity|]. rewrite IH. reflexivity. Qed.

Lemma mapi_ext {A B} (g h : nat -> A -> B) : forall l i, (forall k x, g k x = h k x) -> mapi g i l = mapi h i l.
Proof. induction l as [|x l IH]; intros i H; cbn; [reflexivity|]. rewrite H, IH; auto. Qed.

(* THE LINK: any list of input calls *)
Theorem joint_run_link : forall L s,
  jinv cf s -> j_jrun s = true -> forallb is_input L = true ->
  let s' := final (joint_step cf) s L in
  jinv cf s' /\ j_jrun s' = true /\ j_run s' = true /\
  j_insts s' = mapi (fun i q => qrun cf i q L) 0 (j_insts s) /\
  length (run (joint_step cf) s L) = length L /\
  (forall o, In o (run (joint_step cf) s L) -> fst o <> RPanic).
Proof.
  induction L as [|c L IH]; intros s Hinv Hj HL.
  - cbn. split; [exact Hinv|]. split; [exact Hj|]. split; [destruct Hinv as (_ & _ & _ & J4); auto|].
    split; [symmetry; apply mapi_id; reflexivity|]. split; [reflexivity|intros o []].
  - cbn [forallb] in HL. apply andb_prop in HL as [Hc HL].
    pose proof (joint_step_link s c Hinv Hj Hc) as H1.
    cbn [final run]. destruct (joint_step cf s c) as [[s1 res] ev]. destruct H1 as (Hnp & I1 & J1 & E1).
    destruct (IH s1 I1 J1 HL) as (I2 & J2 & R2 & E2 & Len & Np).
    assert (Hfin : match res with RPanic => s1 | _ => final (joint_step cf) s1 L end = final (joint_step cf) s1 L)
      by (destruct res; try reflexivity; congruence).
    assert (Hrun : match res with RPanic => [] | _ => run (joint_step cf) s1 L end = run (joint_step cf) s1 L)
      by (destruct res; try reflexivity; congruence).
    rewrite Hfin, Hrun. split; [exact I2|]. split; [exact J2|]. split; [exact R2|].
    split; [|split].
    + rewrite E2, E1, mapi_mapi. apply mapi_ext. reflexivity.
    + cbn. rewrite Len. reflexivity.
    + intros o [<-|Ho]; [exact Hnp|apply Np; exact Ho].
Qed.

(* ---------------------------------------------------------------------- *)
(* Start: the own instance deals the polynomial of the seed                 *)
(* ---------------------------------------------------------------------- *)
Definition share_of (a : list Z) (j : nat) : Z := peval a (Z.of_nat j + 1).

(* what generateShares sends: the shares of the other participants in index order, then the
   verification vector *)
Definition start_events (a : list Z) : list event :=
  map (fun j => EvSend j (MShare (SVal (share_of a j)))) (filter (fun j => negb (Nat.eqb j my)) (seq 0 n))
  ++ [EvBcast (MVec (VOk a))].

Definition started_v (a : list Z) : vinst :=
  mkV (Some a) (VAFull a) true (share_of a my) true (Some (pubkeys cf a)) true.

Definition q_own (a : list Z) : qinst := mkQ (started_v a) (fun _ => None) false false false.

(* the state of instance i right after Start *)
Definition q0 (a : list Z) (i : nat) : qinst := if Nat.eqb i my then q_own a else q_init.

Lemma gen_loop_ok a : share_of a my <> 0 -> forall js,
  gen_loop cf a js =
  (map (fun j => EvSend j (MShare (SVal (share_of a j)))) (filter (fun j => negb (Nat.eqb j my)) js),
   map (share_of a) js, true).
Proof.
  intros Hnz. induction js as [|j js IH]; [reflexivity|]. cbn [gen_loop map filter]. rewrite IH.
  fold my. destruct (Nat.eqb_spec j my) as [->|Hj]; cbn [negb].
  - fold (share_of a my). destruct (share_of a my =? 0) eqn:E; [apply Z.eqb_eq in E; contradiction|reflexivity].
  - reflexivity.
Qed.

Lemma gen_shares_ok a0 :
  let a := fixpoly (c_t cf) a0 in
  share_of a my <> 0 ->
  gen_shares cf (SeedOk a0) v_init = (started_v a, ROk, start_events a).
Proof.
  intros a Hnz. unfold gen_shares. fold a. rewrite (gen_loop_ok a Hnz).
  rewrite map_length, seq_length, Nat.sub_diag. cbn [repeat]. rewrite app_nil_r. reflexivity.
Qed.

Lemma seed_ok_share a0 : seed_fails cf (SeedOk a0) = false -> share_of (fixpoly (c_t cf) a0) my <> 0.
Proof. unfold seed_fails, share_of. intro H. apply Z.eqb_neq. exact H. Qed.

Lemma q_start_own a0 : seed_fails cf (SeedOk a0) = false ->
  q_start cf my false q_init (SeedOk a0) = (true, q_own (fixpoly (c_t cf) a0), ROk, start_events (fixpoly (c_t cf) a0)).
Proof.
  intro H. unfold q_start, vss_start. fold my. rewrite Nat.eqb_refl. cbn [q_v q_init].
  rewrite (gen_shares_ok a0 (seed_ok_share a0 H)). reflexivity.
Qed.

Lemma q_start_other i sd : i <> my -> q_start cf i false q_init sd = (true, q_init, ROk, []).
Proof.
  intro H. unfold q_start, vss_start. fold my. rewrite (proj2 (Nat.eqb_neq i my) H). reflexivity.
Qed.

Definition started (a : list Z) : jstate := mkJ true true (mapi (fun i _ => q0 a i) 0 (repeat q_init n)).

Lemma started_nth a i : (i < n)%nat -> nth_error (j_insts (started a)) i = Some (q0 a i).
Proof.
  intro H. cbn [started j_insts].
  assert (E : nth_error (repeat q_init n) i = Some q_init).
  { destruct (nth_error (repeat q_init n) i) eqn:E.
    - apply nth_error_In in E. apply repeat_spec in E. subst. reflexivity.
    - apply nth_error_None in E. rewrite repeat_length in E. lia. }
  rewrite (mapi_nth _ _ 0 i q_init E). reflexivity.
Qed.

(* Start on a fresh Joint-Feldman instance with a good seed *)
Theorem joint_start_ok a0 :
  seed_fails cf (SeedOk a0) = false ->
  let a := fixpoly (c_t cf) a0 in
  joint_start cf (joint_init cf) (SeedOk a0) = (started a, ROk, start_events a).
Proof.
  intros H a. unfold joint_start, joint_init. cbn [j_jrun j_insts]. fold n my.
  assert (E : nth_error (repeat q_init n) my = Some q_init).
  { destruct (nth_error (repeat q_init n) my) eqn:E.
    - apply nth_error_In in E. apply repeat_spec in E. subst. reflexivity.
    - apply nth_error_None in E. rewrite repeat_length in E. unfold n, my in *. lia. }
  rewrite E, (q_start_own a0 H). fold a. unfold started. f_equal. f_equal. f_equal.
  apply list_eq_nth. intro k. rewrite nth_error_set_nth.
  destruct (nth_error (repeat q_init n) k) as [q|] eqn:Ek.
  - rewrite (mapi_nth _ _ 0 k q Ek). cbn [Nat.add]. unfold q0.
    destruct (Nat.eqb k my); [reflexivity|]. apply nth_error_In in Ek. apply repeat_spec in Ek. subst. reflexivity.
  - rewrite (mapi_nth_none _ _ 0 k Ek). destruct (Nat.eqb k my); reflexivity.
Qed.

Lemma started_inv a0 : seed_fails cf (SeedOk a0) = false -> jinv cf (started (fixpoly (c_t cf) a0)).
Proof.
  intro H. pose proof (joint_step_sim cf Hmy (joint_init cf) (CStart (SeedOk a0)) (joint_init_inv cf)) as HS.
  cbn [joint_step] in HS. rewrite (joint_start_ok a0 H) in HS.
  destruct (aut_step PJoint cf true (jabs (joint_init cf)) (CStart (SeedOk a0))). apply HS.
Qed.

(* instance i of the Joint state after Start and any input calls L is the single-dealer run *)
Theorem joint_instances a0 L :
  seed_fails cf (SeedOk a0) = false -> forallb is_input L = true ->
  let a := fixpoly (c_t cf) a0 in
  let s := final (joint_step cf) (joint_init cf) (CStart (SeedOk a0) :: L) in
  j_jrun s = true /\ j_run s = true /\ length (j_insts s) = n /\
  (forall i, (i < n)%nat -> nth_error (j_insts s) i = Some (qrun cf i (q0 a i) L)) /\
  length (run (joint_step cf) (joint_init cf) (CStart (SeedOk a0) :: L)) = S (length L) /\
  (forall o, In o (run (joint_step cf) (joint_init cf) (CStart (SeedOk a0) :: L)) -> fst o <> RPanic).
Proof.
  intros H HL a s. unfold s. cbn [final run joint_step]. rewrite (joint_start_ok a0 H). fold a.
  destruct (joint_run_link L (started a) (started_inv a0 H) eq_refl HL) as (I & J & R & E & Len & Np).
  split; [exact J|]. split; [exact R|]. split; [destruct I as (Ln & _); exact Ln|].
  split; [|split].
  - intros i Hi. rewrite E. rewrite (mapi_nth _ _ 0 i _ (started_nth a i Hi)). reflexivity.
  - cbn. rewrite Len. reflexivity.
  - intros o [<-|Ho]; [discriminate|apply Np; exact Ho].
Qed.

(* the same call list on the single-dealer model with dealer i *)
Lemma qual_final_qrun i : forall L q,
  qinv cf i (mkQS true q) -> forallb is_input L = true ->
  final (qual_step cf i) (mkQS true q) L = mkQS true (qrun cf i q L).
Proof.
  induction L as [|c L IH]; intros q Hinv HL; [reflexivity|].
  cbn [forallb] in HL. apply andb_prop in HL as [Hc HL].
  pose proof (qual_step_sim cf i Hmy (mkQS true q) c Hinv) as HS.
  pose proof (aut_input_keeps_running PQual (Nat.eqb (c_my cf) i) (a_to (qabs (mkQS true q))) c Hc) as HR.
  cbn [final qrun fold_left]. unfold qcall at 2.
  destruct (qual_step cf i (mkQS true q) c) as [[s1 res] ev]. cbn [fst].
  change (qabs (mkQS true q)) with (mkA true (a_to (qabs (mkQS true q)))) in HS.
  destruct (aut_step PQual cf (Nat.eqb (c_my cf) i) (mkA true (a_to (qabs (mkQS true q)))) c) as [A' k].
  cbn [fst] in HR. destruct HS as (I1 & Ab & Cl).
  destruct s1 as [r1 q1]. unfold qabs in Ab. cbn [qs_run qs_q] in Ab. rewrite <- Ab in HR. cbn in HR. subst r1.
  cbn [qs_q]. fold (qrun cf i q1 L).
  destruct res; try discriminate Cl; apply IH; assumption.
Qed.

Theorem qual_model_run i a0 L :
  (i < n)%nat -> seed_fails cf (SeedOk a0) = false -> forallb is_input L = true ->
  final (qual_step cf i) qual_init (CStart (SeedOk a0) :: L)
  = mkQS true (qrun cf i (q0 (fixpoly (c_t cf) a0) i) L).
Proof.
  intros Hi H HL. cbn [final qual_step qual_init qs_run qs_q].
  assert (E : q_start cf i false q_init (SeedOk a0) = (true, q0 (fixpoly (c_t cf) a0) i, ROk,
                 if Nat.eqb i my then start_events (fixpoly (c_t cf) a0) else [])).
  { unfold q0. destruct (Nat.eqb_spec i my) as [->|Hne]; [apply q_start_own; exact H|apply q_start_other; exact Hne]. }
  pose proof (qual_step_sim cf i Hmy qual_init (CStart (SeedOk a0)) (qual_init_inv cf i)) as HS.
  cbn [qual_step qual_init qs_run qs_q] in HS. rewrite E in *. cbn [qpack] in *.
  destruct (aut_step PQual cf (Nat.eqb (c_my cf) i) (qabs qual_init) (CStart (SeedOk a0))).
  destruct HS as (I1 & _). apply qual_final_qrun; assumption.
Qed.

(* ---------------------------------------------------------------------- *)
(* End: failure rule and sums over the per-dealer states                    *)
(* ---------------------------------------------------------------------- *)
(* the first step of End on one instance: a complaint never answered disqualifies the dealer *)
Definition endq (q : qinst) : qinst :=
  if negb (q_disq q) && unanswered cf (q_compl q) then qset_disq q true else q.

Lemma jend_loop_map : forall qs i0, same_to qs true true ->
  exists ev, jend_loop cf i0 qs = (map endq qs, ev, Some (length (filter q_disq (map endq qs)))).
Proof.
  induction qs as [|q qs IH]; intros i0 Hs; cbn [jend_loop map]; [eauto|].
  destruct (Hs q (or_introl eq_refl)) as [Est Ect]. rewrite Est, Ect. cbn [negb orb].
  destruct (IH (S i0)) as [ev E]; [intros q0' H0; apply Hs; right; exact H0|]. rewrite E.
  destruct (q_disq q) eqn:Ed; cbn [negb].
  - assert (Eq : endq q = q) by (unfold endq; rewrite Ed; reflexivity). rewrite Eq.
    cbn [filter]. rewrite Ed. cbn [length]. eexists. reflexivity.
  - destruct (unanswered cf (q_compl q)) eqn:Eu.
    + assert (Eq : endq q = qset_disq q true) by (unfold endq; rewrite Ed, Eu; reflexivity). rewrite Eq.
      cbn [filter qset_disq q_disq length]. eexists. reflexivity.
    + assert (Eq : endq q = q) by (unfold endq; rewrite Ed, Eu; reflexivity). rewrite Eq.
      cbn [filter]. rewrite Ed. eexists. reflexivity.
Qed.

(* End of Joint-Feldman on a running state whose instances all saw both timeouts *)
Theorem joint_end_link s :
  j_jrun s = true -> same_to (j_insts s) true true ->
  snd (fst (joint_end cf s)) = joint_outcome cf (map endq (j_insts s)) /\
  j_jrun (fst (fst (joint_end cf s))) = false.
Proof.
  intros Hj Hs. destruct (jend_loop_map (j_insts s) 0%nat Hs) as [ev E].
  split; [apply (joint_end_outcome cf s _ ev Hj E)|].
  unfold joint_end. rewrite Hj. cbn [negb]. rewrite E.
  repeat brk_goal; reflexivity.
Qed.

(* ---------------------------------------------------------------------- *)
(* input calls as the [item]s of the fact-set specification                 *)
(* ---------------------------------------------------------------------- *)
(* an index outside [0, n) is refused; it is represented by the out-of-range index n *)
Definition idx_of (o : Z) : nat := if in_range cf o then Z.to_nat o else n.

Definition item_of (c : call) : item :=
  match c with
  | CBroadcast o m => IB (idx_of o) m
  | CPrivate o m => IP (idx_of o) m
  | CForce j => IForce (idx_of j)
  | _ => ITimeout
  end.

Definition items_of (L : list call) : list item := map item_of L.

Lemma in_range_n : in_range cf (Z.of_nat n) = false.
Proof. unfold in_range. fold n. apply andb_false_iff. right. apply Z.ltb_ge. lia. Qed.

Lemma in_range_idx o : in_range cf (Z.of_nat (idx_of o)) = in_range cf o /\
  (in_range cf o = true -> Z.of_nat (idx_of o) = o).
Proof.
  unfold idx_of. destruct (in_range cf o) eqn:E.
  - assert (0 <= o) by (unfold in_range in E; apply andb_prop in E as [E _]; apply Z.leb_le in E; exact E).
    rewrite Z2Nat.id by assumption. auto.
  - split; [apply in_range_n|discriminate].
Qed.

Lemma qcall_item i q c : is_input c = true -> qcall cf i q c = fst (istep cf i q (item_of c)).
Proof.
  intro Hc. unfold istep, qcall.
  destruct c as [sd| | | |o m|o m|j]; try discriminate Hc; cbn [item_of call_of].
  - destruct (qual_step cf i (mkQS true q) CNextTimeout) as [[s' res] ev]. reflexivity.
  - destruct (in_range_idx o) as [E1 E2]. destruct (in_range cf o) eqn:Eo.
    + rewrite (E2 eq_refl). destruct (qual_step cf i (mkQS true q) (CBroadcast o m)) as [[s' res] ev]. reflexivity.
    + cbn [qual_step qs_run qs_q]. unfold q_broadcast. cbn [negb]. rewrite E1, Eo. reflexivity.
  - destruct (in_range_idx o) as [E1 E2]. destruct (in_range cf o) eqn:Eo.
    + rewrite (E2 eq_refl). destruct (qual_step cf i (mkQS true q) (CPrivate o m)) as [[s' res] ev]. reflexivity.
    + cbn [qual_step qs_run qs_q]. unfold q_private. cbn [negb]. rewrite E1, Eo. reflexivity.
  - destruct (in_range_idx j) as [E1 E2]. destruct (in_range cf j) eqn:Eo.
    + rewrite (E2 eq_refl). destruct (qual_step cf i (mkQS true q) (CForce j)) as [[s' res] ev]. reflexivity.
    + cbn [qual_step qs_run qs_q]. unfold q_force. cbn [negb]. rewrite E1, Eo. reflexivity.
Qed.

Lemma qrun_irun i : forall L q, forallb is_input L = true -> qrun cf i q L = irun cf i q (items_of L).
Proof.
  induction L as [|c L IH]; intros q HL; [reflexivity|].
  cbn [forallb] in HL. apply andb_prop in HL as [Hc HL].
  cbn [qrun fold_left items_of map irun]. rewrite (qcall_item i q c Hc). apply IH. exact HL.
Qed.

(* ---------------------------------------------------------------------- *)
(* the instances of the OTHER dealers: the refinement gives their data       *)
(* ---------------------------------------------------------------------- *)
Local Transparent fixpoly.
Lemma fixpoly_length t0 l : length (fixpoly t0 l) = S t0.
Proof.
  unfold fixpoly. rewrite firstn_length, app_length, map_length, repeat_length. lia.
Qed.
Local Opaque fixpoly.

(* the verdict and the vector participant [my] holds for dealer d after the inputs *)
Definition verdict_of (d : nat) (items : list item) : option (list Z) :=
  if PhiEnd cf d (annot items) then None else vecOk cf d (annot items).

Theorem nondealer_inst_rel d items :
  (d < n)%nat -> my <> d -> ph items = 2%nat ->
  inst_rel cf (endq (irun cf d q_init items)) (verdict_of d items).
Proof.
  intros Hd Hmd Hph. unfold verdict_of.
  pose proof (qual_refines_factset cf d Hmy Hd Hmd items) as [R1 R2].
  set (A := annot items) in *. set (q := irun cf d q_init items) in *.
  assert (Hn : nph A = 2%nat) by (unfold A; rewrite nph_annot; exact Hph).
  unfold PhiEnd, endq. destruct (q_disq q) eqn:Hq.
  - rewrite (R2 eq_refl). cbn. exact Hq.
  - destruct (R1 eq_refl) as [S P]. rewrite P. cbn [orb negb andb].
    rewrite (unanswered_abs cf d A q S).
    destruct (unansweredF cf d A) eqn:EU; [reflexivity|].
    destruct (Phi_false_inv cf d A P) as (_ & _ & _ & P4 & P5 & _).
    unfold noVec in P5. rewrite Hn in P5. cbn in P5.
    destruct (vecF d A) as [vb|] eqn:Ev; [|discriminate P5].
    unfold badVec in P4. rewrite Ev in P4. destruct vb as [|k|l]; try discriminate P4.
    assert (Evo : vecOk cf d A = Some (fixpoly (c_t cf) l)) by (unfold vecOk; rewrite Ev; reflexivity).
    rewrite Evo. destruct (sa_vok _ _ _ _ S _ Evo) as [EvA Ey].
    split; [exact Hq|]. split; [apply fixpoly_length|]. split; [apply fixpoly_cons|].
    split; [exact EvA|]. split; [exact Ey|].
    destruct (sa_x _ _ _ _ S _ Evo) as [Hx|[Hc Ha]]; [right; rewrite Hn; lia|exact Hx|].
    exfalso. unfold unansweredF in EU.
    pose proof (existsb_false_in _ _ (c_my cf) EU) as HU. cbn beta in HU. rewrite Hc, Ha in HU.
    assert (Hin : In (c_my cf) (seq 0 (c_n cf))) by (apply in_seq; lia). specialize (HU Hin). discriminate HU.
Qed.

(* ---------------------------------------------------------------------- *)
(* the OWN instance: the dealer side of the Qual handlers                   *)
(* ---------------------------------------------------------------------- *)
Section Own.
Variable a : list Z.
Hypothesis Ha : exists a0 al, a = a0 :: al.

(* the number of participants that broadcast a valid complaint against [my] in time *)
Definition dcount (A : alist) : nat := length (filter (compF cf my A) (seq 0 n)).
(* the dealer disqualifies itself: forced, or more than t complaints at the second timeout *)
Definition DPhi (A : alist) : bool :=
  forced my A || (Nat.leb 2 (nph A) && Nat.ltb (c_t cf) (dcount A)).

Record DInv (A : alist) (q : qinst) : Prop := mkDI {
  di_v : q_v q = started_v a;
  di_st : q_st q = Nat.leb 1 (nph A);
  di_ct : q_ct q = Nat.leb 2 (nph A);
  di_c : forall c, q_compl q c = if compF cf my A c then Some (mkC true true 0) else None;
  di_phi : DPhi A = false }.

Definition DRef (A : alist) (q : qinst) : Prop :=
  (q_disq q = false -> DInv A q) /\ (q_disq q = true -> DPhi A = true).

Lemma filter_length_le {X} (f g : X -> bool) l :
  (forall x, f x = true -> g x = true) -> (length (filter f l) <= length (filter g l))%nat.
Proof.
  intro H. induction l as [|x l IH]; cbn; [lia|].
  destruct (f x) eqn:Ef; [rewrite (H x Ef); cbn; lia|]. destruct (g x); cbn; lia.
Qed.

Lemma nph_mono A k x : (nph A <= nph (A ++ [(k, x)]))%nat.
Proof. rewrite nph_app. destruct (is_timeout x); [unfold nph; lia|lia]. Qed.

Lemma DPhi_mono A k x : DPhi A = true -> DPhi (A ++ [(k, x)]) = true.
Proof.
  unfold DPhi. intro H. apply orb_true_iff in H as [H|H].
  - rewrite forced_app, H. reflexivity.
  - apply andb_prop in H as [H1 H2]. apply orb_true_iff. right. apply andb_true_intro. split.
    + apply Nat.leb_le in H1. apply Nat.leb_le. pose proof (nph_mono A k x). lia.
    + apply Nat.ltb_lt in H2. apply Nat.ltb_lt. unfold dcount in *.
      eapply Nat.lt_le_trans; [exact H2|]. apply filter_length_le.
      intros c Hc. rewrite compF_app, Hc. reflexivity.
Qed.

Lemma DRef_ext A B q :
  (forall c, compF cf my B c = compF cf my A c) -> nph B = nph A -> forced my B = forced my A ->
  DRef A q -> DRef B q.
Proof.
  intros EC EN EF [R1 R2].
  assert (EP : DPhi B = DPhi A).
  { unfold DPhi, dcount. rewrite EF, EN. rewrite (filter_ext _ _ EC). reflexivity. }
  split; intro Hq.
  - destruct (R1 Hq) as [I1 I2 I3 I4 I5]. constructor; auto; try (rewrite EN; assumption).
    + intro c. rewrite EC. apply I4.
    + rewrite EP. exact I5.
  - rewrite EP. auto.
Qed.

Lemma DRef_same' A q k x :
  DRef A q -> is_timeout x = false ->
  (forall c, comp_of cf my c k x = true -> compF cf my A c = true) ->
  match x with IForce j => Nat.eqb j my | _ => false end = false ->
  DRef (A ++ [(k, x)]) q.
Proof.
  intros [R1 R2] Ht Hc Hf.
  assert (EC : forall c, compF cf my (A ++ [(k, x)]) c = compF cf my A c).
  { intro c. rewrite compF_app. destruct (comp_of cf my c k x) eqn:E; [rewrite (Hc c E); reflexivity|apply orb_false_r]. }
  assert (EN : nph (A ++ [(k, x)]) = nph A) by (rewrite nph_app, Ht; reflexivity).
  assert (EP : DPhi (A ++ [(k, x)]) = DPhi A).
  { unfold DPhi, dcount. rewrite forced_app, Hf, orb_false_r, EN. rewrite (filter_ext _ _ EC). reflexivity. }
  split; intro Hq.
  - destruct (R1 Hq) as [I1 I2 I3 I4 I5]. constructor; auto; try (rewrite EN; assumption).
    + intro c. rewrite EC. apply I4.
    + rewrite EP. exact I5.
  - rewrite EP. auto.
Qed.

Lemma DRef_same A q k x :
  DRef A q -> is_timeout x = false -> (forall c, comp_of cf my c k x = false) ->
  match x with IForce j => Nat.eqb j my | _ => false end = false ->
  DRef (A ++ [(k, x)]) q.
Proof.
  intros R Ht Hc Hf. apply DRef_same'; auto. intros c H. rewrite Hc in H. discriminate H.
Qed.

Lemma nph_timeout A k : nph (A ++ [(k, ITimeout)]) = Nat.min 2 (S (nph A)).
Proof. rewrite nph_app. cbn [is_timeout]. unfold nph. lia. Qed.

Lemma ncompl_count A m :
  (forall c, m c = if compF cf my A c then Some (mkC true true 0) else None) ->
  ncompl cf m = dcount A.
Proof.
  intro H. unfold ncompl, dcount. f_equal. apply filter_ext. intro c. rewrite H.
  destruct (compF cf my A c); reflexivity.
Qed.

Lemma complaint_of_true c k o m : complaint_of cf my c k o m = true ->
  exists b, m = MComplaint (CIdx b) /\ o = c /\ c <> my /\ (c < n)%nat /\ b < Z.of_nat n /\
            Z.to_nat b = my /\ (k < 2)%nat.
Proof.
  unfold complaint_of. destruct m as [| | |[|b]| |]; try discriminate. intro H.
  repeat (apply andb_prop in H as [H ?]).
  exists b. split; [reflexivity|].
  repeat match goal with
  | H : negb _ = true |- _ => apply negb_true_iff in H
  | H : Nat.eqb _ _ = true |- _ => apply Nat.eqb_eq in H
  | H : Nat.eqb _ _ = false |- _ => apply Nat.eqb_neq in H
  | H : Nat.ltb _ _ = true |- _ => apply Nat.ltb_lt in H
  | H : Z.leb _ _ = false |- _ => apply Z.leb_gt in H
  end. repeat split; auto.
Qed.

Lemma complaint_of_valid c k o b :
  o <> my -> (o < n)%nat -> b < Z.of_nat n -> Z.to_nat b = my -> (k < 2)%nat ->
  complaint_of cf my c k o (MComplaint (CIdx b)) = Nat.eqb o c.
Proof.
  intros H1 H2 H3 H4 H5. unfold complaint_of. destruct (Nat.eqb_spec o c) as [E|E]; [|reflexivity]. subst c.
  unfold my, n in *.
  apply Nat.eqb_neq in H1. rewrite H1. apply Nat.ltb_lt in H2. rewrite H2.
  apply Z.leb_gt in H3. rewrite H3. apply Nat.eqb_eq in H4. rewrite H4. apply Nat.ltb_lt in H5. rewrite H5. reflexivity.
Qed.

Ltac cof_false :=
  let E := fresh "E" in
  match goal with |- complaint_of ?cf ?d ?c ?k ?o ?m = false =>
    destruct (complaint_of cf d c k o m) eqn:E; [exfalso; apply complaint_of_true in E;
      destruct E as (b' & Em & Eoc & Ecm & Ecn & Ebn & Ebm & Ek)|reflexivity] end.

Lemma own_step A q x : DRef A q -> DRef (A ++ [(nph A, x)]) (fst (istep cf my q x)).
Proof.
  intros R. destruct (q_disq q) eqn:Hq.
  { split; intro H'; [rewrite (istep_disq cf my q x Hq) in H'; discriminate H'|].
    apply DPhi_mono. apply R. exact Hq. }
  pose proof R as [R1 _]. destruct (R1 Hq) as [I1 I2 I3 I4 I5].
  destruct x as [o m|o m| |j]; unfold istep; cbn [call_of qual_step qs_run qs_q].
  - unfold q_broadcast. cbn [negb]. destruct (in_range cf (Z.of_nat o)) eqn:Eo; cbn [negb].
    2:{ cbn [qpack fst qs_q]. apply DRef_same; auto. intro c. cbn [comp_of]. cof_false.
        unfold in_range in Eo. unfold n in *. lia. }
    assert (Hon : (o < n)%nat) by (unfold in_range in Eo; unfold n in *; lia).
    rewrite Nat2Z.id. fold my. destruct (Nat.eqb_spec my o) as [Emo|Emo].
    { cbn [qpack fst qs_q]. apply DRef_same; auto. intro c. cbn [comp_of]. cof_false. congruence. }
    rewrite Hq. assert (Eom : Nat.eqb o my = false) by (apply Nat.eqb_neq; auto).
    destruct m as [| | vb | cb | ab |]; rewrite ?Eom; cbn [qpack fst qs_q qlift].
    1,2,6: (apply DRef_same; auto; intro c; reflexivity).
    { unfold q_receive_vector. rewrite Eom. cbn [negb qpack fst qs_q qlift].
      apply DRef_same; auto; intro c; reflexivity. }
    2:{ unfold q_receive_answer. rewrite Eom. cbn [negb qpack fst qs_q qlift].
      apply DRef_same; auto; intro c; reflexivity. }
    unfold q_receive_complaint. rewrite I3. fold my. rewrite Eom.
    destruct (Nat.leb_spec 2 (nph A)) as [H2|H2].
    { cbn [qpack fst qs_q qlift]. apply DRef_same; auto. intro c. cbn [comp_of]. cof_false. lia. }
    destruct cb as [|b].
    { cbn [qpack fst qs_q qlift]. apply DRef_same; auto. }
    fold n. destruct (Z.leb_spec (Z.of_nat n) b) as [Hb|Hb].
    { cbn [qpack fst qs_q qlift]. apply DRef_same; auto. intro c. cbn [comp_of]. cof_false.
      inversion Em; subst b'. unfold n in *. lia. }
    destruct (Nat.eqb_spec (Z.to_nat b) my) as [Hbm|Hbm]; cbn [negb].
    2:{ cbn [qpack fst qs_q qlift]. apply DRef_same; auto. intro c. cbn [comp_of]. cof_false.
      inversion Em; subst b'. contradiction. }
    assert (Hk : (nph A < 2)%nat) by lia.
    rewrite (I4 o). destruct (compF cf my A o) eqn:Eco; cbn [c_recv qpack fst qs_q qlift].
    { apply DRef_same'; auto. intros c Hc. cbn [comp_of] in Hc.
      rewrite (complaint_of_valid c (nph A) o b) in Hc; auto. apply Nat.eqb_eq in Hc. subst c. exact Eco. }
    rewrite Nat.eqb_refl. unfold build_answer. cbn [qset_compl q_v q_compl]. rewrite I1. cbn [started_v v_a].
    destruct Ha as (a0 & al & Ea). rewrite Ea at 1. unfold upd at 1. rewrite Nat.eqb_refl.
    cbn [c_recv c_val qpack fst qs_q qlift].
    assert (EN : nph (A ++ [(nph A, IB o (MComplaint (CIdx b)))]) = nph A) by (rewrite nph_app; reflexivity).
    apply orb_false_elim in I5 as [I5 _].
    split; cbn [qset_compl q_disq q_v q_st q_ct q_compl]; intro Hq'; [|rewrite Hq in Hq'; discriminate Hq'].
    constructor; cbn [qset_compl q_disq q_v q_st q_ct q_compl]; try (rewrite EN; assumption); auto.
    + rewrite EN, I3. symmetry. apply Nat.leb_gt. lia.
    + intro c. rewrite compF_app. cbn [comp_of]. rewrite (complaint_of_valid c (nph A) o b); auto.
      unfold upd. rewrite (Nat.eqb_sym c o). destruct (Nat.eqb o c); [rewrite orb_true_r; reflexivity|].
      rewrite orb_false_r. apply I4.
    + unfold DPhi. rewrite forced_app, I5, EN. apply Nat.leb_gt in Hk. rewrite Hk. reflexivity.
  - unfold q_private. cbn [negb]. destruct (in_range cf (Z.of_nat o)) eqn:Eo; cbn [negb].
    2:{ cbn [qpack fst qs_q]. apply DRef_same; auto. }
    rewrite Nat2Z.id. fold my. destruct (Nat.eqb_spec my o) as [Emo|Emo].
    { cbn [qpack fst qs_q]. apply DRef_same; auto. }
    rewrite Hq. assert (Eom : Nat.eqb o my = false) by (apply Nat.eqb_neq; auto).
    unfold q_receive_share. rewrite Eom. cbn [negb qpack fst qs_q qlift]. apply DRef_same; auto.
  - unfold q_next_timeout. cbn [negb]. rewrite I3, Hq, I2.
    destruct (Nat.leb_spec 2 (nph A)) as [H2|H2].
    { cbn [qpack fst qs_q]. apply (DRef_ext A); auto.
      - intro c. rewrite compF_app. apply orb_false_r.
      - rewrite nph_app. cbn [is_timeout]. unfold nph in *. lia.
      - rewrite forced_app. apply orb_false_r. }
    assert (EC : forall c, compF cf my (A ++ [(nph A, ITimeout)]) c = compF cf my A c)
      by (intro c; rewrite compF_app; apply orb_false_r).
    assert (EF : forced my (A ++ [(nph A, ITimeout)]) = forced my A)
      by (rewrite forced_app; apply orb_false_r).
    assert (ED : dcount (A ++ [(nph A, ITimeout)]) = dcount A)
      by (unfold dcount; rewrite (filter_ext _ _ EC); reflexivity).
    apply orb_false_elim in I5 as [I5 _].
    destruct (Nat.leb_spec 1 (nph A)) as [H1|H1]; cbn [negb].
    + assert (EN : nph (A ++ [(nph A, ITimeout)]) = 2%nat) by (rewrite nph_timeout; lia).
      unfold set_complaints_timeout. cbn [qset_ct q_compl]. rewrite (ncompl_count A _ I4).
      destruct (Nat.ltb (c_t cf) (dcount A)) eqn:Et; cbn [qpack fst qs_q].
      * split; cbn [qset_ct qset_disq q_disq]; intro Hq'; [discriminate Hq'|].
        unfold DPhi. rewrite EN, ED, Et. apply orb_true_r.
      * split; cbn [qset_ct qset_disq q_disq]; intro Hq'; [|rewrite Hq in Hq'; discriminate Hq'].
        constructor; cbn [qset_ct q_disq q_v q_st q_ct q_compl]; try rewrite EN; auto.
        all: try (intro c; rewrite EC; apply I4).
        unfold DPhi. rewrite EF, I5, EN, ED, Et. reflexivity.
    + assert (EN : nph (A ++ [(nph A, ITimeout)]) = 1%nat) by (rewrite nph_timeout; lia).
      unfold set_shares_timeout. cbn [qset_st q_v]. rewrite I1. cbn [started_v v_vArecv v_xrecv negb qlift qpack fst qs_q].
      split; cbn [qset_st qset_disq q_disq]; intro Hq'; [|rewrite Hq in Hq'; discriminate Hq'].
      constructor; cbn [qset_st q_disq q_v q_st q_ct q_compl]; try rewrite EN; auto.
      all: try (intro c; rewrite EC; apply I4).
      unfold DPhi. rewrite EF, I5, EN. reflexivity.
  - unfold q_force. cbn [negb]. destruct (in_range cf (Z.of_nat j)) eqn:Ej; cbn [negb].
    2:{ cbn [qpack fst qs_q]. apply DRef_same; auto. apply Nat.eqb_neq. intro E.
        unfold in_range in Ej. unfold n, my in *. lia. }
    rewrite Nat2Z.id. destruct (Nat.eqb j my) eqn:Ejm; cbn [qpack fst qs_q].
    + split; cbn [qset_disq q_disq]; intro Hq'; [discriminate Hq'|].
      unfold DPhi. rewrite forced_app, Ejm. rewrite orb_true_r. reflexivity.
    + apply DRef_same; auto.
Qed.

Lemma DRef_init : DRef [] (q_own a).
Proof.
  split; cbn; intro H; [|discriminate H]. constructor; cbn; auto.
Qed.

Lemma own_refines : forall items, DRef (annot items) (irun cf my (q_own a) items).
Proof.
  intro L. rewrite <- (rev_involutive L). induction (rev L) as [|x K IH]; cbn [rev].
  - exact DRef_init.
  - rewrite annot_app. unfold irun. rewrite fold_left_app. cbn [fold_left]. apply own_step. exact IH.
Qed.

Lemma existsb_all_false {X} (f : X -> bool) l : (forall x, f x = false) -> existsb f l = false.
Proof. intro H. induction l as [|x l IH]; cbn; [reflexivity|]. rewrite H, IH. reflexivity. Qed.

(* the own instance at End: the dealer's data, or disqualified by the dealer-side rule *)
Definition own_verdict (items : list item) : option (list Z) :=
  if DPhi (annot items) then None else Some a.

Theorem own_inst_rel items :
  length a = S (c_t cf) ->
  inst_rel cf (endq (irun cf my (q_own a) items)) (own_verdict items).
Proof.
  intros Hl. unfold own_verdict. destruct (own_refines items) as [R1 R2].
  set (q := irun cf my (q_own a) items) in *. unfold endq.
  destruct (q_disq q) eqn:Hq.
  - rewrite (R2 eq_refl). cbn. exact Hq.
  - destruct (R1 eq_refl) as [I1 I2 I3 I4 I5]. rewrite I5. cbn [negb andb].
    assert (EU : unanswered cf (q_compl q) = false).
    { unfold unanswered. apply existsb_all_false. intro c. rewrite I4.
      destruct (compF cf my (annot items) c); reflexivity. }
    rewrite EU. cbn [inst_rel]. unfold inst_good. rewrite I1. cbn [started_v v_vA v_y v_x]. repeat split; auto.
Qed.

(* what the own instance emits after Start: no private message, and only correct answers
   (the share P(c+1) of a complainer c) as broadcasts; EvFlag / EvDisq are local *)
Definition own_event_ok (e : event) : Prop :=
  match e with
  | EvBcast m => exists c, (c < n)%nat /\ c <> my /\ m = MAnswer (AVal (Z.of_nat c) (share_of a c))
  | EvSend _ _ => False
  | _ => True
  end.

Lemma own_step_events A q x : DRef A q -> Forall own_event_ok (snd (istep cf my q x)).
Proof.
  intros R. destruct x as [o m|o m| |j]; unfold istep; cbn [call_of qual_step qs_run qs_q].
  - unfold q_broadcast. cbn [negb]. destruct (in_range cf (Z.of_nat o)) eqn:Eo; cbn [negb qpack snd]; [|constructor].
    assert (Hon : (o < n)%nat) by (unfold in_range in Eo; unfold n in *; lia).
    rewrite Nat2Z.id. fold my. destruct (Nat.eqb_spec my o) as [Emo|Emo]; cbn [qpack snd]; [constructor|].
    destruct (q_disq q) eqn:Hq; cbn [qpack snd]; [constructor|].
    pose proof R as [R1 _]. destruct (R1 Hq) as [I1 I2 I3 I4 I5].
    assert (Eom : Nat.eqb o my = false) by (apply Nat.eqb_neq; auto).
    destruct m as [| | vb | cb | ab |]; rewrite ?Eom; cbn [qpack snd qlift]; try (repeat constructor; fail).
    + unfold q_receive_vector. rewrite Eom. cbn [negb qpack snd qlift]. constructor.
    + unfold q_receive_complaint. fold my. rewrite Eom.
      destruct (q_ct q); cbn [qpack snd qlift]; [repeat constructor|].
      destruct cb as [|b]; cbn [qpack snd qlift]; [constructor|].
      destruct (Z.of_nat (c_n cf) <=? b); cbn [qpack snd qlift]; [constructor|].
      destruct (Nat.eqb (Z.to_nat b) my); cbn [negb qpack snd qlift]; [|constructor].
      rewrite (I4 o). destruct (compF cf my A o); cbn [c_recv qpack snd qlift]; [repeat constructor|].
      rewrite Nat.eqb_refl. unfold build_answer. cbn [qset_compl q_v q_compl]. rewrite I1. cbn [started_v v_a].
      destruct Ha as (a0 & al & Ea). rewrite Ea at 1. unfold upd at 1. rewrite Nat.eqb_refl.
      cbn [c_recv c_val qpack snd qlift]. constructor; [|constructor].
      exists o. split; [exact Hon|]. split; [auto|reflexivity].
    + unfold q_receive_answer. rewrite Eom. cbn [negb qpack snd qlift]. constructor.
  - unfold q_private. cbn [negb]. destruct (in_range cf (Z.of_nat o)) eqn:Eo; cbn [negb qpack snd]; [|constructor].
    rewrite Nat2Z.id. fold my. destruct (Nat.eqb_spec my o) as [Emo|Emo]; cbn [qpack snd]; [constructor|].
    destruct (q_disq q) eqn:Hq; cbn [qpack snd]; [constructor|].
    assert (Eom : Nat.eqb o my = false) by (apply Nat.eqb_neq; auto).
    unfold q_receive_share. rewrite Eom. cbn [negb qpack snd qlift]. constructor.
  - unfold q_next_timeout. cbn [negb]. destruct (q_ct q); cbn [qpack snd]; [constructor|].
    destruct (q_disq q) eqn:Hq.
    { destruct (negb (q_st q)); cbn [qpack snd]; constructor. }
    pose proof R as [R1 _]. destruct (R1 Hq) as [I1 I2 I3 I4 I5].
    destruct (q_st q); cbn [negb].
    + unfold set_complaints_timeout. destruct (Nat.ltb _ _); cbn [qpack snd]; repeat constructor.
    + unfold set_shares_timeout. cbn [qset_st q_v]. rewrite I1. cbn [started_v v_vArecv v_xrecv negb qlift qpack snd]. constructor.
  - unfold q_force. cbn [negb]. destruct (in_range cf (Z.of_nat j)); cbn [negb qpack snd]; [|constructor].
    destruct (Nat.eqb _ _); cbn [qpack snd]; constructor.
Qed.

Theorem own_events_ok : forall items,
  Forall own_event_ok (irun_events cf my (q_own a) items).
Proof.
  assert (G : forall L q A, DRef A q -> Forall own_event_ok (irun_events cf my q L)).
  { induction L as [|x L IH]; intros q A R; cbn [irun_events]; [constructor|].
    apply Forall_app. split; [apply (own_step_events A); exact R|].
    apply (IH _ (A ++ [(nph A, x)])). apply own_step. exact R. }
  intro items. apply (G items _ []). exact DRef_init.
Qed.

End Own.

(* ---------------------------------------------------------------------- *)
(* the timeout flags of every instance count the NextTimeout calls          *)
(* ---------------------------------------------------------------------- *)
Lemma irun_flags_gen d q1 :
  qinv cf d (mkQS true q1) -> q_st q1 = false -> q_ct q1 = false -> forall L,
  qinv cf d (mkQS true (irun cf d q1 L)) /\
  (b2n (q_st (irun cf d q1 L)) + b2n (q_ct (irun cf d q1 L)))%nat = ph L.
Proof.
  intros Hinv Hs Hc L. rewrite <- (rev_involutive L). induction (rev L) as [|x K IH]; cbn [rev].
  - split; [exact Hinv|]. cbn [irun fold_left]. rewrite Hs, Hc. reflexivity.
  - destruct IH as [IH1 IH2]. unfold irun. rewrite fold_left_app. cbn [fold_left]. fold (irun cf d q1 (rev K)).
    set (q := irun cf d q1 (rev K)) in *.
    pose proof (qual_step_sim cf d Hmy (mkQS true q) (call_of x) IH1) as HS.
    rewrite istep_as_step. cbn [fst].
    destruct (qual_step cf d (mkQS true q) (call_of x)) as [[s' res] ev]. cbn [fst snd].
    unfold qabs in HS at 1. cbn [qs_run qs_q] in HS. rewrite IH2 in HS.
    rewrite ph_app.
    assert (Hcnt : ph (rev K) = Nat.min 2 (length (filter is_timeout (rev K)))) by reflexivity.
    destruct x as [o m|o m| |j]; cbn [call_of aut_step a_run a_to has_timeouts negb is_timeout] in HS |- *.
    + destruct (in_range cf (Z.of_nat o)); cbn in HS; destruct HS as (I & Ab & _); destruct s' as [r' q'];
        unfold qabs in Ab; cbn in Ab; inversion Ab; subst; split; auto.
    + destruct (in_range cf (Z.of_nat o)); cbn in HS; destruct HS as (I & Ab & _); destruct s' as [r' q'];
        unfold qabs in Ab; cbn in Ab; inversion Ab; subst; split; auto.
    + destruct (Nat.leb_spec 2 (ph (rev K))) as [H2|H2]; cbn in HS; destruct HS as (I & Ab & _); destruct s' as [r' q'];
        unfold qabs in Ab; cbn in Ab; inversion Ab; subst; (split; [auto|]); cbn [qs_q]; rewrite Hcnt in *; lia.
    + destruct (in_range cf (Z.of_nat j)); cbn in HS; destruct HS as (I & Ab & _); destruct s' as [r' q'];
        unfold qabs in Ab; cbn in Ab; inversion Ab; subst; split; auto.
Qed.

Lemma q0_flags a0 i items :
  seed_fails cf (SeedOk a0) = false -> (i < n)%nat -> ph items = 2%nat ->
  let q := irun cf i (q0 (fixpoly (c_t cf) a0) i) items in q_st q = true /\ q_ct q = true.
Proof.
  intros H Hi Hph q.
  destruct (started_inv a0 H) as (_ & J2 & _).
  specialize (J2 i _ (started_nth _ i Hi)). destruct J2 as [W Ao].
  assert (Hinv : qinv cf i (mkQS true (q0 (fixpoly (c_t cf) a0) i))).
  { split; [exact W|]. intros E _. apply Ao; [reflexivity|exact E]. }
  assert (F : q_st (q0 (fixpoly (c_t cf) a0) i) = false /\ q_ct (q0 (fixpoly (c_t cf) a0) i) = false)
    by (unfold q0; destruct (Nat.eqb i my); split; reflexivity).
  destruct F as [F1 F2].
  destruct (irun_flags_gen i _ Hinv F1 F2 items) as [_ E]. fold q in E. rewrite Hph in E.
  destruct (q_st q), (q_ct q); cbn in E; try discriminate E; auto.
Qed.

(* ---------------------------------------------------------------------- *)
(* one participant: Start, any input calls with both timeouts, End           *)
(* ---------------------------------------------------------------------- *)
(* the per-dealer verdicts of participant [my]: its own instance follows the dealer-side
   rule, the others the fact-set specification *)
Definition verdicts (a0 : list Z) (L : list call) : list (option (list Z)) :=
  map (fun d => if Nat.eqb d my then own_verdict (fixpoly (c_t cf) a0) (items_of L)
                else verdict_of d (items_of L)) (seq 0 n).

Lemma Forall2_map_seq {X Y} (R : X -> Y -> Prop) (f : nat -> X) (g : nat -> Y) k m :
  (forall d, (k <= d < k + m)%nat -> R (f d) (g d)) -> Forall2 R (map f (seq k m)) (map g (seq k m)).
Proof.
  revert k. induction m as [|m IH]; intros k H; cbn; constructor.
  - apply H. lia.
  - apply IH. intros d Hd. apply H. lia.
Qed.

Lemma nth_error_seq' m : forall s k, (k < m)%nat -> nth_error (seq s m) k = Some (s + k)%nat.
Proof.
  induction m as [|m IH]; intros s k H; [lia|]. destruct k; cbn; [f_equal; lia|].
  rewrite IH by lia. f_equal. lia.
Qed.

Lemma insts_as_map a0 L :
  seed_fails cf (SeedOk a0) = false -> forallb is_input L = true ->
  j_insts (final (joint_step cf) (joint_init cf) (CStart (SeedOk a0) :: L))
  = map (fun i => irun cf i (q0 (fixpoly (c_t cf) a0) i) (items_of L)) (seq 0 n).
Proof.
  intros H HL. destruct (joint_instances a0 L H HL) as (_ & _ & Ln & Hn & _).
  apply list_eq_nth. intro k. destruct (Nat.lt_ge_cases k n) as [Hk|Hk].
  - rewrite (Hn k Hk). rewrite (qrun_irun k L _ HL).
    rewrite nth_error_map. rewrite (nth_error_seq' n 0 k Hk). reflexivity.
  - rewrite (proj2 (nth_error_None _ _)) by lia.
    symmetry. apply nth_error_None. rewrite map_length, seq_length. exact Hk.
Qed.

(* C07 joint link, one participant: the result of End after Start(seed) and the input calls L
   is the failure / sum rule over per-dealer states that satisfy the per-dealer verdicts *)
Theorem joint_run_end a0 L :
  seed_fails cf (SeedOk a0) = false -> forallb is_input L = true -> ph (items_of L) = 2%nat ->
  let s := final (joint_step cf) (joint_init cf) (CStart (SeedOk a0) :: L) in
  snd (fst (joint_step cf s CEnd)) = joint_outcome cf (map endq (j_insts s)) /\
  j_jrun (fst (fst (joint_step cf s CEnd))) = false /\
  Forall2 (inst_rel cf) (map endq (j_insts s)) (verdicts a0 L).
Proof.
  intros H HL Hph s. cbn [joint_step].
  destruct (joint_instances a0 L H HL) as (Jr & _).
  pose proof (insts_as_map a0 L H HL) as EI. fold s in Jr, EI.
  assert (Hs : same_to (j_insts s) true true).
  { intros q Hq. rewrite EI in Hq. apply in_map_iff in Hq as (i & <- & Hi). apply in_seq in Hi.
    apply (q0_flags a0 i (items_of L) H); [lia|exact Hph]. }
  destruct (joint_end_link s Jr Hs) as [E1 E2]. split; [exact E1|]. split; [exact E2|].
  rewrite EI, map_map. unfold verdicts. apply Forall2_map_seq. intros d Hd. cbn beta.
  unfold q0. destruct (Nat.eqb_spec d my) as [->|Hne].
  - apply own_inst_rel; [apply fixpoly_cons|apply fixpoly_length].
  - apply nondealer_inst_rel; [lia| intro E; apply Hne; symmetry; exact E|exact Hph].
Qed.

End Link.

(* ---------------------------------------------------------------------- *)
(* two honest participants on a network                                     *)
(* ---------------------------------------------------------------------- *)
(* what participant k receives from and about an HONEST dealer d (polynomial a, own inputs
   Id), in the style of [admissible]: d's broadcasts and private share as delivered to k are
   those of the dealer model; ForceDisqualify(d) is called nowhere; the complainers k counts
   (a complaint, or d's answer to it) are those whose complaint reached d in time; every
   answer of d arrived before End *)
Definition honest_dealer_view (n t d k : nat) (a : list Z) (Id Ik : list item) : Prop :=
  honest_dealer_log (cfg_of n t k) d a (annot Ik) /\
  forced d (annot Id) = false /\
  (forall c, keyF (cfg_of n t k) d (annot Ik) c = compF (cfg_of n t d) d (annot Id) c) /\
  unansweredF (cfg_of n t k) d (annot Ik) = false.

Lemma honest_dealer_view_verdict n t d k a Id Ik :
  (d < n)%nat -> (k < n)%nat -> k <> d -> ph Id = 2%nat -> ph Ik = 2%nat ->
  honest_dealer_view n t d k a Id Ik ->
  verdict_of (cfg_of n t k) d Ik = own_verdict (cfg_of n t d) a Id.
Proof.
  intros Hd Hk Hkd Hpd Hpk (HL & HF & HK & HU).
  unfold verdict_of, own_verdict. rewrite (hd_vecOk _ _ _ _ HL).
  assert (ET : tooMany (cfg_of n t k) d (annot Ik)
               = (Nat.leb 2 (nph (annot Id)) && Nat.ltb t (dcount (cfg_of n t d) (annot Id)))).
  { unfold tooMany, nkeys, dcount. rewrite !nph_annot, Hpd, Hpk. cbn [cfg_of c_t c_n c_my].
    rewrite (filter_ext _ _ HK). reflexivity. }
  assert (ED : DPhi (cfg_of n t d) (annot Id) = tooMany (cfg_of n t k) d (annot Ik)).
  { unfold DPhi. cbn [cfg_of c_t c_n c_my]. rewrite HF, ET. reflexivity. }
  rewrite ED. destruct (tooMany (cfg_of n t k) d (annot Ik)) eqn:E.
  - unfold PhiEnd, Phi. rewrite E. rewrite ?orb_true_r. reflexivity.
  - rewrite (honest_dealer_clean (cfg_of n t k) d Hk Hd Hkd a (annot Ik) HL E HU). reflexivity.
Qed.

Section TwoHonest.
Variables n t i j : nat.
Hypothesis Hi : (i < n)%nat.
Hypothesis Hj : (j < n)%nat.
Hypothesis Hij : i <> j.
(* the seeds and the calls made between Start and End *)
Variables si sj : list Z.
Variables Li Lj : list call.
Let cfi := cfg_of n t i.
Let cfj := cfg_of n t j.
Hypothesis Hsi : seed_fails cfi (SeedOk si) = false.
Hypothesis Hsj : seed_fails cfj (SeedOk sj) = false.
Hypothesis HLi : forallb is_input Li = true.
Hypothesis HLj : forallb is_input Lj = true.
Let Ii := items_of cfi Li.
Let Ij := items_of cfj Lj.
(* both timeouts elapsed at both participants *)
Hypothesis Hpi : ph Ii = 2%nat.
Hypothesis Hpj : ph Ij = 2%nat.
Let inputs (k : nat) : list item := if Nat.eqb k i then Ii else Ij.
(* the network, for the instances of the other dealers (honest or not) ... *)
Hypothesis Hthird : forall d, (d < n)%nat -> d <> i -> d <> j -> admissible n t d [i; j] inputs.
(* ... and for the instances of the two honest participants themselves *)
Hypothesis Hvi : honest_dealer_view n t i j (fixpoly t si) Ii Ij.
Hypothesis Hvj : honest_dealer_view n t j i (fixpoly t sj) Ij Ii.

Lemma inputs_i : inputs i = Ii.
Proof. unfold inputs. rewrite Nat.eqb_refl. reflexivity. Qed.
Lemma inputs_j : inputs j = Ij.
Proof. unfold inputs. destruct (Nat.eqb_spec j i) as [E|_]; [exfalso; apply Hij; symmetry; exact E|reflexivity]. Qed.

(* the two participants reach the same verdict and the same vector for every dealer *)
Lemma verdicts_agree : verdicts cfj sj Lj = verdicts cfi si Li.
Proof.
  unfold verdicts. cbn [cfi cfj cfg_of c_n c_t c_my]. apply map_ext_in. intros d Hd. apply in_seq in Hd.
  fold cfi cfj Ii Ij.
  destruct (Nat.eqb_spec d i) as [->|Hdi].
  - destruct (Nat.eqb_spec i j) as [E|_]; [contradiction|].
    apply (honest_dealer_view_verdict n t i j _ Ii Ij Hi Hj); auto.
  - destruct (Nat.eqb_spec d j) as [->|Hdj].
    + symmetry. apply (honest_dealer_view_verdict n t j i _ Ij Ii Hj Hi); auto.
    + assert (Hd' : (d < n)%nat) by lia.
      pose proof (Hthird d Hd' Hdi Hdj) as Hadm.
      assert (Ini : In i [i; j]) by (left; reflexivity).
      assert (Inj : In j [i; j]) by (right; left; reflexivity).
      pose proof (agreement_disqualified n t d [i; j] inputs Hadm j i Inj Ini) as EP.
      cbn beta in EP. rewrite inputs_i, inputs_j in EP.
      destruct Hadm as (_ & H1 & _). specialize (H1 j i Inj Ini). rewrite inputs_i, inputs_j in H1.
      change (PhiEnd cfj d (annot Ij) = PhiEnd cfi d (annot Ii)) in EP.
      unfold verdict_of. rewrite EP. unfold vecOk. rewrite !vecF_bview, H1. reflexivity.
Qed.

(* C07 agreement on Joint-Feldman network executions: the results of End at two honest
   participants after Start(seed) and any input calls, under the network hypotheses above:
   both fail, or both return the same group key and the same public shares, each with its own
   share of the summed polynomial S of the dealers both kept.  As in the code, a participant
   whose own summed share is zero returns a failure alone; that case is excluded by the two
   explicit hypotheses on S. *)
Theorem joint_agreement_on_runs :
  let end_i := final (joint_step cfi) (joint_init cfi) (CStart (SeedOk si) :: Li) in
  let end_j := final (joint_step cfj) (joint_init cfj) (CStart (SeedOk sj) :: Lj) in
  let res_i := snd (fst (joint_step cfi end_i CEnd)) in
  let res_j := snd (fst (joint_step cfj end_j CEnd)) in
  let S := psum t (somes (verdicts cfi si Li)) in
  peval S (Z.of_nat i + 1) <> 0 -> peval S (Z.of_nat j + 1) <> 0 ->
  (res_i = RFailure /\ res_j = RFailure) \/
  (exists x x' ys,
     res_i = RKeys x (peval S 0) ys /\ res_j = RKeys x' (peval S 0) ys /\
     ys = pubkeys cfi S /\ nth_error ys i = Some x /\ nth_error ys j = Some x' /\
     length S = Datatypes.S t).
Proof.
  intros end_i end_j res_i res_j S HxI HxJ.
  destruct (joint_run_end cfi Hi si Li Hsi HLi Hpi) as (Ei & _ & Fi).
  destruct (joint_run_end cfj Hj sj Lj Hsj HLj Hpj) as (Ej & _ & Fj).
  fold end_i in Ei, Fi. fold end_j in Ej, Fj. fold res_i in Ei. fold res_j in Ej.
  rewrite verdicts_agree in Fj. rewrite Ei, Ej.
  apply (agreement_outcome_joint cfi cfj _ _ (verdicts cfi si Li)); auto.
  unfold verdicts. rewrite map_length, seq_length. reflexivity.
Qed.

End TwoHonest.
