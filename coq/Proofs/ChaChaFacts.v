(* Structural facts about the ChaCha20 block function and the keystream range. *)
From Coq Require Import ZArith NArith List Bool Lia ZifyN ZifyNat.
From V Require Import Lib.ListX Prim.ChaCha Model.Prg.
Import ListNotations.
Open Scope N_scope.
Ltac Zify.zify_post_hook ::= Z.div_mod_to_equations.

Lemma upd_length {A} (l : list A) i v : length (upd l i v) = length l.
Proof. revert i; induction l as [|h t IH]; intros [|i]; cbn; auto. Qed.

Lemma qround_length s i j k l : length (qround s i j k l) = length s.
Proof.
  unfold qround. destruct (qr _) as [[[a b] c] d]. now rewrite !upd_length.
Qed.

Lemma dround_length s : length (dround s) = length s.
Proof. unfold dround. now rewrite !qround_length. Qed.

Lemma iter_length_gen {A} (f : list A -> list A) :
  (forall s, length (f s) = length s) -> forall n s, length (iter n f s) = length s.
Proof.
  intros Hf n; induction n as [|n IH]; intro s; cbn [iter]; auto. now rewrite IH, Hf.
Qed.

Lemma iter_length n s : length (iter n dround s) = length s.
Proof. apply iter_length_gen. exact dround_length. Qed.

Lemma words_of_bytes_length n b : length (words_of_bytes n b) = n.
Proof. revert b; induction n as [|n IH]; intro b; cbn; auto. Qed.

Lemma init_state_length key nonce c : length (init_state key nonce c) = 16%nat.
Proof. unfold init_state. rewrite !app_length, !words_of_bytes_length. reflexivity. Qed.

Lemma map2_length {A B C} (f : A -> B -> C) l1 l2 :
  length (map2 f l1 l2) = Nat.min (length l1) (length l2).
Proof. revert l2; induction l1 as [|a t IH]; intros [|b u]; cbn; auto. Qed.

Lemma flat_map_le32_length l : length (flat_map bytes_of_le32 l) = (4 * length l)%nat.
Proof. induction l as [|a t IH]; cbn [flat_map length]; auto. rewrite app_length, IH. cbn. lia. Qed.

Lemma chacha_block_length key nonce c : length (chacha_block key nonce c) = 64%nat.
Proof.
  unfold chacha_block. rewrite flat_map_le32_length, map2_length, iter_length, init_state_length.
  reflexivity.
Qed.

Global Opaque chacha_block.

Lemma ks_blocks_length key nonce b k : length (ks_blocks key nonce b k) = (64 * k)%nat.
Proof.
  revert b; induction k as [|k IH]; intro b; cbn [ks_blocks]; auto.
  rewrite app_length, chacha_block_length, IH. lia.
Qed.

(* byte j of the concatenation of blocks b.. *)
Lemma ks_blocks_nth key nonce k : forall b j, (j < 64 * k)%nat ->
  nth j (ks_blocks key nonce b k) 0 =
  nth (j mod 64) (chacha_block key nonce (b + N.of_nat (j / 64))) 0.
Proof.
  induction k as [|k IH]; intros b j Hj; [lia|].
  cbn [ks_blocks].
  destruct (Nat.ltb_spec j 64) as [Hlt|Hge].
  - rewrite app_nth1 by (rewrite chacha_block_length; exact Hlt).
    rewrite Nat.mod_small, Nat.div_small by exact Hlt. now rewrite N.add_0_r.
  - rewrite app_nth2 by (rewrite chacha_block_length; exact Hge).
    rewrite chacha_block_length. rewrite IH by lia.
    replace ((j - 64) mod 64)%nat with (j mod 64)%nat by
      (replace j with ((j - 64) + 1 * 64)%nat at 1 by lia; now rewrite Nat.mod_add by lia).
    replace (N.succ b + N.of_nat ((j - 64) / 64)) with (b + N.of_nat (j / 64)); [reflexivity|].
    replace (j / 64)%nat with (S ((j - 64) / 64)).
    + lia.
    + replace j with ((j - 64) + 1 * 64)%nat at 2 by lia. rewrite Nat.div_add by lia. lia.
Qed.

Lemma ks_range_length key nonce pos n : length (ks_range key nonce pos n) = n.
Proof.
  unfold ks_range. rewrite firstn_length, skipn_length, ks_blocks_length.
  lia.
Qed.

Lemma ks_range_nth key nonce pos n j : (j < n)%nat ->
  nth j (ks_range key nonce pos n) 0 = ks_byte key nonce (pos + N.of_nat j).
Proof.
  intro Hj. unfold ks_range, ks_byte.
  rewrite nth_firstn_lt by exact Hj.
  rewrite nth_skipn_add.
  rewrite ks_blocks_nth by lia.
  replace ((N.to_nat (pos mod 64) + j) mod 64)%nat with (N.to_nat ((pos + N.of_nat j) mod 64)) by lia.
  replace (pos / 64 + N.of_nat ((N.to_nat (pos mod 64) + j) / 64)) with ((pos + N.of_nat j) / 64) by lia.
  reflexivity.
Qed.

Lemma ks_range_split key nonce pos a b :
  ks_range key nonce pos (a + b) = ks_range key nonce pos a ++ ks_range key nonce (pos + N.of_nat a) b.
Proof.
  apply nth_ext with (d := 0) (d' := 0).
  - rewrite app_length, !ks_range_length. reflexivity.
  - intros j Hj. rewrite ks_range_length in Hj.
    destruct (Nat.ltb_spec j a) as [Hlt|Hge].
    + rewrite app_nth1 by (rewrite ks_range_length; exact Hlt).
      now rewrite !ks_range_nth by lia.
    + rewrite app_nth2 by (rewrite ks_range_length; exact Hge).
      rewrite ks_range_length. rewrite !ks_range_nth by lia. f_equal. lia.
Qed.

Lemma ks_range_0 key nonce pos : ks_range key nonce pos 0 = [].
Proof. unfold ks_range. reflexivity. Qed.
