(* Injectivity of the KMAC128 framing (used for domain separation, C16):
   with the function name "KMAC" and the output length fixed, the byte string absorbed by the
   sponge before padding,
     bytepad(encode_string("KMAC") || encode_string(S), 168) ||
     bytepad(encode_string(K), 168) || X || right_encode(L),
   determines (S, K, X).  Stated over Spec/HashSpec.v; no size bound is needed because the
   specification's left_encode is defined (and prefix-free) for every natural number. *)
From Coq Require Import ZArith NArith List Bool Arith Lia ZifyN ZifyNat.
From V Require Import Lib.ListX Prim.Keccak Spec.HashSpec Model.Hashers Proofs.SpongeFacts Proofs.KmacProofs.
Import ListNotations.
Local Open Scope nat_scope.

Lemma app_inj_length {A} (a b c d : list A) :
  length a = length c -> a ++ b = c ++ d -> a = c /\ b = d.
Proof.
  revert c. induction a as [|x a IH]; intros [|y c] Hl H; cbn [length] in Hl; try lia.
  - now split.
  - cbn [app] in H. injection H as -> H. destruct (IH c ltac:(lia) H) as [-> ->]. now split.
Qed.

Lemma be_n_inj n : forall a b,
  (a < 256 ^ N.of_nat n)%N -> (b < 256 ^ N.of_nat n)%N -> be_n n a = be_n n b -> a = b.
Proof.
  induction n as [|n IH]; intros a b Ha Hb H.
  - change (256 ^ N.of_nat 0)%N with 1%N in *. lia.
  - cbn [be_n] in H.
    assert (Hl : length (be_n n (a / 256)) = length (be_n n (b / 256))) by now rewrite !be_n_length.
    destruct (app_inj_length _ _ _ _ Hl H) as [H1 H2].
    injection H2 as H2.
    rewrite Nat2N.inj_succ, N.pow_succ_r' in Ha, Hb.
    assert (a / 256 = b / 256)%N.
    { apply IH; [apply N.div_lt_upper_bound; lia|apply N.div_lt_upper_bound; lia|exact H1]. }
    pose proof (N.div_mod a 256 ltac:(lia)). pose proof (N.div_mod b 256 ltac:(lia)). lia.
Qed.

(* left_encode is injective and prefix-free: it can be parsed off the front of a string *)
Lemma left_encode_parse a b r r' :
  left_encode a ++ r = left_encode b ++ r' -> a = b /\ r = r'.
Proof.
  unfold left_encode. cbn [app]. intro H0.
  pose proof (f_equal (hd 0%N) H0) as Hn. pose proof (f_equal (@tl N) H0) as H.
  cbn [hd tl] in Hn, H. clear H0.
  apply Nat2N.inj in Hn.
  assert (Hl : length (be_n (nbytes a) a) = length (be_n (nbytes b) b)) by now rewrite !be_n_length, Hn.
  destruct (app_inj_length _ _ _ _ Hl H) as [H1 H2].
  split; [|exact H2]. rewrite Hn in H1.
  apply (be_n_inj (nbytes b)); [rewrite <- Hn; apply nbytes_upper|apply nbytes_upper|exact H1].
Qed.

Lemma encode_string_parse s s' r r' :
  encode_string s ++ r = encode_string s' ++ r' -> s = s' /\ r = r'.
Proof.
  unfold encode_string. rewrite <- !app_assoc. intro H.
  apply left_encode_parse in H as [Hl H].
  apply app_inj_length in H; [exact H|lia].
Qed.

(* bytepad of (a fixed prefix followed by) an encoded string can be parsed off the front *)
Lemma bytepad_encode_string_parse pre s s' w r r' :
  bytepad (pre ++ encode_string s) w ++ r = bytepad (pre ++ encode_string s') w ++ r' ->
  s = s' /\ r = r'.
Proof.
  unfold bytepad. rewrite <- !app_assoc. intro H.
  apply app_inv_head in H. apply app_inv_head in H.
  pose proof H as H0. apply encode_string_parse in H0 as [-> _].
  split; [reflexivity|]. apply app_inv_head in H. apply app_inv_head in H. exact H.
Qed.

(* what the sponge absorbs (before pad10*1) for KMAC128(K, X, 8*outlen, S) *)
Definition kmac_absorbed (S K X : list N) (outlen : nat) : list N :=
  bytepad (encode_string kmac_name ++ encode_string S) 168 ++ kmac_newX K X outlen.

Lemma KMAC128_as_sponge K X outlen S :
  KMAC128 K X outlen S = sponge_hash keccakf 168 4 outlen (kmac_absorbed S K X outlen).
Proof. reflexivity. Qed.

Lemma kmac_framing_injective outlen S K X S' K' X' :
  kmac_absorbed S K X outlen = kmac_absorbed S' K' X' outlen -> S = S' /\ K = K' /\ X = X'.
Proof.
  unfold kmac_absorbed, kmac_newX. intro H.
  apply bytepad_encode_string_parse in H as [HS H].
  apply (bytepad_encode_string_parse []) in H as [HK H].
  apply app_inv_tail in H. auto.
Qed.

(* the same, phrased on the bytes the Go object hands to cSHAKE128 (after the constructor /
   Reset wrote initBlock, the Writes, and SumHash appended rightEncode): for objects of two
   constructors with the same output size, equal absorbed strings and equal customizers'
   prefix imply equal key and message *)
Lemma kmac_newX_injective outlen K X K' X' :
  kmac_newX K X outlen = kmac_newX K' X' outlen -> K = K' /\ X = X'.
Proof.
  unfold kmac_newX. intro H.
  apply (bytepad_encode_string_parse []) in H as [HK H].
  apply app_inv_tail in H. auto.
Qed.
