(* C15, part 1: UintN.  The two bounded loops compute the byte and bit length of
   n-1, one loop body is "low b bits of the next k-byte chunk", stale buffer bytes
   are masked, the model refines the reference rejection sampler of
   Spec/RandSpec.v, and the fibres of one attempt all have the same size. *)
From Coq Require Import ZArith NArith List Bool Lia ZifyN ZifyNat.
From V Require Import Lib.ListX Model.Rand Spec.RandSpec.
Import ListNotations.
Open Scope N_scope.

(* ---------- arithmetic helpers ---------- *)

Lemma pow256 s : 256 ^ s = 2 ^ (8 * s).
Proof. rewrite N.pow_mul_r. reflexivity. Qed.

Lemma pow2_pos b : 0 < 2 ^ b.
Proof. apply N.neq_0_lt_0. apply N.pow_nonzero. discriminate. Qed.

Lemma ones_pow b : N.ones b = 2 ^ b - 1.
Proof. rewrite N.ones_equiv. lia. Qed.

Lemma lor_double_1 m : N.lor (2 * m) 1 = 2 * m + 1.
Proof. destruct m as [|p]; reflexivity. Qed.

Lemma land_ones_eq_iff x i : N.land x (N.ones i) = x <-> x < 2 ^ i.
Proof.
  rewrite N.land_ones. pose proof (pow2_pos i). split; intro H1.
  - rewrite <- H1. apply N.mod_lt. lia.
  - apply N.mod_small. exact H1.
Qed.

(* characterisation of the two lengths: least k with max < 256^k, least b with max < 2^b *)
Definition is_len (base max len : N) : Prop :=
  max < base ^ len /\ (len = 0 \/ base ^ (len - 1) <= max).

Lemma is_len_bits max : is_len 2 max (bits max).
Proof.
  unfold is_len, bits. split; [apply N.size_gt|].
  destruct (N.eq_dec max 0) as [->|Hz]; [left; reflexivity|right].
  rewrite N.size_log2 by exact Hz. replace (N.succ (N.log2 max) - 1) with (N.log2 max) by lia.
  apply N.log2_spec. lia.
Qed.

Lemma is_len_unique base max a b : 1 < base -> is_len base max a -> is_len base max b -> a = b.
Proof.
  intros Hb [Ha1 Ha2] [Hb1 Hb2].
  assert (forall x y, is_len base max x -> is_len base max y -> x <= y) as Hle.
  { intros x y [Hx1 Hx2] [Hy1 Hy2]. destruct Hx2 as [->|Hx2]; [lia|].
    assert (base ^ (x - 1) < base ^ y) as Hlt by lia.
    apply N.pow_lt_mono_r_iff in Hlt; lia. }
  apply N.le_antisymm; apply Hle; split; assumption.
Qed.

Lemma nbytes_spec max : is_len 256 max (N.of_nat (nbytes max)).
Proof.
  unfold nbytes. rewrite N2Nat.id. destruct (is_len_bits max) as [H1 H2]. unfold bits in *.
  set (s := N.size max) in *. set (k := (s + 7) / 8).
  assert (s <= 8 * k /\ (k = 0 /\ s = 0 \/ 8 * (k - 1) < s)) as [Hk1 Hk2] by (unfold k; lia).
  split.
  - rewrite pow256. eapply N.lt_le_trans; [exact H1|]. apply N.pow_le_mono_r; lia.
  - destruct Hk2 as [[-> _]|Hk2]; [left; reflexivity|right].
    destruct H2 as [->|H2]; [lia|]. rewrite pow256.
    eapply N.le_trans; [|exact H2]. apply N.pow_le_mono_r; lia.
Qed.

(* ---------- the size loop ---------- *)

Lemma size_loop_spec max :
  max < w64 -> size_loop 9 max 0 = Some (nbytes max) /\ (nbytes max <= 8)%nat.
Proof.
  intro Hmax.
  assert (forall fuel s,
            (8 < s + fuel)%nat -> (s <= 8)%nat ->
            (s = 0%nat \/ 256 ^ (N.of_nat s - 1) <= max) ->
            exists k, size_loop fuel (max / 256 ^ N.of_nat s) s = Some k /\
                      is_len 256 max (N.of_nat k) /\ (k <= 8)%nat) as H.
  { induction fuel as [|fuel IH]; intros s Hf Hs Hlow; [lia|].
    cbn [size_loop].
    assert (0 < 256 ^ N.of_nat s) as Hpos by (apply N.neq_0_lt_0, N.pow_nonzero; discriminate).
    destruct (N.eqb_spec (max / 256 ^ N.of_nat s) 0) as [Hz|Hnz].
    - exists s. split; [reflexivity|]. split; [|exact Hs].
      split; [apply N.div_small_iff in Hz; lia|].
      destruct Hlow as [->|Hlow]; [left; reflexivity|right; exact Hlow].
    - assert (256 ^ N.of_nat s <= max) as Hge.
      { destruct (N.lt_ge_cases max (256 ^ N.of_nat s)) as [Hlt|Hge]; [|exact Hge].
        apply N.div_small in Hlt. contradiction. }
      assert (s < 8)%nat as Hs8.
      { destruct (Nat.eq_dec s 8) as [->|]; [|lia]. exfalso.
        change (256 ^ N.of_nat 8) with w64 in Hge. lia. }
      rewrite N.shiftr_div_pow2. change (2 ^ 8) with 256.
      rewrite N.div_div by lia.
      replace (256 ^ N.of_nat s * 256) with (256 ^ N.of_nat (S s))
        by (rewrite Nat2N.inj_succ, N.pow_succ_r'; lia).
      apply IH; [lia|lia|]. right. replace (N.of_nat (S s) - 1) with (N.of_nat s) by lia. exact Hge. }
  destruct (H 9%nat 0%nat) as [k [Hk1 [Hk2 Hk3]]]; [lia|lia|left; reflexivity|].
  change (256 ^ N.of_nat 0) with 1 in Hk1. rewrite N.div_1_r in Hk1.
  assert (N.of_nat k = N.of_nat (nbytes max)) as Heq
    by (eapply is_len_unique; [|exact Hk2|apply nbytes_spec]; lia).
  apply Nat2N.inj in Heq. subst k. split; assumption.
Qed.

(* ---------- the mask loop ---------- *)

Lemma mask_loop_spec max :
  max < w64 -> mask_loop 65 max 0 = Some (N.ones (bits max)) /\ bits max <= 64.
Proof.
  intro Hmax.
  assert (forall fuel i,
            (64 < i + fuel)%nat -> (i <= 64)%nat ->
            (i = 0%nat \/ 2 ^ (N.of_nat i - 1) <= max) ->
            exists b, mask_loop fuel max (N.ones (N.of_nat i)) = Some (N.ones (N.of_nat b)) /\
                      is_len 2 max (N.of_nat b) /\ (b <= 64)%nat) as H.
  { induction fuel as [|fuel IH]; intros i Hf Hi Hlow; [lia|].
    cbn [mask_loop].
    destruct (N.eqb_spec (N.land max (N.ones (N.of_nat i))) max) as [Heq|Hne].
    - exists i. split; [reflexivity|]. split; [|exact Hi].
      apply land_ones_eq_iff in Heq. split; [exact Heq|].
      destruct Hlow as [->|Hlow]; [left; reflexivity|right; exact Hlow].
    - assert (2 ^ N.of_nat i <= max) as Hge.
      { destruct (N.lt_ge_cases max (2 ^ N.of_nat i)) as [Hlt|Hge]; [|exact Hge].
        apply land_ones_eq_iff in Hlt. contradiction. }
      assert (i < 64)%nat as Hi64.
      { destruct (Nat.eq_dec i 64) as [->|]; [|lia]. exfalso.
        change (2 ^ N.of_nat 64) with w64 in Hge. lia. }
      assert (N.lor (N.shiftl (N.ones (N.of_nat i)) 1 mod w64) 1 = N.ones (N.of_nat (S i))) as Hm.
      { rewrite N.shiftl_mul_pow2, !ones_pow. change (2 ^ 1) with 2.
        pose proof (pow2_pos (N.of_nat i)) as Hp.
        assert (2 ^ N.of_nat (S i) = 2 * 2 ^ N.of_nat i) as Hs
          by (rewrite Nat2N.inj_succ, N.pow_succ_r'; reflexivity).
        assert (2 ^ N.of_nat (S i) <= w64) as Hle.
        { change w64 with (2 ^ 64). apply N.pow_le_mono_r; lia. }
        rewrite N.mod_small by lia.
        replace ((2 ^ N.of_nat i - 1) * 2) with (2 * (2 ^ N.of_nat i - 1)) by lia.
        rewrite lor_double_1. lia. }
      rewrite Hm. apply IH; [lia|lia|]. right.
      replace (N.of_nat (S i) - 1) with (N.of_nat i) by lia. exact Hge. }
  destruct (H 65%nat 0%nat) as [b [Hb1 [Hb2 Hb3]]]; [lia|lia|left; reflexivity|].
  change (N.ones (N.of_nat 0)) with 0 in Hb1.
  assert (N.of_nat b = bits max) as Heq
    by (eapply is_len_unique; [|exact Hb2|apply is_len_bits]; lia).
  rewrite Heq in Hb1. split; [exact Hb1|lia].
Qed.

(* facts about k = nbytes max and b = bits max *)
Lemma bits_le_8_nbytes max : bits max <= 8 * N.of_nat (nbytes max).
Proof.
  destruct (is_len_bits max) as [_ Hb]. destruct (nbytes_spec max) as [Hk _].
  destruct Hb as [->|Hb]; [lia|]. rewrite pow256 in Hk.
  assert (2 ^ (bits max - 1) < 2 ^ (8 * N.of_nat (nbytes max))) as Hlt by lia.
  apply N.pow_lt_mono_r_iff in Hlt; lia.
Qed.

Lemma n_le_pow_bits n : 0 < n -> n <= 2 ^ bits (n - 1).
Proof. intro Hn. destruct (is_len_bits (n - 1)) as [H _]. lia. Qed.

(* termination fact: more than half of the 2^b masked values are accepted *)
Lemma accept_more_than_half n : 0 < n -> 2 ^ bits (n - 1) < 2 * n.
Proof.
  intro Hn. destruct (is_len_bits (n - 1)) as [_ H]. set (b := bits (n - 1)) in *.
  destruct (N.eq_dec b 0) as [E|Hb0]; [rewrite E; change (2 ^ 0) with 1; lia|].
  destruct H as [H|H]; [contradiction|].
  replace b with (N.succ (b - 1)) by lia. rewrite N.pow_succ_r'. lia.
Qed.

(* ---------- one loop body ---------- *)

Lemma le_val_num l : le_val l = le_num l.
Proof. induction l as [|x l IH]; cbn; [reflexivity|rewrite IH; reflexivity]. Qed.

Lemma le_num_app a r : le_num (a ++ r) = le_num a + 256 ^ N.of_nat (length a) * le_num r.
Proof.
  induction a as [|x a IH]; [cbn [app length le_num]; change (256 ^ N.of_nat 0) with 1; lia|].
  cbn [app length le_num]. rewrite IH, Nat2N.inj_succ, N.pow_succ_r'. lia.
Qed.

(* the masked little-endian read of the whole buffer only sees the fresh chunk *)
Lemma attempt_value chunk stale b :
  b <= 8 * N.of_nat (length chunk) ->
  N.land (le_val (chunk ++ stale)) (N.ones b) = attempt b (le_num chunk).
Proof.
  intro Hb. unfold attempt. rewrite N.land_ones, le_val_num, le_num_app, pow256.
  set (k8 := 8 * N.of_nat (length chunk)) in *.
  replace k8 with (b + (k8 - b)) by lia. rewrite N.pow_add_r.
  replace (le_num chunk + 2 ^ b * 2 ^ (k8 - b) * le_num stale)
    with (le_num chunk + (2 ^ (k8 - b) * le_num stale) * 2 ^ b) by lia.
  apply N.mod_add. apply N.pow_nonzero. discriminate.
Qed.

(* ---------- refinement of the reference sampler ---------- *)

Definition forget (r : res N) : sres + N + unit :=
  match r with
  | Ok v s => inl (inl (SOk v (tape s)))
  | OutOfTape => inl (inl STape)
  | OutOfFuel => inl (inl SFuel)
  | Err e => inl (inr e)
  | Panic => inr tt
  end.

Definition buf_ok (r : res N) : Prop :=
  match r with Ok _ s => length (ubuf s) = 8%nat | _ => True end.

Lemma uintn_loop_refines n b k :
  0 < n -> (k <= 8)%nat -> b <= 8 * N.of_nat k ->
  forall fuel s random,
    length (ubuf s) = 8%nat -> n - 1 < random ->
    forget (uintn_loop fuel (n - 1) (N.ones b) k random s) = inl (inl (spec_sample fuel n b k (tape s))) /\
    buf_ok (uintn_loop fuel (n - 1) (N.ones b) k random s).
Proof.
  intros Hn Hk Hb. induction fuel as [|fuel IH]; intros s random Hlen Hr.
  - cbn [uintn_loop spec_sample]. apply N.ltb_lt in Hr. rewrite Hr. cbn. auto.
  - cbn [uintn_loop spec_sample]. pose proof Hr as Hr'. apply N.ltb_lt in Hr'. rewrite Hr'.
    rewrite Hlen. replace (Nat.ltb 8 k) with false by (symmetry; apply Nat.ltb_ge; exact Hk).
    unfold core_read. destruct (Nat.leb_spec k (length (tape s))) as [Hle|Hgt].
    + replace (Nat.ltb (length (tape s)) k) with false by (symmetry; apply Nat.ltb_ge; exact Hle).
      assert (length (firstn k (tape s)) = k) as Hck by (apply firstn_length_le; exact Hle).
      rewrite attempt_value by (rewrite Hck; exact Hb).
      set (v := attempt b (le_num (firstn k (tape s)))).
      destruct (N.ltb_spec v n) as [Hacc|Hrej].
      * destruct fuel; cbn [uintn_loop];
          (replace (n - 1 <? v) with false by (symmetry; apply N.ltb_ge; lia));
          cbn; (split; [reflexivity|]); rewrite app_length, Hck, skipn_length, Hlen; lia.
      * apply IH; cbn [ubuf tape]; [rewrite app_length, Hck, skipn_length, Hlen; lia|lia].
    + replace (Nat.ltb (length (tape s)) k) with true by (symmetry; apply Nat.ltb_lt; exact Hgt).
      cbn. auto.
Qed.

Lemma uintn_fuel_unfold fuel n s :
  0 < n -> n < w64 ->
  uintn_fuel fuel n s = uintn_loop fuel (n - 1) (N.ones (bits (n - 1))) (nbytes (n - 1)) n s.
Proof.
  intros Hn Hw. unfold uintn_fuel.
  replace (n =? 0) with false by (symmetry; apply N.eqb_neq; lia).
  destruct (size_loop_spec (n - 1)) as [-> _]; [lia|].
  destruct (mask_loop_spec (n - 1)) as [-> _]; [lia|]. reflexivity.
Qed.

Lemma uintn_fuel_refines fuel n s :
  0 < n -> n < w64 -> length (ubuf s) = 8%nat ->
  forget (uintn_fuel fuel n s) = inl (inl (spec_uintn fuel n (tape s))) /\ buf_ok (uintn_fuel fuel n s).
Proof.
  intros Hn Hw Hlen. rewrite uintn_fuel_unfold by assumption.
  apply uintn_loop_refines; try assumption.
  - apply size_loop_spec. lia.
  - apply bits_le_8_nbytes.
  - lia.
Qed.

(* ---------- facts about the reference sampler ---------- *)

Lemma spec_sample_range fuel n b k t v rest :
  spec_sample fuel n b k t = SOk v rest -> v < n.
Proof.
  revert t. induction fuel as [|fuel IH]; intros t H; cbn [spec_sample] in H; [discriminate|].
  destruct (Nat.ltb (length t) k); [discriminate|].
  destruct (N.ltb_spec (attempt b (le_num (firstn k t))) n) as [Hlt|Hge].
  - inversion H; subst. exact Hlt.
  - eapply IH. exact H.
Qed.

(* the consumed part is a whole number of chunks, at least one *)
Lemma spec_sample_consumes fuel n b k t v rest :
  spec_sample fuel n b k t = SOk v rest ->
  exists a, (1 <= a <= fuel)%nat /\ (length t = a * k + length rest)%nat /\ rest = skipn (a * k) t.
Proof.
  revert t. induction fuel as [|fuel IH]; intros t H; cbn [spec_sample] in H; [discriminate|].
  destruct (Nat.ltb_spec (length t) k) as [|Hle]; [discriminate|].
  destruct (N.ltb_spec (attempt b (le_num (firstn k t))) n) as [Hlt|Hge].
  - inversion H; subst. exists 1%nat. rewrite skipn_length. rewrite Nat.mul_1_l. repeat split; lia.
  - apply IH in H. destruct H as [a [Ha [Hl Hr]]]. exists (S a). rewrite skipn_length in Hl.
    split; [lia|]. split; [lia|]. rewrite Hr. rewrite skipn_skipn_add. f_equal.
Qed.

Lemma spec_sample_fuel_enough fuel n b k t :
  0 < n -> b <= 8 * N.of_nat k -> (length t < fuel)%nat -> spec_sample fuel n b k t <> SFuel.
Proof.
  intros Hn Hb. revert t. induction fuel as [|fuel IH]; intros t Hf; [lia|].
  cbn [spec_sample]. destruct (Nat.ltb_spec (length t) k) as [|Hle]; [discriminate|].
  destruct (N.ltb_spec (attempt b (le_num (firstn k t))) n) as [Hlt|Hge]; [discriminate|].
  destruct k as [|k].
  - exfalso. assert (b = 0) as -> by lia. unfold attempt in Hge. change (2 ^ 0) with 1 in Hge. rewrite N.mod_1_r in Hge. lia.
  - apply IH. rewrite skipn_length. lia.
Qed.

(* ---------- consequences for the model ---------- *)

Lemma uintn_fuel_in_range fuel n s v s' :
  uintn_fuel fuel n s = Ok v s' -> v < n.
Proof.
  (* follows from the loop test alone, for every n and every buffer *)
  unfold uintn_fuel. destruct (N.eqb_spec n 0) as [|Hn]; [discriminate|].
  destruct (size_loop 9 (n - 1) 0) as [k|]; [|discriminate].
  destruct (mask_loop 65 (n - 1) 0) as [m|]; [|discriminate].
  generalize n at 2 as random. revert s.
  induction fuel as [|fuel IH]; intros s random H; cbn [uintn_loop] in H.
  - destruct (N.ltb_spec (n - 1) random); [discriminate|]. inversion H; subst. lia.
  - destruct (N.ltb_spec (n - 1) random).
    + destruct (Nat.ltb (length (ubuf s)) k); [discriminate|].
      destruct (core_read k (tape s)) as [[c t']|]; [|discriminate].
      eapply IH. exact H.
    + inversion H; subst. lia.
Qed.

Lemma uintn_never_out_of_fuel n s :
  n < w64 -> length (ubuf s) = 8%nat -> uintn n s <> OutOfFuel.
Proof.
  intros Hw Hlen. unfold uintn. destruct (N.eq_dec n 0) as [->|Hn]; [cbn; discriminate|].
  destruct (uintn_fuel_refines (S (length (tape s))) n s) as [Hf _]; [lia|assumption|assumption|].
  intro E. rewrite E in Hf. cbn [forget] in Hf. unfold spec_uintn in Hf.
  apply (spec_sample_fuel_enough (S (length (tape s))) n (bits (n - 1)) (nbytes (n - 1)) (tape s));
    [lia|apply bits_le_8_nbytes|lia|congruence].
Qed.

(* ---------- fibres of one attempt ---------- *)

Lemma attempt_iff b c v : attempt b c = v <-> exists q, c = v + 2 ^ b * q /\ v < 2 ^ b.
Proof.
  unfold attempt. pose proof (pow2_pos b) as Hp. split.
  - intros <-. exists (c / 2 ^ b). split; [|apply N.mod_lt; lia].
    rewrite N.add_comm. apply N.div_mod. lia.
  - intros [q [-> Hv]]. rewrite (N.mul_comm (2 ^ b) q), N.mod_add by lia. apply N.mod_small. exact Hv.
Qed.

(* explicit bijection  [0, 2^(8k-b))  <->  { c < 2^(8k) | attempt b c = v } *)
Definition fibre_in (b v q : N) : N := v + 2 ^ b * q.
Definition fibre_out (b c : N) : N := c / 2 ^ b.

Lemma fibre_bijection b k8 v :
  b <= k8 -> v < 2 ^ b ->
  (forall q, q < 2 ^ (k8 - b) -> fibre_in b v q < 2 ^ k8 /\ attempt b (fibre_in b v q) = v /\
                                   fibre_out b (fibre_in b v q) = q) /\
  (forall c, c < 2 ^ k8 -> attempt b c = v -> fibre_out b c < 2 ^ (k8 - b) /\ fibre_in b v (fibre_out b c) = c).
Proof.
  intros Hb Hv. pose proof (pow2_pos b) as Hp.
  assert (2 ^ k8 = 2 ^ b * 2 ^ (k8 - b)) as Hsplit by (rewrite <- N.pow_add_r; f_equal; lia).
  unfold fibre_in, fibre_out, attempt. split.
  - intros q Hq. split; [rewrite Hsplit; nia|]. split.
    + rewrite (N.mul_comm (2 ^ b) q), N.mod_add by lia. apply N.mod_small. exact Hv.
    + rewrite (N.add_comm v), (N.mul_comm (2 ^ b) q), N.div_add_l by lia. rewrite N.div_small by exact Hv. lia.
  - intros c Hc <-. split.
    + apply N.div_lt_upper_bound; [lia|]. rewrite <- Hsplit. exact Hc.
    + rewrite N.add_comm. symmetry. apply N.div_mod. lia.
Qed.

(* counting form: among the numbers below M*Q exactly Q are congruent to v modulo M *)
Definition nrange (c : N) : list N := map N.of_nat (seq 0 (N.to_nat c)).

Lemma filter_none {A} (p : A -> bool) l : (forall x, In x l -> p x = false) -> filter p l = [].
Proof.
  induction l as [|y l IH]; intro H; [reflexivity|]. cbn. rewrite (H y) by (left; reflexivity).
  apply IH. intros x Hx. apply H. right. exact Hx.
Qed.

Lemma count_eq_seq v M : (v < M)%nat -> length (filter (fun x => Nat.eqb x v) (seq 0 M)) = 1%nat.
Proof.
  intro H. replace M with (v + S (M - v - 1))%nat by lia. rewrite seq_app, filter_app. cbn [seq filter].
  rewrite Nat.eqb_refl. rewrite !filter_none; [reflexivity| |].
  - intros x Hx. apply in_seq in Hx. apply Nat.eqb_neq. lia.
  - intros x Hx. apply in_seq in Hx. apply Nat.eqb_neq. lia.
Qed.

Lemma length_filter_map {A B} (f : B -> bool) (g : A -> B) l :
  length (filter f (map g l)) = length (filter (fun x => f (g x)) l).
Proof. induction l as [|x l IH]; cbn; [reflexivity|]. destruct (f (g x)); cbn; rewrite IH; reflexivity. Qed.

Lemma seq_shift_add M s t : seq (s + t) M = map (fun x => s + x)%nat (seq t M).
Proof.
  revert t. induction M as [|M IH]; intro t; [reflexivity|]. cbn [seq map]. f_equal.
  rewrite <- IH. f_equal. lia.
Qed.

Lemma count_block M q v :
  (v < M)%nat -> length (filter (fun c => Nat.eqb (c mod M) v) (seq (M * q) M)) = 1%nat.
Proof.
  intro H. replace (M * q)%nat with (M * q + 0)%nat by lia. rewrite seq_shift_add.
  rewrite length_filter_map. rewrite <- (count_eq_seq v M H). f_equal. apply filter_ext_in.
  intros x Hx. apply in_seq in Hx. f_equal.
  rewrite Nat.add_comm, Nat.mul_comm, Nat.mod_add by lia. apply Nat.mod_small. lia.
Qed.

Lemma count_congruent_nat M q v :
  (v < M)%nat -> length (filter (fun c => Nat.eqb (c mod M) v) (seq 0 (M * q))) = q.
Proof.
  intro H. induction q as [|q IH]; [rewrite Nat.mul_0_r; reflexivity|].
  replace (M * S q)%nat with (M * q + M)%nat by lia.
  rewrite seq_app, filter_app, app_length, IH. cbn [Nat.add]. rewrite count_block by exact H. lia.
Qed.

Lemma count_congruent M Q v :
  v < M -> length (filter (fun c => c mod M =? v) (nrange (M * Q))) = N.to_nat Q.
Proof.
  intro H. unfold nrange. rewrite length_filter_map.
  rewrite N2Nat.inj_mul.
  etransitivity; [|apply (count_congruent_nat (N.to_nat M) (N.to_nat Q) (N.to_nat v)); lia].
  f_equal. apply filter_ext. intro x.
  destruct (N.eqb_spec (N.of_nat x mod M) v) as [E|E]; destruct (Nat.eqb_spec (x mod N.to_nat M) (N.to_nat v)) as [E'|E'];
    try reflexivity; exfalso.
  - apply E'. rewrite <- E. rewrite N2Nat.inj_mod, Nat2N.id. reflexivity.
  - apply E. apply N2Nat.inj. rewrite N2Nat.inj_mod, Nat2N.id. exact E'.
Qed.

(* each value v < n has exactly 2^(8k-b) chunks among the 2^(8k), whatever v *)
Lemma attempt_fibre_count b k8 v :
  b <= k8 -> v < 2 ^ b ->
  length (filter (fun c => attempt b c =? v) (nrange (2 ^ k8))) = N.to_nat (2 ^ (k8 - b)).
Proof.
  intros Hb Hv. replace (2 ^ k8) with (2 ^ b * 2 ^ (k8 - b)) by (rewrite <- N.pow_add_r; f_equal; lia).
  unfold attempt. apply count_congruent. exact Hv.
Qed.
