(* C03: the batch-verification tree is exact under good coefficients; a bad coefficient is unique. *)
From Coq Require Import ZArith NArith List Bool Ring Lia.
From V Require Import Lib.ListX Spec.Bilinear Generated.Consts Model.BlsAbs Model.AggAbs Model.BatchAbs
  Proofs.BlsProofs Proofs.AggProofs.
Import ListNotations.

(* ---- list plumbing ---- *)
Lemma combine_skipn {A B} (l : list A) (l' : list B) n :
  skipn n (combine l l') = combine (skipn n l) (skipn n l').
Proof.
  revert l l'; induction n as [|n IH]; intros [|a l] [|b l']; cbn; auto.
  destruct (skipn n l); reflexivity.
Qed.

Lemma combine_map_same {A B C} (f : A -> B) (g : A -> C) l :
  combine (map f l) (map g l) = map (fun x => (f x, g x)) l.
Proof. induction l as [|a l IH]; [reflexivity|]. cbn. now rewrite IH. Qed.

Lemma tree_S {L} (ok : list L -> bool) f l res :
  tree ok (S f) l res =
  if ok l then map fill res
  else match l with
       | [] => res
       | [_] => match res with _ :: t => Invalid :: t | [] => [] end
       | _ => let rl := Nat.div (length l) 2 in let ll := (length l - rl)%nat in
              tree ok f (firstn ll l) (firstn ll res) ++ tree ok f (skipn ll l) (skipn ll res)
       end.
Proof. reflexivity. Qed.

Section ErrLevel.
Context {B : bilinear}.
Add Ring FRing7 : Fring.

(* a leaf at the level of discrete logs: coefficient rho and error e (e = 0 iff the pair verifies) *)
Definition eleaf : Type := (F * F)%type.
Definition wsum (l : list eleaf) : F := fsum (map (fun p => fmul (fst p) (snd p)) l).
Definition eok (l : list eleaf) : bool := feqb (wsum l) f0.
Definition has_invalid (l : list eleaf) : Prop := exists p, In p l /\ snd p <> f0.

(* coefficients are GOOD when no node of the tree that contains an invalid leaf sums to zero *)
Fixpoint good (fuel : nat) (l : list eleaf) : Prop :=
  match fuel with
  | O => True
  | S f =>
    (has_invalid l -> wsum l <> f0) /\
    match l with
    | [] | [_] => True
    | _ => let rl := Nat.div (length l) 2 in let ll := (length l - rl)%nat in
           good f (firstn ll l) /\ good f (skipn ll l)
    end
  end.

Definition expect (pr : eleaf * st) : st :=
  match snd pr with
  | Undefined => if feqb (snd (fst pr)) f0 then Valid else Invalid
  | r => r
  end.

Lemma wsum_nil : wsum [] = f0. Proof. reflexivity. Qed.
Lemma wsum_cons p l : wsum (p :: l) = fadd (fmul (fst p) (snd p)) (wsum l). Proof. reflexivity. Qed.

Lemma no_invalid_all_zero l : ~ has_invalid l -> Forall (fun p => snd p = f0) l.
Proof.
  intro H. apply Forall_forall. intros p Hp. destruct (feqb_spec (snd p) f0) as [E|E]; [exact E|].
  exfalso. apply H. exists p. split; assumption.
Qed.

Lemma fill_is_expect l res : length res = length l -> Forall (fun p => snd p = f0) l ->
  map fill res = map expect (combine l res).
Proof.
  revert res; induction l as [|p l IH]; intros [|r res] Hl Hz; cbn in *; try discriminate; auto.
  inversion Hz as [|? ? Hp Hr]; subst. f_equal; [|apply IH; [lia|exact Hr]].
  unfold expect. cbn [fst snd]. rewrite Hp, feqb_refl. destruct r; reflexivity.
Qed.

(* THE tree theorem: for every n, every leaf list and every initial marking without VALID entries *)
Theorem tree_exact : forall fuel l res,
  (length l <= fuel)%nat -> length res = length l -> Forall (fun r => r <> Valid) res ->
  good (S fuel) l ->
  tree eok (S fuel) l res = map expect (combine l res).
Proof.
  induction fuel as [|f IH]; intros l res Hf Hl Hv Hg.
  - destruct l; [|cbn in Hf; lia]. destruct res; [|discriminate]. cbn. destruct (eok []); reflexivity.
  - rewrite tree_S. destruct Hg as [Hg1 Hg2].
    destruct (eok l) eqn:Eok.
    + (* node verifies: no invalid leaf below it *)
      apply fill_is_expect; [exact Hl|]. apply no_invalid_all_zero. intro Hi.
      apply (Hg1 Hi). unfold eok in Eok. now apply feqb_eq in Eok.
    + destruct l as [|p [|q l']].
      * destruct res; [reflexivity|discriminate].
      * destruct res as [|r [|? ?]]; try discriminate. cbn [combine map].
        f_equal. unfold expect. cbn [fst snd].
        assert (Hp : snd p <> f0).
        { intro E. unfold eok in Eok. rewrite wsum_cons, wsum_nil, E in Eok.
          assert (Z : fadd (fmul (fst p) f0) f0 = f0) by ring. rewrite Z, feqb_refl in Eok. discriminate. }
        destruct (feqb_spec (snd p) f0) as [E|_]; [contradiction|].
        inversion Hv as [|? ? Hr _]; subst. destruct r; try reflexivity. contradiction.
      * set (l := p :: q :: l') in *.
        set (rl := Nat.div (length l) 2) in *. set (ll := (length l - rl)%nat) in *.
        assert (Hlen : (2 <= length l)%nat) by (unfold l; cbn; lia).
        assert (Hrl : (1 <= rl)%nat) by (unfold rl; apply Nat.div_le_lower_bound; lia).
        assert (Hrl2 : (2 * rl <= length l)%nat) by (unfold rl; apply Nat.mul_div_le; lia).
        destruct Hg2 as [G1 G2]. cbv zeta. fold ll. fold ll in G1, G2.
        rewrite (IH (firstn ll l) (firstn ll res)).
        -- rewrite (IH (skipn ll l) (skipn ll res)).
           ++ rewrite <- combine_firstn, <- combine_skipn, <- map_app, firstn_skipn. reflexivity.
           ++ rewrite skipn_length. lia.
           ++ rewrite !skipn_length. lia.
           ++ apply Forall_forall. intros x Hx. rewrite Forall_forall in Hv. apply Hv.
              rewrite <- (firstn_skipn ll res). apply in_or_app. right. exact Hx.
           ++ exact G2.
        -- rewrite firstn_length. lia.
        -- rewrite !firstn_length. lia.
        -- apply Forall_forall. intros x Hx. rewrite Forall_forall in Hv. apply Hv.
           rewrite <- (firstn_skipn ll res). apply in_or_app. left. exact Hx.
        -- exact G1.
Qed.

(* the algebraic core of the 2^-128 bound: for a node that contains an invalid leaf, with all
   other coefficients fixed, AT MOST ONE value of that leaf's coefficient makes the node sum
   vanish (no zero divisors).  With rho uniform over 2^128 values this is 2^-128 per node. *)
Lemma wsum_app l1 l2 : wsum (l1 ++ l2) = fadd (wsum l1) (wsum l2).
Proof. unfold wsum. now rewrite map_app, fsum_app. Qed.

Theorem bad_coefficient_unique (pre post : list eleaf) (e a a' : F) :
  e <> f0 ->
  wsum (pre ++ (a, e) :: post) = f0 -> wsum (pre ++ (a', e) :: post) = f0 -> a = a'.
Proof.
  intros He H1 H2. rewrite wsum_app, wsum_cons in H1, H2. cbn [fst snd] in H1, H2.
  assert (Z : fmul (fsub a a') e = f0).
  { replace (fmul (fsub a a') e) with
      (fsub (fadd (wsum pre) (fadd (fmul a e) (wsum post))) (fadd (wsum pre) (fadd (fmul a' e) (wsum post)))) by ring.
    rewrite H1, H2. ring. }
  destruct (F_integral _ _ Z) as [E|E]; [|contradiction].
  replace a with (fadd (fsub a a') a') by ring. rewrite E. ring.
Qed.

(* counting form: among any duplicate-free list of candidate coefficient values, at most one is bad *)
Corollary bad_coefficients_at_most_one (pre post : list eleaf) (e : F) (cands : list F) :
  e <> f0 -> NoDup cands ->
  (length (filter (fun a => eok (pre ++ (a, e) :: post)) cands) <= 1)%nat.
Proof.
  intros He Hnd. induction Hnd as [|a l Hna _ IH]; [cbn; lia|].
  cbn [filter]. destruct (eok (pre ++ (a, e) :: post)) eqn:Ea; [|exact IH].
  assert (Z : filter (fun a0 => eok (pre ++ (a0, e) :: post)) l = []).
  { destruct (filter _ l) as [|b r] eqn:Ef; [reflexivity|exfalso].
    assert (Hb : In b (filter (fun a0 => eok (pre ++ (a0, e) :: post)) l)) by (rewrite Ef; now left).
    apply filter_In in Hb as [Hbl Hb]. unfold eok in Ea, Hb. apply feqb_eq in Ea, Hb.
    assert (a = b) by (eapply bad_coefficient_unique; eassumption). subst. contradiction. }
  rewrite Z. cbn. lia.
Qed.
End ErrLevel.

(* ---- from the pairing-level node test to the error level ---- *)
Section Bridge.
Context {B : bilinear} {C : codecs}.
Add Ring FRing8 : Fring.

(* a processed leaf made of subgroup elements: (rho*sigma, rho*x) *)
Definition gleaf (rho sigma x : F) : E1 * E2 := ((fmul rho sigma, t1_0), (fmul rho x, t2_0)).

Lemma sum1_gleaves (ls : list (F * F * F)) :
  sum1 (map fst (map (fun t => gleaf (fst (fst t)) (snd (fst t)) (snd t)) ls))
  = (fsum (map (fun t => fmul (fst (fst t)) (snd (fst t))) ls), t1_0).
Proof.
  induction ls as [|t l IH]; [reflexivity|].
  cbn [map]. rewrite sum1_cons, IH, fsum_cons. cbn [gleaf fst]. apply add1_G.
Qed.
Lemma sum2_gleaves (ls : list (F * F * F)) :
  sum2 (map snd (map (fun t => gleaf (fst (fst t)) (snd (fst t)) (snd t)) ls))
  = (fsum (map (fun t => fmul (fst (fst t)) (snd t)) ls), t2_0).
Proof.
  induction ls as [|t l IH]; [reflexivity|].
  cbn [map]. rewrite sum2_cons, IH, fsum_cons. cbn [gleaf snd]. apply add2_G.
Qed.

(* node test of bls_batch_verify_tree on leaves (rho_i*s_i, rho_i*pk_i) = error-level test with
   e_i = sigma_i - x_i*eta *)
Theorem node_check_is_eok eta (ls : list (F * F * F)) :
  node_check (eta, t1_0) (map (fun t => gleaf (fst (fst t)) (snd (fst t)) (snd t)) ls)
  = eok (map (fun t => (fst (fst t), fsub (snd (fst t)) (fmul (snd t) eta))) ls).
Proof.
  unfold node_check. rewrite sum1_gleaves, sum2_gleaves.
  rewrite <- (pk_of_G (fsum (map (fun t => fmul (fst (fst t)) (snd t)) ls))).
  rewrite verify_E1_G. unfold eok, wsum. rewrite map_map. cbn [fst snd].
  set (A := fsum (map (fun t => fmul (fst (fst t)) (snd (fst t))) ls)).
  set (Bq := fsum (map (fun t => fmul (fst (fst t)) (snd t)) ls)).
  assert (E : fsum (map (fun x => fmul (fst (fst x)) (fsub (snd (fst x)) (fmul (snd x) eta))) ls)
              = fsub A (fmul Bq eta)).
  { unfold A, Bq. induction ls as [|t l IH]; cbn [map]; rewrite ?fsum_cons, ?fsum_nil; [ring|]. rewrite IH. ring. }
  rewrite E.
  destruct (feqb_spec A (fmul Bq eta)) as [Q|Q].
  - symmetry. apply feqb_eq. rewrite Q. ring.
  - destruct (feqb_spec (fsub A (fmul Bq eta)) f0) as [Q2|Q2]; [|reflexivity].
    exfalso. apply Q. replace A with (fadd (fsub A (fmul Bq eta)) (fmul Bq eta)) by ring. rewrite Q2. ring.
Qed.
End Bridge.

(* ---- end to end: Go wrapper + C leaf processing + tree = per-index Verify, under good coefficients ---- *)
Section EndToEnd.
Context {B : bilinear} {C : codecs}.
Add Ring FRing9 : Fring.

Lemma tree_transport {L1 L2 T} (ok1 : list L1 -> bool) (ok2 : list L2 -> bool) (f : T -> L1) (g : T -> L2) :
  (forall l, ok1 (map f l) = ok2 (map g l)) ->
  forall fuel l res, tree ok1 fuel (map f l) res = tree ok2 fuel (map g l) res.
Proof.
  intro H. induction fuel as [|n IH]; intros l res; [reflexivity|].
  rewrite !tree_S. rewrite H. destruct (ok2 (map g l)); [reflexivity|].
  destruct l as [|a [|b l']]; try reflexivity.
  change (match map f (a :: b :: l') with
          | [] => res
          | [_] => match res with [] => [] | _ :: t => Invalid :: t end
          | _ :: _ :: _ =>
              let rl := Nat.div (length (map f (a :: b :: l'))) 2 in
              let ll := (length (map f (a :: b :: l')) - rl)%nat in
              tree ok1 n (firstn ll (map f (a :: b :: l'))) (firstn ll res) ++
              tree ok1 n (skipn ll (map f (a :: b :: l'))) (skipn ll res)
          end)
    with (let rl := Nat.div (length (map f (a :: b :: l'))) 2 in
          let ll := (length (map f (a :: b :: l')) - rl)%nat in
          tree ok1 n (firstn ll (map f (a :: b :: l'))) (firstn ll res) ++
          tree ok1 n (skipn ll (map f (a :: b :: l'))) (skipn ll res)).
  change (match map g (a :: b :: l') with
          | [] => res
          | [_] => match res with [] => [] | _ :: t => Invalid :: t end
          | _ :: _ :: _ =>
              let rl := Nat.div (length (map g (a :: b :: l'))) 2 in
              let ll := (length (map g (a :: b :: l')) - rl)%nat in
              tree ok2 n (firstn ll (map g (a :: b :: l'))) (firstn ll res) ++
              tree ok2 n (skipn ll (map g (a :: b :: l'))) (skipn ll res)
          end)
    with (let rl := Nat.div (length (map g (a :: b :: l'))) 2 in
          let ll := (length (map g (a :: b :: l')) - rl)%nat in
          tree ok2 n (firstn ll (map g (a :: b :: l'))) (firstn ll res) ++
          tree ok2 n (skipn ll (map g (a :: b :: l'))) (skipn ll res)).
  cbv zeta. rewrite !map_length, !firstn_map, !skipn_map. now rewrite !IH.
Qed.

(* one input entry: private scalar of the key, signature bytes, coefficient *)
Definition entry : Type := (F * list N * F)%type.
Definition e_sk (e : entry) := fst (fst e).
Definition e_sig (e : entry) := snd (fst e).
Definition e_rho (e : entry) := snd e.

(* what the C layer makes of an entry after the Go pre-marking: (sigma', x', initial status) *)
Definition classify (e : entry) : F * F * st :=
  if premark (public_key (e_sk e)) (e_sig e) then (f0, f0, Undefined)
  else match dec1 (e_sig e) with
       | Some P => if inG1 P then (fst P, e_sk e, Undefined) else (f0, f0, Invalid)
       | None => (f0, f0, Invalid)
       end.
Definition triple_of (e : entry) : F * F * F := (e_rho e, fst (fst (classify e)), snd (fst (classify e))).
Definition err_of eta (e : entry) : eleaf := (e_rho e, fsub (fst (fst (classify e))) (fmul (snd (fst (classify e))) eta)).
Definition init_of (e : entry) : st := snd (classify e).

Definition go_pts (es : list entry) : list E2 :=
  map (fun p => if premark (fst p) (snd p) then O2 else pk_point (fst p)) (combine (map (fun e => public_key (e_sk e)) es) (map e_sig es)).
Definition go_bs (es : list entry) : list (list N) :=
  map (fun p => if premark (fst p) (snd p) then enc1 O1 else snd p) (combine (map (fun e => public_key (e_sk e)) es) (map e_sig es)).

Lemma O1_in_G1 : inG1 O1 = true.
Proof. apply inG1_iff. exists f0. reflexivity. Qed.

Lemma c_leaves_classify es :
  c_leaves (go_pts es) (go_bs es) (map e_rho es)
  = map (fun e => (gleaf (e_rho e) (fst (fst (classify e))) (snd (fst (classify e))), init_of e)) es.
Proof.
  unfold go_pts, go_bs. induction es as [|e l IH]; [reflexivity|].
  cbn [map combine c_leaves fst snd]. rewrite IH. f_equal.
  unfold c_leaf, init_of, classify, gleaf.
  destruct (premark (public_key (e_sk e)) (e_sig e)) eqn:Ep.
  - rewrite dec1_enc1, O1_in_G1. unfold smul1, smul2, O1, O2. cbn [fst snd].
    rewrite t1_smul_0, t2_smul_0. reflexivity.
  - destruct (dec1 (e_sig e)) as [P|]; cbn [fst snd].
    + destruct (inG1 P) eqn:Eg; cbn [fst snd].
      * apply inG1_iff in Eg as [sg ->]. cbn [fst]. cbn [public_key pk_point]. rewrite pk_of_G.
        rewrite smul1_G, smul2_G. reflexivity.
      * unfold O1, O2. f_equal. f_equal; f_equal; ring.
    + unfold O1, O2. f_equal. f_equal; f_equal; ring.
Qed.

Definition vb (eta : F) (e : entry) : bool :=
  match verify (public_key (e_sk e)) (e_sig e) good_hasher (eta, t1_0) with VBool v => v | _ => false end.

Lemma feqb_sub a b : feqb (fsub a b) f0 = feqb a b.
Proof.
  destruct (feqb_spec a b) as [->|N].
  - apply feqb_eq. ring.
  - destruct (feqb_spec (fsub a b) f0) as [E|_]; [|reflexivity]. exfalso. apply N.
    replace a with (fadd (fsub a b) b) by ring. rewrite E. ring.
Qed.

(* per entry: (not pre-marked) && (expected status is VALID)  =  individual verification *)
Lemma entry_agrees eta e :
  negb (premark (public_key (e_sk e)) (e_sig e)) && st_eqb (expect (err_of eta e, init_of e)) Valid = vb eta e.
Proof.
  unfold vb. rewrite verify_unfold. unfold err_of, init_of, classify, expect, premark.
  cbn [public_key pk_is_identity pk_point].
  destruct (Nat.eqb (List.length (e_sig e)) _) eqn:El; cbn [negb orb andb]; [|reflexivity].
  destruct (feqb_spec (e_sk e) f0) as [E0|E0]; cbn [negb andb]; [reflexivity|].
  destruct (dec1 (e_sig e)) as [P|]; cbn [fst snd]; [|reflexivity].
  destruct (inG1 P) eqn:Eg; cbn [fst snd]; [|reflexivity].
  apply inG1_iff in Eg as [sg ->]. cbn [fst]. rewrite verify_E1_G.
  rewrite feqb_sub. destruct (feqb sg (fmul (e_sk e) eta)); reflexivity.
Qed.

Theorem batch_agrees_with_verify eta (es : list entry) :
  es <> [] ->
  good (S (length es)) (map (err_of eta) es) ->
  go_batch (map (fun e => Some (public_key (e_sk e))) es) (map e_sig es) good_hasher (eta, t1_0) (map e_rho es)
  = BOk (map (vb eta) es).
Proof.
  intros Hne Hg. unfold go_batch. rewrite !map_length, Nat.eqb_refl. cbn [negb].
  assert (L0 : Nat.eqb (length es) 0 = false) by (destruct es; [congruence|reflexivity]). rewrite L0.
  rewrite check_good.
  rewrite <- (map_map (fun e => public_key (e_sk e)) Some). rewrite all_bls_some.
  f_equal. fold (go_pts es) (go_bs es).
  unfold c_batch. rewrite c_leaves_classify. rewrite !map_map. cbn [fst snd]. rewrite map_length.
  rewrite (tree_transport (node_check (eta, t1_0)) eok
             (fun e => gleaf (e_rho e) (fst (fst (classify e))) (snd (fst (classify e)))) (err_of eta)).
  2:{ intro l. rewrite <- (map_map triple_of (fun t => gleaf (fst (fst t)) (snd (fst t)) (snd t))).
      rewrite node_check_is_eok. rewrite map_map. reflexivity. }
  rewrite tree_exact.
  - (* pointwise *)
    unfold go_pts.
    clear Hg Hne L0. induction es as [|e l IH]; [reflexivity|].
    cbn [map combine fst snd]. rewrite IH. f_equal. apply entry_agrees.
  - rewrite map_length. lia.
  - now rewrite !map_length.
  - apply Forall_forall. intros r Hr. apply in_map_iff in Hr as (e & <- & _).
    unfold init_of, classify. destruct (premark _ _); cbn [snd]; [discriminate|].
    destruct (dec1 _) as [P|]; [destruct (inG1 P)|]; cbn [snd]; discriminate.
  - exact Hg.
Qed.

(* input errors: every returned boolean is false *)
Theorem batch_errors_all_false pks sigs hs h rhos :
  match go_batch pks sigs hs h rhos with
  | BOk _ => True
  | BErrEmptyList v | BErrInvalidInputs v | BErrHasher _ v | BErrNotBLSKey v => v = repeat false (List.length sigs)
  end.
Proof.
  unfold go_batch. destruct (Nat.eqb _ 0); [reflexivity|]. destruct (negb _); [reflexivity|].
  destruct (check_hasher hs); [reflexivity|]. destruct (all_bls pks); [exact I|reflexivity].
Qed.
End EndToEnd.
