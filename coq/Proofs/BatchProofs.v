(* C03: the batch-verification tree is exact under good coefficients; a bad coefficient is unique. *)
From Coq Require Import ZArith NArith List Bool Ring Lia.
From V Require Import Lib.ListX Spec.Bilinear Generated.Consts Model.BlsAbs Model.AggAbs Model.BatchAbs
  Proofs.BlsProofs Proofs.AggProofs.
Import ListNotations.

(* ---- list plumbing ---- *)
Lemma combine_skipn {A B} (l : list A) (l' : list B) n :
  skipn n (combine l l') = combine (skipn n l) (skipn n l').
Proof.
  revert l l'; induction n as [|n IH]; intros [|a l] [|b l']; cbn; auto.
  destruct (skipn n l); reflexivity.
Qed.

Lemma tree_S {L} (ok : list L -> bool) f l res :
  tree ok (S f) l res =
  if ok l then map fill res
  else match l with
       | [] => res
       | [_] => match res with _ :: t => Invalid :: t | [] => [] end
       | _ => let rl := Nat.div (length l) 2 in let ll := (length l - rl)%nat in
              tree ok f (firstn ll l) (firstn ll res) ++ tree ok f (skipn ll l) (skipn ll res)
       end.
Proof. reflexivity. Qed.

Section ErrLevel.
Context {B : bilinear}.
Add Ring FRing7 : Fring.

(* a leaf at the level of discrete logs: coefficient rho and error e (e = 0 iff the pair verifies) *)
Definition eleaf : Type := (F * F)%type.
Definition wsum (l : list eleaf) : F := fsum (map (fun p => fmul (fst p) (snd p)) l).
Definition eok (l : list eleaf) : bool := feqb (wsum l) f0.
Definition has_invalid (l : list eleaf) : Prop := exists p, In p l /\ snd p <> f0.

(* coefficients are GOOD when no node of the tree that contains an invalid leaf sums to zero *)
Fixpoint good (fuel : nat) (l : list eleaf) : Prop :=
  match fuel with
  | O => True
  | S f =>
    (has_invalid l -> wsum l <> f0) /\
    match l with
    | [] | [_] => True
    | _ => let rl := Nat.div (length l) 2 in let ll := (length l - rl)%nat in
           good f (firstn ll l) /\ good f (skipn ll l)
    end
  end.

Definition expect (pr : eleaf * st) : st :=
  match snd pr with
  | Undefined => if feqb (snd (fst pr)) f0 then Valid else Invalid
  | r => r
  end.

Lemma wsum_nil : wsum [] = f0. Proof. reflexivity. Qed.
Lemma wsum_cons p l : wsum (p :: l) = fadd (fmul (fst p) (snd p)) (wsum l). Proof. reflexivity. Qed.

Lemma no_invalid_all_zero l : ~ has_invalid l -> Forall (fun p => snd p = f0) l.
Proof.
  intro H. apply Forall_forall. intros p Hp. destruct (feqb_spec (snd p) f0) as [E|E]; [exact E|].
  exfalso. apply H. exists p. split; assumption.
Qed.

Lemma fill_is_expect l res : length res = length l -> Forall (fun p => snd p = f0) l ->
  map fill res = map expect (combine l res).
Proof.
  revert res; induction l as [|p l IH]; intros [|r res] Hl Hz; cbn in *; try discriminate; auto.
  inversion Hz as [|? ? Hp Hr]; subst. f_equal; [|apply IH; [lia|exact Hr]].
  unfold expect. cbn [fst snd]. rewrite Hp, feqb_refl. destruct r; reflexivity.
Qed.

(* THE tree theorem: for every n, every leaf list and every initial marking without VALID entries *)
Theorem tree_exact : forall fuel l res,
  (length l <= fuel)%nat -> length res = length l -> Forall (fun r => r <> Valid) res ->
  good (S fuel) l ->
  tree eok (S fuel) l res = map expect (combine l res).
Proof.
  induction fuel as [|f IH]; intros l res Hf Hl Hv Hg.
  - destruct l; [|cbn in Hf; lia]. destruct res; [|discriminate]. cbn. destruct (eok []); reflexivity.
  - rewrite tree_S. destruct Hg as [Hg1 Hg2].
    destruct (eok l) eqn:Eok.
    + (* node verifies: no invalid leaf below it *)
      apply fill_is_expect; [exact Hl|]. apply no_invalid_all_zero. intro Hi.
      apply (Hg1 Hi). unfold eok in Eok. now apply feqb_eq in Eok.
    + destruct l as [|p [|q l']].
      * destruct res; [reflexivity|discriminate].
      * destruct res as [|r [|? ?]]; try discriminate. cbn [combine map].
        f_equal. unfold expect. cbn [fst snd].
        assert (Hp : snd p <> f0).
        { intro E. unfold eok in Eok. rewrite wsum_cons, wsum_nil, E in Eok.
          assert (Z : fadd (fmul (fst p) f0) f0 = f0) by ring. rewrite Z, feqb_refl in Eok. discriminate. }
        destruct (feqb_spec (snd p) f0) as [E|_]; [contradiction|].
        inversion Hv as [|? ? Hr _]; subst. destruct r; try reflexivity. contradiction.
      * set (l := p :: q :: l') in *.
        set (rl := Nat.div (length l) 2) in *. set (ll := (length l - rl)%nat) in *.
        assert (Hlen : (2 <= length l)%nat) by (unfold l; cbn; lia).
        assert (Hrl : (1 <= rl)%nat) by (unfold rl; apply Nat.div_le_lower_bound; lia).
        assert (Hrl2 : (2 * rl <= length l)%nat) by (unfold rl; apply Nat.mul_div_le; lia).
        destruct Hg2 as [G1 G2]. cbv zeta. fold ll. fold ll in G1, G2.
        rewrite (IH (firstn ll l) (firstn ll res)).
        -- rewrite (IH (skipn ll l) (skipn ll res)).
           ++ rewrite <- combine_firstn, <- combine_skipn, <- map_app, firstn_skipn. reflexivity.
           ++ rewrite skipn_length. lia.
           ++ rewrite !skipn_length. lia.
           ++ apply Forall_forall. intros x Hx. rewrite Forall_forall in Hv. apply Hv.
              rewrite <- (firstn_skipn ll res). apply in_or_app. right. exact Hx.
           ++ exact G2.
        -- rewrite firstn_length. lia.
        -- rewrite !firstn_length. lia.
        -- apply Forall_forall. intros x Hx. rewrite Forall_forall in Hv. apply Hv.
           rewrite <- (firstn_skipn ll res). apply in_or_app. left. exact Hx.
        -- exact G1.
Qed.

(* the algebraic core of the 2^-128 bound: for a node that contains an invalid leaf, with all
   other coefficients fixed, AT MOST ONE value of that leaf's coefficient makes the node sum
   vanish (no zero divisors).  With rho uniform over 2^128 values this is 2^-128 per node. *)
Lemma wsum_app l1 l2 : wsum (l1 ++ l2) = fadd (wsum l1) (wsum l2).
Proof. unfold wsum. now rewrite map_app, fsum_app. Qed.

Theorem bad_coefficient_unique (pre post : list eleaf) (e a a' : F) :
  e <> f0 ->
  wsum (pre ++ (a, e) :: post) = f0 -> wsum (pre ++ (a', e) :: post) = f0 -> a = a'.
Proof.
  intros He H1 H2. rewrite wsum_app, wsum_cons in H1, H2. cbn [fst snd] in H1, H2.
  assert (Z : fmul (fsub a a') e = f0).
  { replace (fmul (fsub a a') e) with
      (fsub (fadd (wsum pre) (fadd (fmul a e) (wsum post))) (fadd (wsum pre) (fadd (fmul a' e) (wsum post)))) by ring.
    rewrite H1, H2. ring. }
  destruct (F_integral _ _ Z) as [E|E]; [|contradiction].
  replace a with (fadd (fsub a a') a') by ring. rewrite E. ring.
Qed.

(* counting form: among any duplicate-free list of candidate coefficient values, at most one is bad *)
Corollary bad_coefficients_at_most_one (pre post : list eleaf) (e : F) (cands : list F) :
  e <> f0 -> NoDup cands ->
  (length (filter (fun a => eok (pre ++ (a, e) :: post)) cands) <= 1)%nat.
Proof.
  intros He Hnd. induction Hnd as [|a l Hna _ IH]; [cbn; lia|].
  cbn [filter]. destruct (eok (pre ++ (a, e) :: post)) eqn:Ea; [|exact IH].
  assert (Z : filter (fun a0 => eok (pre ++ (a0, e) :: post)) l = []).
  { destruct (filter _ l) as [|b r] eqn:Ef; [reflexivity|exfalso].
    assert (Hb : In b (filter (fun a0 => eok (pre ++ (a0, e) :: post)) l)) by (rewrite Ef; now left).
    apply filter_In in Hb as [Hbl Hb]. unfold eok in Ea, Hb. apply feqb_eq in Ea, Hb.
    assert (a = b) by (eapply bad_coefficient_unique; eassumption). subst. contradiction. }
  rewrite Z. cbn. lia.
Qed.
End ErrLevel.

(* ---- from the pairing-level node test to the error level ---- *)
Section Bridge.
Context {B : bilinear} {C : codecs}.
Add Ring FRing8 : Fring.

(* a processed leaf made of subgroup elements: (rho*sigma, rho*x) *)
Definition gleaf (rho sigma x : F) : E1 * E2 := ((fmul rho sigma, t1_0), (fmul rho x, t2_0)).

Lemma sum1_gleaves (ls : list (F * F * F)) :
  sum1 (map fst (map (fun t => gleaf (fst (fst t)) (snd (fst t)) (snd t)) ls))
  = (fsum (map (fun t => fmul (fst (fst t)) (snd (fst t))) ls), t1_0).
Proof.
  induction ls as [|t l IH]; [reflexivity|].
  cbn [map]. rewrite sum1_cons, IH, fsum_cons. cbn [gleaf fst]. apply add1_G.
Qed.
Lemma sum2_gleaves (ls : list (F * F * F)) :
  sum2 (map snd (map (fun t => gleaf (fst (fst t)) (snd (fst t)) (snd t)) ls))
  = (fsum (map (fun t => fmul (fst (fst t)) (snd t)) ls), t2_0).
Proof.
  induction ls as [|t l IH]; [reflexivity|].
  cbn [map]. rewrite sum2_cons, IH, fsum_cons. cbn [gleaf snd]. apply add2_G.
Qed.

(* node test of bls_batch_verify_tree on leaves (rho_i*s_i, rho_i*pk_i) = error-level test with
   e_i = sigma_i - x_i*eta *)
Theorem node_check_is_eok eta (ls : list (F * F * F)) :
  node_check (eta, t1_0) (map (fun t => gleaf (fst (fst t)) (snd (fst t)) (snd t)) ls)
  = eok (map (fun t => (fst (fst t), fsub (snd (fst t)) (fmul (snd t) eta))) ls).
Proof.
  unfold node_check. rewrite sum1_gleaves, sum2_gleaves.
  rewrite <- (pk_of_G (fsum (map (fun t => fmul (fst (fst t)) (snd t)) ls))).
  rewrite verify_E1_G. unfold eok, wsum. rewrite map_map. cbn [fst snd].
  set (A := fsum (map (fun t => fmul (fst (fst t)) (snd (fst t))) ls)).
  set (Bq := fsum (map (fun t => fmul (fst (fst t)) (snd t)) ls)).
  assert (E : fsum (map (fun x => fmul (fst (fst x)) (fsub (snd (fst x)) (fmul (snd x) eta))) ls)
              = fsub A (fmul Bq eta)).
  { unfold A, Bq. induction ls as [|t l IH]; cbn [map]; rewrite ?fsum_cons, ?fsum_nil; [ring|]. rewrite IH. ring. }
  rewrite E.
  destruct (feqb_spec A (fmul Bq eta)) as [Q|Q].
  - symmetry. apply feqb_eq. rewrite Q. ring.
  - destruct (feqb_spec (fsub A (fmul Bq eta)) f0) as [Q2|Q2]; [|reflexivity].
    exfalso. apply Q. replace A with (fadd (fsub A (fmul Bq eta)) (fmul Bq eta)) by ring. rewrite Q2. ring.
Qed.
End Bridge.
