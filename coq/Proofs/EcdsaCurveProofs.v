(* Facts about the BigZ execution layer of Prim/EcdsaCurve.v: the modular helpers compute
   what they should over Z ([BigZ.spec_*]), and, under explicit primality hypotheses,
   the inverse mod n is an inverse and the checked square root finds a root whenever one
   exists.  (The group laws of the Jacobian formulas are NOT proved here: they are the
   explicit [ec_laws] hypotheses of the C11 theorems and are exercised by the known
   answers and the correspondence runs.) *)
From mathcomp Require Import ssrbool prime.
From Coq Require Import ZArith NArith List Bool Lia Zdiv Zpow_facts Morphisms Setoid.
From Bignums Require Import BigZ.
From V Require Import Lib.BytesZ Lib.EcFermat Prim.EcdsaCurve Model.Ecdsa Proofs.EcdsaProofs.
Import ListNotations.
Open Scope Z_scope.
Set Warnings "-notation-overridden".

Local Notation tz := BigZ.to_Z.

Lemma bpow_spec m a e : tz (bpow m a e) = (tz a ^ Zpos e) mod tz m.
Proof.
  induction e as [e IH|e IH|]; cbn [bpow].
  - rewrite BigZ.spec_modulo, BigZ.spec_mul, BigZ.spec_modulo, BigZ.spec_mul, IH.
    rewrite <- Zmult_mod. rewrite Zmult_mod_idemp_l.
    replace (Zpos e~1) with (Z.succ (2 * Zpos e)) by lia.
    rewrite Z.pow_succ_r by lia. rewrite Z.pow_twice_r. f_equal. ring.
  - rewrite BigZ.spec_modulo, BigZ.spec_mul, IH. rewrite <- Zmult_mod.
    replace (Zpos e~0) with (2 * Zpos e) by lia. rewrite Z.pow_twice_r. reflexivity.
  - rewrite BigZ.spec_modulo, Z.pow_1_r. reflexivity.
Qed.

Section Concrete.
  Variable C : curve.
  Let n := curve_n C.
  Let p := curve_p C.
  Let a := tz (cv_a C).
  Let b := tz (cv_b C).

  #[local] Instance eqm_p_equiv : Equivalence (eqm p) := eqm_setoid p.
  #[local] Instance eqm_p_add : Proper (eqm p ==> eqm p ==> eqm p) Z.add := Zplus_eqm p.
  #[local] Instance eqm_p_mul : Proper (eqm p ==> eqm p ==> eqm p) Z.mul := Zmult_eqm p.

  Lemma inv_n_spec s : 2 < n -> inv_n C s = (s ^ (n - 2)) mod n.
  Proof.
    intro Hn. unfold inv_n. rewrite bpow_spec, BigZ.spec_of_Z. fold (curve_n C). fold n.
    rewrite Z2Pos.id by lia. reflexivity.
  Qed.

  Lemma fmul_spec x y : tz (fmul C x y) = (tz x * tz y) mod p.
  Proof. unfold fmul. rewrite BigZ.spec_modulo, BigZ.spec_mul. reflexivity. Qed.
  Lemma fadd_spec x y : tz (fadd C x y) = (tz x + tz y) mod p.
  Proof. unfold fadd. rewrite BigZ.spec_modulo, BigZ.spec_add. reflexivity. Qed.

  Lemma rhsZ_spec x : rhsZ C x = (x * x * x + a * x + b) mod p.
  Proof.
    unfold rhsZ, rhs. rewrite !fadd_spec, !fmul_spec, BigZ.spec_modulo, BigZ.spec_of_Z.
    fold (curve_p C). fold p. fold a. fold b.
    match goal with |- ?X mod p = ?Y mod p => change (eqm p X Y) end.
    rewrite !(Zmod_eqm p). reflexivity.
  Qed.

  Lemma sqrt_candZ_spec c : 3 <= p -> sqrt_candZ C c = (c ^ ((p + 1) / 4)) mod p.
  Proof.
    intro Hp. unfold sqrt_candZ, sqrt_cand. rewrite bpow_spec, BigZ.spec_of_Z.
    fold (curve_p C). fold p.
    assert (0 < (p + 1) / 4) by (apply Z.div_str_pos; lia).
    rewrite Z2Pos.id by lia. reflexivity.
  Qed.

  Lemma sqrt_candZ_range c : 3 <= p -> 0 <= sqrt_candZ C c < p.
  Proof. intro Hp. rewrite sqrt_candZ_spec by exact Hp. apply Z.mod_pos_bound. lia. Qed.

  (* inverse mod n, n prime *)
  Theorem concrete_inv_ok :
    is_true (prime (Z.to_nat n)) -> 2 < n ->
    forall s, s mod n <> 0 -> (s * inv_n C s) mod n = 1.
  Proof.
    intros Hpr Hn s Hs. rewrite inv_n_spec by exact Hn. apply fermat_inv_Z; assumption.
  Qed.

  (* raw public keys: the on-curve test is the curve equation *)
  Lemma on_curve_xy_spec x y :
    on_curve_xy (ops_of C) x y = true <-> (y * y) mod p = (x * x * x + a * x + b) mod p.
  Proof.
    unfold on_curve_xy. cbn [ops_of eo_p eo_rhs]. fold p. rewrite rhsZ_spec. apply Z.eqb_eq.
  Qed.

  (* compressed public keys are accepted exactly when x^3 + a x + b is a square mod p *)
  Theorem compressed_accept_iff_square bs :
    is_true (prime (Z.to_nat p)) -> p mod 4 = 3 -> 2 ^ 255 <= p < 2 ^ 256 ->
    ((exists Q, decodePublicKeyCompressed (ops_of C) bs = ROk Q) <->
     exists pre xb, bs = pre :: xb /\ length bs = 33%nat /\ (pre = 2%N \/ pre = 3%N) /\
       os2ip xb < p /\
       exists z, 0 <= z /\ (z * z) mod p = (os2ip xb * os2ip xb * os2ip xb + a * os2ip xb + b) mod p).
  Proof.
    intros Hpr H34 Hp.
    assert (Hp3 : 3 <= p) by lia.
    split.
    - intros [[x y] H]. apply decodeCompressed_iff in H.
      destruct H as (pre & xb & E & L & Hpre & -> & Hx & Hsq & _).
      exists pre, xb. repeat split; auto.
      cbn [ops_of eo_p eo_rhs eo_sqrt_cand] in *. fold p in Hsq, Hx |- *.
      exists (sqrt_candZ C (rhsZ C (os2ip xb))). split.
      + apply sqrt_candZ_range. exact Hp3.
      + rewrite Hsq. apply rhsZ_spec.
    - intros (pre & xb & E & L & Hpre & Hx & z & Hz & Hzz).
      set (x := os2ip xb) in *.
      set (y0 := sqrt_candZ C (rhsZ C x)).
      exists (x, select_root (ops_of C) y0 pre).
      apply decodeCompressed_iff. exists pre, xb.
      split; [exact E|]. split; [exact L|]. split; [exact Hpre|]. split; [reflexivity|].
      split; [exact Hx|].
      cbn [ops_of eo_p eo_rhs eo_sqrt_cand]. fold p. fold x. fold y0. split; [|reflexivity].
      unfold y0. rewrite sqrt_candZ_spec by exact Hp3. rewrite rhsZ_spec. fold a b.
      set (c := x * x * x + a * x + b) in *.
      rewrite <- (Zpower_mod c) by lia.
      rewrite (sqrt_3mod4_Z p c z Hpr H34 Hz (eq_sym Hzz)). reflexivity.
  Qed.
End Concrete.
