(* Small tactics shared by the DKG proofs. *)
From Coq Require Import ZArith List Bool Arith Lia.
Import ListNotations.

(* destruct the scrutinee of the first match/if found in the goal *)
Ltac brk_goal :=
  match goal with
  | |- context[match ?x with _ => _ end] =>
      lazymatch x with
      | context[match _ with _ => _ end] => fail
      | _ => destruct x eqn:?
      end
  end.

Ltac brk_hyp H :=
  match type of H with
  | context[match ?x with _ => _ end] =>
      lazymatch x with
      | context[match _ with _ => _ end] => fail
      | _ => destruct x eqn:?
      end
  end.

Ltac inv_pairs :=
  repeat match goal with
  | H : (_, _) = (_, _) |- _ => inversion H; subst; clear H
  | H : Some _ = Some _ |- _ => inversion H; subst; clear H
  | H : Some _ = None |- _ => discriminate H
  | H : None = Some _ |- _ => discriminate H
  | H : true = false |- _ => discriminate H
  | H : false = true |- _ => discriminate H
  end.
