(* The 11-isogeny of the hash-to-curve step maps E1' to E1.
   With N, D, M, E the numerator / denominator polynomials of RFC 9380 Appendix E.2 (D, E monic)
   and G = X^3 + A' X + B', the map (x, y) |-> (N/D, y M/E) sends y^2 = G(x) to Y^2 = X^3 + 4 iff
        G M^2 D^3 = E^2 (N^3 + 4 D^3)        in F_p[X].
   This file 1. implements polynomial arithmetic on coefficient lists (index i = coefficient of X^i,
   the order of [poly_eval] in Spec/HashToCurveSpec.v) and proves that the HOMOGENEOUS evaluation
   sum_i k_i X^i W^(n-i) is multiplicative (exact identities over Z);  2. checks the identity of
   the two coefficient lists mod p by computation;  3. concludes for the affine rational map of the
   specification ([spec_iso_map]) and for the Jacobian-coordinates evaluation of blst
   ([iso_map] of Model/MapToG1.v, W = Z^2).  Primality of the modulus is an explicit hypothesis. *)
From Coq Require Import ZArith NArith List Bool Lia Zdiv Zpow_facts Morphisms Setoid.
From V Require Import Lib.Num Lib.FermatZ Prim.Bls12 Proofs.ModArith
  Generated.IsoG1 Model.MapToG1 Spec.HashToCurveSpec Proofs.MapToG1Proofs.
Import ListNotations.
Open Scope Z_scope.

(* ================= 1. polynomials as coefficient lists ================= *)
Definition zlen (l : list Z) : Z := Z.of_nat (List.length l).

(* sum_i k_i X^i W^(n-i), n = length - 1 *)
Fixpoint heval (ks : list Z) (X W : Z) : Z :=
  match ks with
  | [] => 0
  | k :: r => k * W ^ zlen r + X * heval r X W
  end.

Fixpoint padd (u v : list Z) : list Z :=
  match u, v with
  | a :: u', b :: v' => (a + b) :: padd u' v'
  | [], _ => v
  | _, [] => u
  end.
Definition pscale (c : Z) (l : list Z) : list Z := map (Z.mul c) l.
Definition zeros (n : nat) : list Z := repeat 0 n.
(* product, of length |a| + |b| - 1 for non-empty b *)
Fixpoint pmul (a b : list Z) : list Z :=
  match a with
  | [] => zeros (pred (List.length b))
  | a0 :: a' => padd (pscale a0 b ++ zeros (List.length a')) (0 :: pmul a' b)
  end.

Lemma zlen_cons k r : zlen (k :: r) = zlen r + 1.
Proof. unfold zlen. cbn [List.length]. lia. Qed.
Lemma zlen_nonneg l : 0 <= zlen l. Proof. unfold zlen. lia. Qed.

Lemma heval_zeros n X W : heval (zeros n) X W = 0.
Proof. induction n as [|n IH]; cbn [zeros repeat heval]; [reflexivity|]. fold (zeros n). rewrite IH. ring. Qed.

Lemma heval_app_zeros l n X W : heval (l ++ zeros n) X W = W ^ Z.of_nat n * heval l X W.
Proof.
  induction l as [|k r IH]; cbn [app heval].
  - rewrite heval_zeros. ring.
  - rewrite IH. unfold zlen. rewrite app_length. unfold zeros at 1. rewrite repeat_length.
    rewrite Nat2Z.inj_add. rewrite Z.pow_add_r by lia. ring.
Qed.

Lemma heval_pscale c l X W : heval (pscale c l) X W = c * heval l X W.
Proof.
  induction l as [|k r IH]; cbn [pscale map heval]; [ring|].
  fold (pscale c r). rewrite IH. unfold zlen, pscale. rewrite map_length. ring.
Qed.

Lemma padd_length u v : List.length u = List.length v -> List.length (padd u v) = List.length u.
Proof.
  revert v; induction u as [|a u IH]; intros [|b v] H; cbn in *; try lia. rewrite IH; lia.
Qed.
Lemma heval_padd u v X W : List.length u = List.length v ->
  heval (padd u v) X W = heval u X W + heval v X W.
Proof.
  revert v; induction u as [|a u IH]; intros [|b v] H; cbn [padd heval]; cbn in H; try lia.
  rewrite IH by lia. unfold zlen. rewrite padd_length by lia.
  replace (List.length v) with (List.length u) by lia. ring.
Qed.

Lemma pmul_length a b : b <> [] -> List.length (pmul a b) = pred (List.length a + List.length b).
Proof.
  intro Hb. assert (0 < List.length b)%nat by (destruct b; [congruence|cbn; lia]).
  induction a as [|a0 a IH]; cbn [pmul].
  - unfold zeros. rewrite repeat_length. reflexivity.
  - rewrite padd_length.
    + rewrite app_length. unfold pscale, zeros. rewrite map_length, repeat_length. cbn [List.length]. lia.
    + rewrite app_length. unfold pscale, zeros. rewrite map_length, repeat_length. cbn [List.length].
      rewrite IH. lia.
Qed.

Theorem heval_pmul a b X W : b <> [] -> heval (pmul a b) X W = heval a X W * heval b X W.
Proof.
  intro Hb. assert (0 < List.length b)%nat by (destruct b; [congruence|cbn; lia]).
  induction a as [|a0 a IH]; cbn [pmul heval].
  - rewrite heval_zeros. ring.
  - rewrite heval_padd.
    + rewrite heval_app_zeros, heval_pscale. cbn [heval]. rewrite IH. unfold zlen. ring.
    + rewrite app_length. unfold pscale, zeros. rewrite map_length, repeat_length. cbn [List.length].
      rewrite pmul_length by exact Hb. lia.
Qed.

(* ---- coefficients modulo p ---- *)
Section ModP.
Variable p : Z.
#[local] Instance eqm_i_equiv : Equivalence (eqm p) := eqm_setoid p.
#[local] Instance eqm_i_add : Proper (eqm p ==> eqm p ==> eqm p) Z.add := Zplus_eqm p.
#[local] Instance eqm_i_mul : Proper (eqm p ==> eqm p ==> eqm p) Z.mul := Zmult_eqm p.
#[local] Instance eqm_i_sub : Proper (eqm p ==> eqm p ==> eqm p) Z.sub := Zminus_eqm p.
Local Notation "a == b" := (eqm p a b) (at level 70).

Definition pred_mod (l : list Z) : list Z := map (fun c => c mod p) l.
Definition pmulm (a b : list Z) : list Z := pred_mod (pmul a b).

(* equal length and coefficient-wise congruent *)
Fixpoint pcong (u v : list Z) : bool :=
  match u, v with
  | [], [] => true
  | a :: u', b :: v' => if ((a - b) mod p =? 0) then pcong u' v' else false
  | _, _ => false
  end.

Lemma pcong_length u v : pcong u v = true -> List.length u = List.length v.
Proof.
  revert v; induction u as [|a u IH]; intros [|b v] H; cbn in *; try congruence.
  destruct (_ =? 0); [|discriminate]. f_equal. apply IH. exact H.
Qed.
Lemma heval_pcong u v X W : pcong u v = true -> heval u X W == heval v X W.
Proof.
  revert v; induction u as [|a u IH]; intros [|b v] H; cbn [pcong] in H; try discriminate.
  - reflexivity.
  - destruct ((a - b) mod p =? 0) eqn:E; [|discriminate]. apply Z.eqb_eq in E.
    cbn [heval]. rewrite (IH v H). unfold zlen. rewrite (pcong_length u v H).
    assert (Q : a == b).
    { apply eqm_sub0. unfold eqm. rewrite E. destruct (Z.eq_dec p 0) as [->|N]; [reflexivity|].
      symmetry. apply Z.mod_0_l. exact N. }
    rewrite Q. reflexivity.
Qed.
Lemma heval_pred_mod l X W : heval (pred_mod l) X W == heval l X W.
Proof.
  induction l as [|k r IH]; cbn [pred_mod map heval]; [reflexivity|].
  fold (pred_mod r). rewrite IH. unfold zlen, pred_mod. rewrite map_length.
  rewrite (Zmod_eqm p k). reflexivity.
Qed.
Lemma pred_mod_length l : List.length (pred_mod l) = List.length l.
Proof. apply map_length. Qed.
Lemma heval_pmulm a b X W : b <> [] -> heval (pmulm a b) X W == heval a X W * heval b X W.
Proof. intro Hb. unfold pmulm. rewrite heval_pred_mod, heval_pmul by exact Hb. reflexivity. Qed.
Lemma pmulm_nonempty a b : a <> [] -> b <> [] -> pmulm a b <> [].
Proof.
  intros Ha Hb E. apply (f_equal (@List.length Z)) in E. unfold pmulm in E.
  rewrite pred_mod_length, pmul_length in E by exact Hb.
  destruct a; [congruence|]. destruct b; [congruence|]. cbn in E. lia.
Qed.
End ModP.

Lemma zlen_snoc l k : zlen (l ++ [k]) = zlen l + 1.
Proof. unfold zlen. rewrite app_length. cbn [List.length]. lia. Qed.
Lemma heval_snoc l k X W : heval (l ++ [k]) X W = W * heval l X W + k * X ^ zlen l.
Proof.
  induction l as [|a l IH]; cbn [app heval].
  - unfold zlen. cbn. ring.
  - rewrite IH, zlen_snoc, zlen_cons. pose proof (zlen_nonneg l).
    rewrite !Z.pow_add_r by lia. rewrite !Z.pow_1_r. ring.
Qed.

(* ================= 2. the identity of the coefficient lists ================= *)
(* G M^2 D^3 = E^2 (N^3 + 4 D^3 W^3) coefficient by coefficient mod p (homogeneous degree 63) *)
Definition iso_identity_check (p A B : Z) (k1 k2 k3 k4 : list Z) : bool :=
  let N := k1 in let D := k2 ++ [1] in let Mn := k3 in let E := k4 ++ [1] in
  let D3 := pmulm p D (pmulm p D D) in
  let N3 := pmulm p N (pmulm p N N) in
  let D3pad := pscale 4 D3 ++ zeros 3 in
  let lhs := pmulm p [B; A; 0; 1] (pmulm p (pmulm p Mn Mn) D3) in
  let rhs := pmulm p (pmulm p E E) (padd N3 D3pad) in
  if Nat.eqb (List.length N3) (List.length D3pad) then pcong p lhs rhs else false.

Section Identity.
Variable p : Z.
Variables (A B : Z) (k1 k2 k3 k4 : list Z).
Hypothesis Hchk : iso_identity_check p A B k1 k2 k3 k4 = true.
Hypothesis Hk1 : k1 <> [].
Hypothesis Hk3 : k3 <> [].
#[local] Instance eqm_j_equiv : Equivalence (eqm p) := eqm_setoid p.
#[local] Instance eqm_j_add : Proper (eqm p ==> eqm p ==> eqm p) Z.add := Zplus_eqm p.
#[local] Instance eqm_j_mul : Proper (eqm p ==> eqm p ==> eqm p) Z.mul := Zmult_eqm p.
#[local] Instance eqm_j_sub : Proper (eqm p ==> eqm p ==> eqm p) Z.sub := Zminus_eqm p.
Local Notation "a == b" := (eqm p a b) (at level 70).

Lemma app1_nonempty (l : list Z) : l ++ [1] <> [].
Proof. destruct l; discriminate. Qed.

Theorem iso_identity_heval X W :
  let n := heval k1 X W in let d := heval (k2 ++ [1]) X W in
  let m := heval k3 X W in let e := heval (k4 ++ [1]) X W in
  (B * (W * W * W) + A * X * (W * W) + X * X * X) * (m * m) * (d * (d * d)) ==
  (e * e) * (n * (n * n) + 4 * (d * (d * d)) * (W * W * W)).
Proof.
  intros n d m e. unfold iso_identity_check in Hchk. cbv zeta in Hchk.
  set (D := k2 ++ [1]) in *. set (E := k4 ++ [1]) in *.
  assert (HD : D <> []) by apply app1_nonempty.
  assert (HE : E <> []) by apply app1_nonempty.
  set (D3 := pmulm p D (pmulm p D D)) in *.
  set (N3 := pmulm p k1 (pmulm p k1 k1)) in *.
  destruct (Nat.eqb (List.length N3) (List.length (pscale 4 D3 ++ zeros 3))) eqn:EL; [|discriminate].
  apply Nat.eqb_eq in EL.
  pose proof (heval_pcong p _ _ X W Hchk) as H.
  assert (HD2 : pmulm p D D <> []) by (apply pmulm_nonempty; assumption).
  assert (HD3 : D3 <> []) by (apply pmulm_nonempty; assumption).
  assert (HM2 : pmulm p k3 k3 <> []) by (apply pmulm_nonempty; assumption).
  assert (HN2 : pmulm p k1 k1 <> []) by (apply pmulm_nonempty; assumption).
  assert (HN3 : N3 <> []) by (apply pmulm_nonempty; assumption).
  assert (ED3 : heval D3 X W == d * (d * d)).
  { unfold D3. rewrite !heval_pmulm by assumption. reflexivity. }
  assert (EN3 : heval N3 X W == n * (n * n)).
  { unfold N3. rewrite !heval_pmulm by assumption. reflexivity. }
  rewrite heval_pmulm in H by (apply pmulm_nonempty; assumption).
  rewrite (heval_pmulm p (pmulm p k3 k3) D3) in H by assumption.
  rewrite (heval_pmulm p k3 k3) in H by assumption.
  rewrite ED3 in H.
  rewrite heval_pmulm in H.
  2: { intro Q. apply (f_equal (@List.length Z)) in Q. rewrite padd_length in Q by exact EL.
       destruct N3; [congruence|discriminate]. }
  rewrite (heval_pmulm p E E) in H by assumption.
  rewrite heval_padd in H by exact EL.
  rewrite heval_app_zeros, heval_pscale in H. rewrite EN3, ED3 in H.
  fold m e in H.
  cbn [heval] in H. change (zlen [A; 0; 1]) with 3 in H. change (zlen [0; 1]) with 2 in H.
  change (zlen [1]) with 1 in H. change (zlen (@nil Z)) with 0 in H. change (Z.of_nat 3) with 3 in H.
  etransitivity; [|etransitivity; [exact H|]]; apply eq_eqm; ring.
Qed.
End Identity.

(* ================= 3. the maps ================= *)
Definition jac_eq (p a b : Z) (P : @jpt Z) : Prop :=
  (jy P * jy P) mod p =
  (jx P * jx P * jx P + a * jx P * (jz P * jz P * jz P * jz P)
   + b * (jz P * jz P * jz P * jz P * jz P * jz P)) mod p.

Section Maps.
Variable p : Z.
Hypothesis Hp1 : 1 < p.
#[local] Instance eqm_k_equiv : Equivalence (eqm p) := eqm_setoid p.
#[local] Instance eqm_k_add : Proper (eqm p ==> eqm p ==> eqm p) Z.add := Zplus_eqm p.
#[local] Instance eqm_k_mul : Proper (eqm p ==> eqm p ==> eqm p) Z.mul := Zmult_eqm p.
#[local] Instance eqm_k_sub : Proper (eqm p ==> eqm p ==> eqm p) Z.sub := Zminus_eqm p.
Local Notation "a == b" := (eqm p a b) (at level 70).

(* the specification's Horner evaluation *)
Lemma poly_eval_heval ks x : poly_eval ZNum p ks x == heval ks x 1.
Proof.
  induction ks as [|k r IH]; cbn [poly_eval fold_right heval].
  - reflexivity.
  - fold (poly_eval ZNum p r x). rewrite fadd_eqm, fmul_eqm, IH.
    rewrite Z.pow_1_l by apply zlen_nonneg. apply eq_eqm. ring.
Qed.

(* blst's evaluation with the powers of Z^2 laid down: Horner from the leading coefficient *)
Lemma hom_fold_heval X W rest : forall acc pw,
  fst (fold_left (fun (st : Z * Z) k =>
                    let pw := fmul ZNum p (snd st) W in
                    (fadd ZNum p (fmul ZNum p (fst st) X) (fmul ZNum p k pw), pw)) rest (acc, pw))
  == acc * X ^ zlen rest + pw * W * heval (rev rest) X W.
Proof.
  induction rest as [|k r IH]; intros acc pw; cbn [fold_left rev heval fst snd].
  - unfold zlen. cbn. apply eq_eqm. ring.
  - cbv zeta. rewrite IH. rewrite heval_snoc, zlen_cons. unfold zlen at 3. rewrite rev_length. fold (zlen r).
    rewrite fadd_eqm, !fmul_eqm. pose proof (zlen_nonneg r).
    rewrite Z.pow_add_r by lia. rewrite Z.pow_1_r. apply eq_eqm. ring.
Qed.
Lemma hom_eval_heval ks X W : hom_eval ZNum p ks X W == heval ks X W.
Proof.
  unfold hom_eval. destruct (rev ks) as [|lead rest] eqn:E.
  - apply (f_equal (@rev Z)) in E. rewrite rev_involutive in E. subst ks. reflexivity.
  - apply (f_equal (@rev Z)) in E. rewrite rev_involutive in E. subst ks. cbn [rev].
    rewrite hom_fold_heval, heval_snoc. unfold zlen. rewrite rev_length.
    change (n_of_Z ZNum 1) with 1. apply eq_eqm. ring.
Qed.

(* ---- algebra of the two forms of the map, over plain integers ---- *)
Lemma iso_affine_algebra n d m e id ie y g X Y :
  (forall c a b, ~ c == 0 -> c * a == c * b -> a == b) ->
  ~ d * (d * d) * (e * e) == 0 ->
  d * id == 1 -> e * ie == 1 -> y * y == g ->
  g * (m * m) * (d * (d * d)) == (e * e) * (n * (n * n) + 4 * (d * (d * d)) * (1 * 1 * 1)) ->
  X == n * id -> Y == y * (m * ie) ->
  Y * Y == X * X * X + 4.
Proof.
  intros cancel Hc Hd He Hy Hid HX HY.
  apply (cancel (d * (d * d) * (e * e))); [exact Hc|].
  rewrite HX, HY.
  transitivity ((e * ie) * (e * ie) * ((y * y) * (m * m) * (d * (d * d)))); [apply eq_eqm; ring|].
  rewrite He, Hy, Hid.
  transitivity ((e * e) * ((d * id) * (d * id) * (d * id) * (n * (n * n)) + 4 * (d * (d * d)))).
  - rewrite Hd. apply eq_eqm. ring.
  - apply eq_eqm. ring.
Qed.

Lemma iso_jacobian_algebra n d m e Y Zc W g xd yd yn Zo Xo Yo :
  W == Zc * Zc -> Y * Y == g ->
  g * (m * m) * (d * (d * d)) == (e * e) * (n * (n * n) + 4 * (d * (d * d)) * (W * W * W)) ->
  xd == d * W -> yd == e * (W * Zc) -> yn == m * Y ->
  Zo == xd * yd -> Xo == n * yd * Zo -> Yo == Zo * Zo * xd * yn ->
  Yo * Yo == Xo * Xo * Xo + 4 * (Zo * Zo * Zo * Zo * Zo * Zo).
Proof.
  intros HW HY Hid Hxd Hyd0 Hyn HZo HXo HYo.
  assert (Hyd2 : yd * yd == (e * e) * (W * W * W)).
  { rewrite Hyd0. transitivity ((e * e) * (W * W * (Zc * Zc))); [apply eq_eqm; ring|].
    rewrite <- HW. apply eq_eqm. ring. }
  rewrite HYo, HXo, Hyn, HZo, Hxd. clear HYo HXo Hyn HZo Hxd Hyd0 HW.
  transitivity ((d * (d * d)) * W ^ 6 * yd ^ 4 * ((Y * Y) * (m * m) * (d * (d * d)))); [apply eq_eqm; ring|].
  rewrite HY, Hid.
  transitivity ((d * (d * d)) * W ^ 3 * yd ^ 4 * ((yd * yd) * (n * (n * n) + 4 * (d * (d * d)) * (W * W * W)))).
  - rewrite Hyd2. apply eq_eqm. ring.
  - apply eq_eqm. ring.
Qed.
End Maps.

(* ================= 4. the theorems, modulus p of BLS12-381 ================= *)
Section Final.
Hypothesis Hpr : primeZ pZ.
Let Hp1 : 1 < pZ := primeZ_gt1 pZ Hpr.
#[local] Instance eqm_f_equiv : Equivalence (eqm pZ) := eqm_setoid pZ.
#[local] Instance eqm_f_add : Proper (eqm pZ ==> eqm pZ ==> eqm pZ) Z.add := Zplus_eqm pZ.
#[local] Instance eqm_f_mul : Proper (eqm pZ ==> eqm pZ ==> eqm pZ) Z.mul := Zmult_eqm pZ.
#[local] Instance eqm_f_sub : Proper (eqm pZ ==> eqm pZ ==> eqm pZ) Z.sub := Zminus_eqm pZ.
Local Notation "a == b" := (eqm pZ a b) (at level 70).

Lemma pZ_gt2 : 2 < pZ. Proof. reflexivity. Qed.

(* Fermat inverse *)
Lemma finv_is_inverse a : 0 <= a < pZ -> a <> 0 -> a * finv ZNum pZ a == 1.
Proof.
  intros Ha Hnz. pose proof pZ_gt2 as H2.
  unfold finv, fpow. rewrite (mpow_Z pZ Hp1 a (pZ - 2)) by lia.
  rewrite (Zmod_eqm pZ).
  replace (a * a ^ (pZ - 2)) with (a ^ (pZ - 1)).
  - unfold eqm. rewrite (fermat_unit pZ Hp1 Hpr a) by (try lia; rewrite Z.mod_small by lia; exact Hnz).
    symmetry. apply Z.mod_small. lia.
  - replace (pZ - 1) with (1 + (pZ - 2)) by lia. rewrite Z.pow_add_r by lia. rewrite Z.pow_1_r. reflexivity.
Qed.

Lemma poly_eval_range ks x : ks <> [] -> 0 <= poly_eval ZNum pZ ks x < pZ.
Proof. destruct ks as [|k r]; [congruence|]. intros _. cbn [poly_eval fold_right]. apply Z.mod_pos_bound. lia. Qed.

Lemma nz_of_small a : 0 <= a < pZ -> a <> 0 -> ~ a == 0.
Proof. intros Ha Hnz Q. apply Hnz. apply (eqm0_small pZ Hpr a Ha Q). Qed.

Section Tables.
Variables (A B : Z) (k1 k2 k3 k4 : list Z).
Hypothesis Hchk : iso_identity_check pZ A B k1 k2 k3 k4 = true.
Hypothesis Hk1 : k1 <> [].
Hypothesis Hk3 : k3 <> [].

(* the rational map of RFC 9380 Appendix E.2 / section 6.6.3, as written in the specification:
   a point of E1' whose image is finite is sent to a point of E1: y^2 = x^3 + 4 *)
Theorem spec_iso_on_E1_gen x y :
  (y * y) mod pZ = (x * x * x + A * x + B) mod pZ ->
  forall X Y, spec_iso_map ZNum pZ k1 k2 k3 k4 (Some (x, y)) = Some (X, Y) ->
  (Y * Y) mod pZ = (X * X * X + 4) mod pZ.
Proof.
  intros Hon X Y. unfold spec_iso_map. cbv zeta. change (n_of_Z ZNum 1) with 1. change (n_of_Z ZNum 0) with 0.
  set (dx := poly_eval ZNum pZ (k2 ++ [1]) x). set (dy := poly_eval ZNum pZ (k4 ++ [1]) x).
  assert (Rdx : 0 <= dx < pZ) by (apply poly_eval_range, app1_nonempty).
  assert (Rdy : 0 <= dy < pZ) by (apply poly_eval_range, app1_nonempty).
  change (feqb ZNum dx 0) with (dx =? 0). change (feqb ZNum dy 0) with (dy =? 0).
  destruct (Z.eqb_spec dx 0) as [|Ndx]; [discriminate|].
  destruct (Z.eqb_spec dy 0) as [|Ndy]; [discriminate|].
  intro E. injection E as EX EY.
  change ((Y * Y) == (X * X * X + 4)).
  pose proof (nz_of_small dx Rdx Ndx) as Zdx. pose proof (nz_of_small dy Rdy Ndy) as Zdy.
  apply (iso_affine_algebra pZ (poly_eval ZNum pZ k1 x) dx (poly_eval ZNum pZ k3 x) dy
           (finv ZNum pZ dx) (finv ZNum pZ dy) y (x * x * x + A * x + B)).
  - apply (eqm_cancel pZ Hpr).
  - intro Q. destruct (eqm_mul_zero pZ Hpr _ _ Q) as [Q1|Q1].
    + destruct (eqm_mul_zero pZ Hpr _ _ Q1) as [Q2|Q2]; [contradiction|].
      destruct (eqm_mul_zero pZ Hpr _ _ Q2); contradiction.
    + destruct (eqm_mul_zero pZ Hpr _ _ Q1); contradiction.
  - apply finv_is_inverse; assumption.
  - apply finv_is_inverse; assumption.
  - exact Hon.
  - unfold dx, dy. rewrite !poly_eval_heval.
    pose proof (iso_identity_heval pZ A B k1 k2 k3 k4 Hchk Hk1 Hk3 x 1) as H. cbv zeta in H.
    etransitivity; [|etransitivity; [exact H|]]; apply eq_eqm; ring.
  - rewrite <- EX. apply fmul_eqm.
  - rewrite <- EY. rewrite !(Zmod_eqm pZ). reflexivity.
Qed.

(* blst's evaluation in Jacobian coordinates (isogeny_map_to_E1): if (X, Y, Z) satisfies the
   Jacobian equation of E1' then the output satisfies the Jacobian equation of E1 (whatever Z is;
   a point of the kernel gives Z = 0) *)
Theorem iso_map_on_E1_gen P :
  jac_eq pZ A B P -> jac_eq pZ 0 4 (iso_map ZNum pZ (mkIso Z k1 k2 k3 k4) P).
Proof.
  unfold jac_eq. intro Hon. change (jy P * jy P == jx P * jx P * jx P + A * jx P * (jz P * jz P * jz P * jz P)
      + B * (jz P * jz P * jz P * jz P * jz P * jz P)) in Hon.
  unfold iso_map. cbv zeta. cbn [jx jy jz it_xn it_xd it_yn it_yd]. change (n_of_Z ZNum 1) with 1.
  set (X := jx P) in *. set (Y := jy P) in *. set (Zc := jz P) in *.
  set (W := fmul ZNum pZ Zc Zc).
  assert (HW : W == Zc * Zc) by apply fmul_eqm.
  set (xn := hom_eval ZNum pZ k1 X W).
  set (xd := fmul ZNum pZ (hom_eval ZNum pZ (k2 ++ [1]) X W) W).
  set (yn := fmul ZNum pZ (hom_eval ZNum pZ k3 X W) Y).
  set (yd := fmul ZNum pZ (hom_eval ZNum pZ (k4 ++ [1]) X W) (fmul ZNum pZ W Zc)).
  set (Zo := fmul ZNum pZ xd yd).
  set (Xo := fmul ZNum pZ (fmul ZNum pZ xn yd) Zo).
  set (Yo := fmul ZNum pZ (fmul ZNum pZ (fmul ZNum pZ Zo Zo) xd) yn).
  match goal with |- ?l mod pZ = ?r mod pZ => change (l == r) end.
  transitivity (Xo * Xo * Xo + 4 * (Zo * Zo * Zo * Zo * Zo * Zo)); [|apply eq_eqm; ring].
  apply (iso_jacobian_algebra pZ (heval k1 X W) (heval (k2 ++ [1]) X W) (heval k3 X W) (heval (k4 ++ [1]) X W)
           Y Zc W (B * (W * W * W) + A * X * (W * W) + X * X * X) xd yd yn Zo Xo Yo).
  - exact HW.
  - rewrite Hon. rewrite HW. apply eq_eqm. ring.
  - pose proof (iso_identity_heval pZ A B k1 k2 k3 k4 Hchk Hk1 Hk3 X W) as H. cbv zeta in H. exact H.
  - unfold xd. rewrite fmul_eqm, hom_eval_heval. reflexivity.
  - unfold yd. rewrite !fmul_eqm, hom_eval_heval. reflexivity.
  - unfold yn. rewrite fmul_eqm, hom_eval_heval. reflexivity.
  - apply fmul_eqm.
  - unfold Xo. rewrite !fmul_eqm. unfold xn. rewrite hom_eval_heval. reflexivity.
  - unfold Yo. rewrite !fmul_eqm. reflexivity.
Qed.
End Tables.

(* ---- the coefficient identity holds for the RFC's constants (and the translator's tables are
   those, MapToG1Proofs.iso_tables_are_rfc) ---- *)
Lemma iso_identity_rfc : iso_identity_check pZ rfc_Aprime rfc_Bprime rfc_k1 rfc_k2 rfc_k3 rfc_k4 = true.
Proof. vm_compute. reflexivity. Qed.

Lemma map_ofZ_id (l : list Z) : map (n_of_Z ZNum) l = l.
Proof. apply map_id. Qed.

Theorem spec_iso_on_E1 x y :
  (y * y) mod pZ = (x * x * x + rfc_Aprime * x + rfc_Bprime) mod pZ ->
  forall X Y,
    spec_iso_map ZNum pZ (map (n_of_Z ZNum) rfc_k1) (map (n_of_Z ZNum) rfc_k2)
                 (map (n_of_Z ZNum) rfc_k3) (map (n_of_Z ZNum) rfc_k4) (Some (x, y)) = Some (X, Y) ->
    (Y * Y) mod pZ = (X * X * X + 4) mod pZ.
Proof.
  rewrite !map_ofZ_id.
  apply (spec_iso_on_E1_gen rfc_Aprime rfc_Bprime rfc_k1 rfc_k2 rfc_k3 rfc_k4 iso_identity_rfc);
    discriminate.
Qed.

Lemma iso_tabs_Z : iso_tabs ZNum = mkIso Z rfc_k1 rfc_k2 rfc_k3 rfc_k4.
Proof.
  unfold iso_tabs. rewrite !map_ofZ_id.
  assert (E1 : iso_x_num = rfc_k1) by reflexivity. assert (E2 : iso_x_den = rfc_k2) by reflexivity.
  assert (E3 : iso_y_num = rfc_k3) by reflexivity. assert (E4 : iso_y_den = rfc_k4) by reflexivity.
  rewrite E1, E2, E3, E4. reflexivity.
Qed.

Theorem iso_map_on_E1 P :
  jac_eq pZ iso_Aprime iso_Bprime P -> jac_eq pZ 0 4 (iso_map ZNum pZ (iso_tabs ZNum) P).
Proof.
  rewrite iso_tabs_Z. change iso_Aprime with rfc_Aprime. change iso_Bprime with rfc_Bprime.
  apply (iso_map_on_E1_gen rfc_Aprime rfc_Bprime rfc_k1 rfc_k2 rfc_k3 rfc_k4 iso_identity_rfc); discriminate.
Qed.

(* SSWU followed by the isogeny (the map of a single field element, blst's Encode_to_G1 path
   before cofactor clearing): for every u the result satisfies the Jacobian equation of E1 *)
Corollary iso_of_sswu_on_E1 u :
  jac_eq pZ 0 4 (iso_map ZNum pZ (iso_tabs ZNum) (sswu ZNum pZ (iso_params ZNum) u)).
Proof. apply iso_map_on_E1. apply (sswu_on_E1prime Hpr u). Qed.
End Final.

(* non-vacuity of [spec_iso_on_E1]: the image of u = 1 under the specification's SSWU is a point
   of E1' where both denominators of the isogeny are non-zero *)
Definition sample_E1prime_x : Z := 0x174657bd1790e3c18599f7331604540c9317297001e4ef7e30848c67b39962d4d7bdb3ceb81ebad2f30b0879aa7c8d7a.
Definition sample_E1prime_y : Z := 0x60c037ddd686c247964cd679764e008f5c9888fa34b34fc31808877bc6c890c4f8991a3b9a1a82ed88c8f713228c1d7.
Lemma sample_E1prime_ok :
  (sample_E1prime_y * sample_E1prime_y) mod pZ =
  (sample_E1prime_x * sample_E1prime_x * sample_E1prime_x + rfc_Aprime * sample_E1prime_x + rfc_Bprime) mod pZ /\
  poly_eval ZNum pZ (rfc_k2 ++ [1]) sample_E1prime_x <> 0 /\
  poly_eval ZNum pZ (rfc_k4 ++ [1]) sample_E1prime_x <> 0.
Proof. vm_compute. repeat split; congruence. Qed.
Lemma spec_iso_defined p k1 k2 k3 k4 x y :
  poly_eval ZNum p (k2 ++ [1]) x <> 0 -> poly_eval ZNum p (k4 ++ [1]) x <> 0 ->
  exists X Y, spec_iso_map ZNum p k1 k2 k3 k4 (Some (x, y)) = Some (X, Y).
Proof.
  intros Hx Hy. unfold spec_iso_map. cbv zeta.
  change (n_of_Z ZNum 1) with 1. change (n_of_Z ZNum 0) with 0.
  set (dx := poly_eval ZNum p (k2 ++ [1]) x) in *. set (dy := poly_eval ZNum p (k4 ++ [1]) x) in *.
  change (feqb ZNum dx 0) with (dx =? 0). change (feqb ZNum dy 0) with (dy =? 0).
  destruct (Z.eqb_spec dx 0); [contradiction|]. destruct (Z.eqb_spec dy 0); [contradiction|].
  eexists. eexists. reflexivity.
Qed.
Lemma sample_E1prime_image :
  exists X Y, spec_iso_map ZNum pZ (map (n_of_Z ZNum) rfc_k1) (map (n_of_Z ZNum) rfc_k2)
                (map (n_of_Z ZNum) rfc_k3) (map (n_of_Z ZNum) rfc_k4)
                (Some (sample_E1prime_x, sample_E1prime_y)) = Some (X, Y).
Proof.
  destruct sample_E1prime_ok as (_ & Hx & Hy). rewrite !map_id. apply spec_iso_defined; assumption.
Qed.
