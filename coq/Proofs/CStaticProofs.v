(* The C glue keeps no mutable function-local static storage (a scratch buffer shared by concurrent
   calls would be a shared write that the Go-side effect skeletons cannot see).  Regenerated list. *)
From Coq Require Import String List.
From V Require Import Generated.Guards.
Import ListNotations.

Lemma c_glue_has_no_static_scratch : c_static_mutable_locals = [].
Proof. reflexivity. Qed.
