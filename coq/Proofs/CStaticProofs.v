(* The C glue keeps no mutable function-local static storage (a scratch buffer shared by concurrent
   calls would be a shared write that the Go-side effect skeletons cannot see).  Regenerated list. *)
From Coq Require Import String List.
From V Require Import Generated.Guards.
Import ListNotations.

Lemma c_glue_has_no_static_scratch : c_static_mutable_locals = [].
Proof. reflexivity. Qed.

(* Package-level variables of the Go packages: the only state shared between calls and
   goroutines besides the arguments.  Every regenerated entry is in the reviewed table below with
   the reason it cannot make a result depend on other calls. *)
Inductive state_kind :=
| InitOnce          (* written only by init() / sync.Once before any API call returns *)
| ReadOnlyTable     (* never written after package initialisation *)
| ConcurrentHasher. (* a KMAC128 instance used only through ComputeHash, which works on a copy
                       of the state (C19 runs it from concurrent goroutines) *)
Open Scope string_scope.
Definition reviewed_package_state : list (string * state_kind) :=
  [ ("./bls.go: blsInstance", InitOnce);
    ("./bls12381_utils.go: g1SerHeader", InitOnce);
    ("./bls12381_utils.go: g2SerHeader", InitOnce);
    ("./bls12381_utils.go: g1Serialization", InitOnce);
    ("./bls12381_utils.go: g2PublicKey", InitOnce);
    ("./bls_multisig.go: popKMAC", ConcurrentHasher);
    ("./dkg_feldmanvss.go: shareSize", ReadOnlyTable);
    ("./dkg_feldmanvss.go: verifVectorSize", ReadOnlyTable);
    ("./dkg_feldmanvssq.go: complaintSize", ReadOnlyTable);
    ("./dkg_feldmanvssq.go: complaintAnswerSize", ReadOnlyTable);
    ("./ecdsa.go: p256Instance", InitOnce);
    ("./ecdsa.go: secp256k1Instance", InitOnce);
    ("./ecdsa.go: one", ReadOnlyTable);
    ("./no_cgo.go: blsInstance", InitOnce);
    ("./sign_test_utils.go: BLS12381Order", ReadOnlyTable);
    ("hash/keccakf.go: rc", ReadOnlyTable) ].

Lemma package_state_is_reviewed : go_package_state = map fst reviewed_package_state.
Proof. reflexivity. Qed.

(* in particular the only package-level hasher is the PoP KMAC instance: key generation, signing,
   verification and the other hashing paths build their hashers per call or take them as arguments *)
Lemma only_shared_hasher_is_popKMAC :
  map fst (filter (fun e => match snd e with ConcurrentHasher => true | _ => false end) reviewed_package_state)
  = ["./bls_multisig.go: popKMAC"].
Proof. reflexivity. Qed.
