(* Sequential invariants of Model/ThresholdObj.v over ALL operation sequences. *)
From Coq Require Import ZArith List Bool Lia.
From V Require Import Generated.Consts Model.ThresholdObj.
Import ListNotations.
Open Scope Z_scope.

Section Proofs.
  Variables share sig : Type.
  Variable size threshold : Z.
  Variable share_len : share -> Z.
  Variable verify_share : Z -> share -> bool.
  Variable reconstruct : list (Z * share) -> option sig.
  Variable verify_group : sig -> bool.
  Variable my_share : share.
  Hypothesis threshold_nonneg : 0 <= threshold.

  Notation state := (state share sig).
  Notation step := (step share sig size threshold share_len verify_share reconstruct verify_group my_share).
  Notation run := (run share sig size threshold share_len verify_share reconstruct verify_group my_share).
  Notation final := (final share sig size threshold share_len verify_share reconstruct verify_group my_share).
  Notation enough := (enough share sig threshold).
  Notation has_share := (has_share share).
  Notation valid_index := (valid_index size).
  Notation verify_share' := (verify_share' share share_len verify_share).
  Notation reconstruct_sig := (reconstruct_sig share sig threshold share_len reconstruct verify_group).

  Record inv (st : state) : Prop := {
    inv_len : Z.of_nat (length (shares st)) <= threshold + 1;
    inv_nodup : NoDup (map fst (shares st));
    inv_range : Forall (fun p => valid_index (fst p) = true) (shares st);
    inv_cache : forall g, cached st = Some g -> verify_group g = true /\ enough st = true
  }.

  Lemma inv_init : inv init.
  Proof. constructor; cbn; try lia; try constructor; intros; discriminate. Qed.

  Lemma has_share_in l i : has_share l i = true <-> In i (map fst l).
  Proof.
    induction l as [|[j s] l IH]; cbn.
    - split; [discriminate | tauto].
    - rewrite orb_true_iff, IH, Z.eqb_eq. tauto.
  Qed.

  Definition is_trusted_add (o : op share sig) : bool :=
    match o with OpTrustedAdd _ _ => true | _ => false end.

  (* a step leaves the share list unchanged or pushes one new, in-range signer,
     and the latter only while not enough shares were collected *)
  Lemma step_shares st o :
    shares (fst (step st o)) = shares st \/
    exists i s, shares (fst (step st o)) = (i, s) :: shares st /\
                valid_index i = true /\ has_share (shares st) i = false /\ enough st = false /\
                (is_trusted_add o = false -> verify_share' i s = true).
  Proof.
    destruct o; cbn; try (left; reflexivity).
    - destruct (valid_index i) eqn:V; cbn; [|left; reflexivity].
      destruct (has_share (shares st) i) eqn:H; [left; reflexivity|].
      destruct (enough st) eqn:E; [left; reflexivity|].
      right. exists i, s. cbn. repeat split; auto. discriminate.
    - destruct (valid_index i) eqn:V; cbn; [|left; reflexivity].
      destruct (has_share (shares st) i) eqn:H; [left; reflexivity|].
      destruct (verify_share' i s) eqn:VS; cbn; [|left; reflexivity].
      destruct (enough st) eqn:E; cbn; [left; reflexivity|].
      right. exists i, s. repeat split; auto.
    - destruct (valid_index i); cbn; left; reflexivity.
    - destruct (valid_index i); cbn; left; reflexivity.
    - destruct (cached st); cbn; [left; reflexivity|].
      destruct (reconstruct_sig st) as [| | |[g|] []]; cbn; left; reflexivity.
  Qed.

  Lemma step_cached st o g :
    cached st = Some g -> cached (fst (step st o)) = Some g.
  Proof.
    intro C. destruct o; cbn; auto.
    - destruct (valid_index i); cbn; auto. destruct (has_share (shares st) i); cbn; auto.
      destruct (enough st); cbn; auto.
    - destruct (valid_index i); cbn; auto. destruct (has_share (shares st) i); cbn; auto.
      destruct (verify_share' i s && negb (enough st)); cbn; auto.
    - destruct (valid_index i); cbn; auto.
    - destruct (valid_index i); cbn; auto.
    - rewrite C. auto.
  Qed.

  Lemma enough_def st : enough st = true <-> Z.of_nat (length (shares st)) = threshold + 1.
  Proof. unfold ThresholdObj.enough. apply Z.eqb_eq. Qed.

  Lemma step_enough st o : enough st = true -> shares (fst (step st o)) = shares st.
  Proof.
    intro E. destruct (step_shares st o) as [H|(i & s & _ & _ & _ & E' & _)]; auto. congruence.
  Qed.

  (* a new cache entry verifies and needs enough shares *)
  Lemma step_new_cache st o g :
    cached st = None -> cached (fst (step st o)) = Some g ->
    verify_group g = true /\ enough st = true /\ shares (fst (step st o)) = shares st.
  Proof.
    intros C. destruct o; cbn; try congruence.
    - destruct (valid_index i); cbn; try congruence.
      destruct (has_share (shares st) i); cbn; try congruence.
      destruct (enough st); cbn; congruence.
    - destruct (valid_index i); cbn; try congruence.
      destruct (has_share (shares st) i); cbn; try congruence.
      destruct (verify_share' i s && negb (enough st)); cbn; congruence.
    - destruct (valid_index i); cbn; congruence.
    - destruct (valid_index i); cbn; congruence.
    - rewrite C. unfold ThresholdObj.reconstruct_sig.
      destruct (enough st) eqn:E; cbn; try congruence.
      destruct (forallb _ _); cbn; try congruence.
      destruct (reconstruct (shares st)) as [g'|]; cbn; try congruence.
      destruct (verify_group g') eqn:V; cbn; try congruence.
      intro H. inversion H; subst. auto.
  Qed.

  Lemma step_inv st o : inv st -> inv (fst (step st o)).
  Proof.
    intros [L N R C].
    assert (Hc : forall g, cached (fst (step st o)) = Some g ->
                 verify_group g = true /\ enough (fst (step st o)) = true).
    { intros g Hg. destruct (cached st) as [g0|] eqn:C0.
      - pose proof (step_cached st o g0 C0) as H1. rewrite H1 in Hg. inversion Hg; subst.
        destruct (C g eq_refl) as [V E]. split; auto.
        apply enough_def. rewrite (step_enough st o E). apply enough_def; auto.
      - destruct (step_new_cache st o g C0 Hg) as (V & E & S). split; auto.
        apply enough_def. rewrite S. apply enough_def; auto. }
    destruct (step_shares st o) as [H|(i & s & H & V & Hs & E & _)].
    - constructor; try rewrite H; auto.
    - constructor; try rewrite H; auto.
      + assert (Z.of_nat (length (shares st)) <> threshold + 1).
        { intro X. apply enough_def in X. congruence. }
        cbn [length]. lia.
      + cbn. constructor; auto. intro X. apply has_share_in in X. congruence.
  Qed.

  Lemma final_app st a b : final st (a ++ b) = final (final st a) b.
  Proof.
    unfold ThresholdObj.final. revert st. induction a as [|o a IH]; intro st; cbn; auto.
    specialize (IH (fst (step st o))).
    destruct (step st o) as [st1 x] eqn:S. cbn in *.
    destruct (run st1 (a ++ b)) as [s2 xs] eqn:R1. destruct (run st1 a) as [s3 ys] eqn:R2.
    cbn in *. auto.
  Qed.

  Lemma final_cons st o r : final st (o :: r) = final (fst (step st o)) r.
  Proof.
    unfold ThresholdObj.final. cbn. destruct (step st o) as [st1 x]. cbn.
    destruct (run st1 r). reflexivity.
  Qed.

  Lemma final_inv st ops : inv st -> inv (final st ops).
  Proof.
    revert st. induction ops as [|o r IH]; intros st I; [exact I|].
    rewrite final_cons. apply IH, step_inv, I.
  Qed.

  (* ---- the invariants of the property statement, over all op sequences ---- *)

  Theorem at_most_t_plus_1_shares ops :
    Z.of_nat (length (shares (final init ops))) <= threshold + 1.
  Proof. apply (inv_len _ (final_inv init ops inv_init)). Qed.

  Theorem one_share_per_signer ops :
    NoDup (map fst (shares (final init ops))) /\
    Forall (fun p => 0 <= fst p < size) (shares (final init ops)).
  Proof.
    pose proof (final_inv init ops inv_init) as [_ N R _]. split; auto.
    eapply Forall_impl; [|exact R]. intros [i s]; cbn. unfold ThresholdObj.valid_index.
    rewrite andb_true_iff, Z.leb_le, Z.ltb_lt. auto.
  Qed.

  Lemma final_enough st ops : enough st = true -> shares (final st ops) = shares st.
  Proof.
    revert st. induction ops as [|o r IH]; intros st E; [reflexivity|].
    rewrite final_cons. rewrite IH.
    - apply step_enough, E.
    - apply enough_def. rewrite (step_enough st o E). apply enough_def, E.
  Qed.

  (* EnoughShares never reverts to false (it returns [enough] of the current state) *)
  Theorem enough_shares_monotone ops1 ops2 :
    snd (step (final init ops1) OpEnoughShares) = RBool true ENone ->
    snd (step (final init (ops1 ++ ops2)) OpEnoughShares) = RBool true ENone.
  Proof.
    cbn. intro H. assert (E : enough (final init ops1) = true) by (inversion H; auto).
    rewrite final_app. f_equal. apply enough_def. rewrite (final_enough _ ops2 E). apply enough_def, E.
  Qed.

  (* collected shares are never dropped or replaced *)
  Theorem shares_only_grow st o : exists l, shares (fst (step st o)) = l ++ shares st.
  Proof.
    destruct (step_shares st o) as [H|(i & s & H & _)]; rewrite H;
      [exists [] | exists [(i, s)]]; reflexivity.
  Qed.

  Lemma final_cached st ops g : cached st = Some g -> cached (final st ops) = Some g.
  Proof.
    revert st. induction ops as [|o r IH]; intros st C; [exact C|].
    rewrite final_cons. apply IH, step_cached, C.
  Qed.

  Lemma step_sig_cached st st' g e :
    step st OpThresholdSignature = (st', RSig (Some g) e) -> e = ENone /\ cached st' = Some g.
  Proof.
    cbn. destruct (cached st) as [g0|] eqn:C.
    - intro H. inversion H; subst. auto.
    - unfold ThresholdObj.reconstruct_sig.
      destruct (enough st); cbn; [|intro H; inversion H].
      destruct (forallb _ _); cbn; [|intro H; inversion H].
      destruct (reconstruct (shares st)) as [g'|]; cbn; [|intro H; inversion H].
      destruct (verify_group g'); cbn; intro H; inversion H; subst. auto.
  Qed.

  (* once ThresholdSignature has returned a signature, every later call returns the same *)
  Theorem threshold_signature_stable ops1 ops2 g e :
    snd (step (final init ops1) OpThresholdSignature) = RSig (Some g) e ->
    snd (step (final init (ops1 ++ OpThresholdSignature :: ops2)) OpThresholdSignature) = RSig (Some g) ENone.
  Proof.
    intro H. destruct (step (final init ops1) OpThresholdSignature) as [st' r] eqn:S. cbn in H. subst r.
    destruct (step_sig_cached _ _ _ _ S) as [_ C].
    rewrite final_app, final_cons, S. cbn [fst].
    pose proof (final_cached st' ops2 g C) as C2. cbn. rewrite C2. reflexivity.
  Qed.

  (* only signatures that verify against the group key are ever returned (or cached) *)
  Theorem never_returns_invalid_signature ops g e :
    snd (step (final init ops) OpThresholdSignature) = RSig (Some g) e ->
    e = ENone /\ verify_group g = true.
  Proof.
    intro H. destruct (step (final init ops) OpThresholdSignature) as [st' r] eqn:S. cbn in H. subst r.
    destruct (step_sig_cached _ _ _ _ S) as [E C]. split; auto.
    pose proof (final_inv init ops inv_init) as I.
    pose proof (step_inv _ OpThresholdSignature I) as I'. rewrite S in I'. cbn in I'.
    apply (inv_cache _ I' g C).
  Qed.

  (* without TrustedAdd, every collected share verifies against its signer's key *)
  Theorem verify_and_add_collects_only_valid ops :
    forallb (fun o => negb (is_trusted_add o)) ops = true ->
    Forall (fun p => verify_share' (fst p) (snd p) = true) (shares (final init ops)).
  Proof.
    assert (G : forall st, Forall (fun p => verify_share' (fst p) (snd p) = true) (shares st) ->
                forallb (fun o => negb (is_trusted_add o)) ops = true ->
                Forall (fun p => verify_share' (fst p) (snd p) = true) (shares (final st ops))).
    { induction ops as [|o r IH]; intros st F H; [exact F|].
      cbn in H. apply andb_prop in H as [H1 H2]. rewrite final_cons. apply IH; auto.
      destruct (step_shares st o) as [E|(i & s & E & _ & _ & _ & V)]; rewrite E; auto.
      constructor; auto. cbn. apply V. destruct (is_trusted_add o); cbn in H1; congruence. }
    apply G. constructor.
  Qed.
End Proofs.
