(* C09 - no-panic theorems with stated preconditions: ECDSA (values produced by the Go
   standard library), random/ (PRG and sampling), hash/ KMAC framing. *)
From Coq Require Import ZArith List String Bool Lia.
From V Require Import Model.Risk Generated.RiskSkel Proofs.RiskProofs Proofs.RiskBase.
Import ListNotations.
Open Scope string_scope.
Open Scope Z_scope.

Ltac safe_auto := unfold safe, risk_fuel; risk_auto.

(* nlen: the value returned by bitsToBytes (byte length of the curve order / field prime,
   32 for both supported curves): a parameter of the curve, not of the input *)
Definition nlen (e : env) : Z := e "ret:(bits + 7) >> 3".

(* ---- ECDSA: big.Int.Bytes() of a scalar / coordinate reduced mod n / p has at most nlen bytes ---- *)
Theorem np_ecdsa_prKey_Encode : forall e,
  0 <= e "skBytes:=sk.goPrKey.D.Bytes()" <= nlen e ->
  safe skel_prKeyECDSA_Encode e.
Proof. unfold nlen. safe_auto. Qed.

Theorem np_ecdsa_prKey_String : forall e,
  0 <= e "skBytes:=sk.goPrKey.D.Bytes()" <= nlen e ->
  safe skel_prKeyECDSA_String e.
Proof. unfold nlen. safe_auto. Qed.

Theorem np_ecdsa_pubKey_Encode : forall e,
  0 <= e "xBytes:=pk.goPubKey.X.Bytes()" <= nlen e ->
  0 <= e "yBytes:=pk.goPubKey.Y.Bytes()" <= nlen e ->
  safe skel_pubKeyECDSA_Encode e.
Proof. unfold nlen. safe_auto. Qed.

Theorem np_ecdsa_pubKey_String : forall e,
  0 <= e "xBytes:=pk.goPubKey.X.Bytes()" <= nlen e ->
  0 <= e "yBytes:=pk.goPubKey.Y.Bytes()" <= nlen e ->
  safe skel_pubKeyECDSA_String e.
Proof. unfold nlen. safe_auto. Qed.

(* r, s returned by crypto/ecdsa.Sign are in [1, n-1] *)
Theorem np_ecdsa_Sign : forall e,
  0 <= e "rBytes:=r.Bytes()" <= nlen e -> 0 <= e "sBytes:=s.Bytes()" <= nlen e ->
  safe skel_prKeyECDSA_Sign e.
Proof. unfold nlen. safe_auto. Qed.

Theorem np_ecdsa_Verify : forall e,
  0 <= nlen e -> safe skel_pubKeyECDSA_Verify e.
Proof. unfold nlen. safe_auto. Qed.

Theorem np_ecdsa_SignatureFormatCheck : forall e,
  0 <= nlen e -> safe skel_SignatureFormatCheck e.
Proof. unfold nlen. safe_auto. Qed.

Theorem np_ecdsa_decodePublicKey : forall e,
  0 <= nlen e -> safe skel_ecdsaAlgo_decodePublicKey e.
Proof. unfold nlen. safe_auto. Qed.

(* crypto/ecdh P-256 PublicKey().Bytes() is the uncompressed point: 1 + 2*nlen bytes *)
Theorem np_ecdsa_decodePrivateKey : forall e,
  0 <= nlen e -> e "ecdhPubBytes:=ecdhPriv.PublicKey().Bytes()" = 1 + 2 * nlen e ->
  safe skel_ecdsaAlgo_decodePrivateKey e.
Proof. unfold nlen. safe_auto. Qed.

Theorem np_ecdsa_generatePrivateKey : forall e,
  0 <= nlen e -> e "ecdhPubBytes:=ecdhPriv.PublicKey().Bytes()" = 1 + 2 * nlen e ->
  safe skel_ecdsaAlgo_generatePrivateKey e.
Proof. unfold nlen. safe_auto. Qed.

(* ---- random ---- *)
Theorem np_rand_Read : forall e,
  0 <= e "buffer" -> safe skel_random_chachaCore_Read e.
Proof. safe_auto. Qed.

(* remainingBytes is a uint64 remainder *)
Theorem np_rand_Restore : forall e,
  0 <= e "remainingBytes:=bytesCounter % bytesPerBlock" ->
  safe skel_random_RestoreChacha20PRG e.
Proof. safe_auto. Qed.

(* UintN: n = 0 is the documented panic; size counts the bytes of a uint64 (at most 8) *)
Theorem np_rand_UintN : forall e,
  e "n" <> 0 -> 0 <= e "size@E1" <= 8 ->
  safe skel_random_genericPRG_UintN e.
Proof. safe_auto. Qed.

Theorem np_rand_UintN_zero_panics :
  exists e, e "n" = 0 /\ ~ safe skel_random_genericPRG_UintN e.
Proof.
  exists (fun _ => 0). split; [reflexivity|]. unfold safe, risk_fuel. vm_compute. intro H.
  inversion H as [|o l Ho _]; subst. apply (Ho _ eq_refl).
Qed.

(* random@E3 is the uint64 drawn by UintN, which leaves its loop only with random <= max *)
Theorem np_rand_Permutation : forall e,
  0 <= e "size@E1" <= 8 -> 0 <= e "random@E3" ->
  safe skel_random_genericPRG_Permutation e.
Proof. safe_auto. Qed.

Theorem np_rand_SubPermutation : forall e,
  0 <= e "size@E1" <= 8 -> 0 <= e "random@E3" ->
  safe skel_random_genericPRG_SubPermutation e.
Proof. safe_auto. Qed.

Theorem np_rand_Samples : forall e,
  0 <= e "size@E1" <= 8 ->
  safe skel_random_genericPRG_Samples e.
Proof. safe_auto. Qed.

Theorem np_rand_Shuffle : forall e,
  0 <= e "size@E1" <= 8 ->
  safe skel_random_genericPRG_Shuffle e.
Proof. safe_auto. Qed.

(* ---- hash: KMAC framing.  leftEncode / rightEncode scan a 9-byte array with a counter that
   their loops keep in 1..8 resp. 0..7 (i starts at 1 resp. 0 and is incremented only while
   i < 8 resp. i < 7); bytepad's padlen = w - len mod w with w = 168.  The model-level
   theorem C13_kmac_ops_preserve covers the same code with the loops executed. ---- *)
Definition kmac_counters (e : env) : Prop :=
  0 <= e "i@L1" /\ 1 <= e "i@E1" <= 8 /\ 0 <= e "padlen:=w - (len(buf) % w)".

Theorem np_hash_NewKMAC_128 : forall e,
  kmac_counters e -> safe skel_hash_NewKMAC_128 e.
Proof. unfold kmac_counters. safe_auto. Qed.

Theorem np_NewExpandMsgXOFKMAC128 : forall e,
  kmac_counters e -> safe skel_NewExpandMsgXOFKMAC128 e.
Proof. unfold kmac_counters. safe_auto. Qed.

(* k.outputSize was checked to be non-negative by the constructor *)
Theorem np_hash_kmac_ComputeHash : forall e,
  0 <= e "i@L1" -> 0 <= e "i@E1" <= 8 -> 0 <= e "k.outputSize" ->
  safe skel_hash_kmac128_ComputeHash e.
Proof. safe_auto. Qed.

Theorem np_hash_kmac_SumHash : forall e,
  0 <= e "i@L1" -> 0 <= e "i@E1" <= 8 -> 0 <= e "k.outputSize" ->
  safe skel_hash_kmac128_SumHash e.
Proof. safe_auto. Qed.

(* ---- threshold-signature constructors (they build the KMAC hasher) ---- *)
Theorem np_thr_NewInspector : forall e,
  kmac_counters e -> safe skel_NewBLSThresholdSignatureInspector e.
Proof. unfold kmac_counters. safe_auto. Qed.

Theorem np_thr_NewParticipant : forall e,
  kmac_counters e -> safe skel_NewBLSThresholdSignatureParticipant e.
Proof. unfold kmac_counters. safe_auto. Qed.
