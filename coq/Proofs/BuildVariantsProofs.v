(* C20: the two sources of one function agree. *)
From Coq Require Import ZArith NArith List Bool Lia.
From V Require Import Lib.ListX Prim.Keccak Model.Hashers Model.BuildVariants.
Import ListNotations.

Lemma le_bytes8_length x : length (le_bytes8 x) = 8%nat.
Proof. reflexivity. Qed.

Lemma flat_map_le8_length (a : list N) l : length (flat_map (fun i => le_bytes8 (lane a i)) l) = (8 * length l)%nat.
Proof. induction l as [|i l IH]; [reflexivity|]. cbn [flat_map length]. rewrite app_length, IH, le_bytes8_length. lia. Qed.

Lemma firstn_flat_map_le8 (a : list N) k m : (k <= m)%nat ->
  firstn (8 * k) (flat_map (fun i => le_bytes8 (lane a i)) (seq 0 m)) = flat_map (fun i => le_bytes8 (lane a i)) (seq 0 k).
Proof.
  intro H. replace m with (k + (m - k))%nat by lia. rewrite seq_app, flat_map_app.
  rewrite firstn_app. rewrite flat_map_le8_length, seq_length, Nat.sub_diag. cbn [firstn].
  rewrite app_nil_r. apply firstn_all2. rewrite flat_map_le8_length, seq_length. lia.
Qed.

(* copyOut: for every output length that is a multiple of 8 and at most the maximal rate
   (32 and 48 are the sizes in use) the generic and the unaligned variants write the same bytes *)
Theorem copyOut_variants_agree n a : (n mod 8 = 0)%nat -> (n <= maxRate)%nat ->
  copyOut_generic n a = copyOut n a.
Proof.
  intros Hm Hn. unfold copyOut_generic, copyOut. rewrite Hm. cbn [repeat]. rewrite app_nil_r.
  assert (Ls : length (firstn maxRate (state_bytes a)) = maxRate).
  { rewrite firstn_length. unfold state_bytes. rewrite flat_map_le8_length, seq_length.
    change maxRate with 136%nat. reflexivity. }
  rewrite Ls. replace (n - maxRate)%nat with 0%nat by lia. cbn [repeat]. rewrite app_nil_r.
  rewrite firstn_firstn, Nat.min_l by lia.
  assert (E : n = (8 * (n / 8))%nat) by (pose proof (Nat.div_mod n 8 ltac:(lia)); lia).
  rewrite E at 2. unfold state_bytes. symmetry. apply firstn_flat_map_le8.
  change maxRate with 136%nat in Hn. assert (n / 8 <= 17)%nat by (apply Nat.div_le_upper_bound; lia). lia.
Qed.

(* the generic variant drops a ragged tail: the side condition above is needed *)
Example copyOut_ragged_differs : copyOut_generic 12 (repeat 1%N 25) <> copyOut 12 (repeat 1%N 25).
Proof. vm_compute. discriminate. Qed.

(* ---- limb width ---- *)
Open Scope Z_scope.

Lemma be_val_snoc l x : be_val (l ++ [x]) = be_val l * 256 + Z.of_N x.
Proof. unfold be_val. rewrite fold_left_app. reflexivity. Qed.

Lemma be_val_app a b : be_val (a ++ b) = be_val a * 256 ^ Z.of_nat (length b) + be_val b.
Proof.
  revert a; induction b as [|x b IH] using rev_ind; intro a.
  - rewrite app_nil_r. cbn. ring.
  - rewrite app_assoc, !be_val_snoc, IH, app_length. cbn [length].
    replace (Z.of_nat (length b + 1)) with (Z.succ (Z.of_nat (length b))) by lia.
    rewrite Z.pow_succ_r by lia. ring.
Qed.

(* bytes -> limbs of width w -> integer  =  bytes -> integer, for EVERY limb width w > 0 and every
   byte string whose length is a multiple of w (48 and 32 bytes with 8- or 4-byte limbs in the glue) *)
Theorem limb_conversions_width_agnostic w : (0 < w)%nat -> forall fuel b,
  (length b <= w * fuel)%nat -> (length b mod w = 0)%nat ->
  limbs_val w (limbs_of_be w fuel b) = be_val b.
Proof.
  intros Hw. induction fuel as [|f IH]; intros b Hl Hm.
  - destruct b; [reflexivity|cbn in Hl; lia].
  - cbn [limbs_of_be]. destruct b as [|x b']; [reflexivity|]. set (b := x :: b') in *.
    assert (Hge : (w <= length b)%nat).
    { destruct (Nat.lt_ge_cases (length b) w) as [L|L]; [|exact L].
      rewrite Nat.mod_small in Hm by exact L. unfold b in Hm. cbn in Hm. lia. }
    set (k := (length b - w)%nat).
    cbn [limbs_val fold_right]. fold (limbs_val w (limbs_of_be w f (firstn k b))).
    rewrite IH.
    + rewrite <- (firstn_skipn k b) at 3. rewrite be_val_app, skipn_length. unfold k.
      replace (length b - (length b - w))%nat with w by lia. ring.
    + rewrite firstn_length. unfold k. nia.
    + rewrite firstn_length, Nat.min_l by (unfold k; lia). unfold k.
      replace (length b) with ((length b - w) + 1 * w)%nat in Hm by lia.
      rewrite Nat.mod_add in Hm by lia. exact Hm.
Qed.

Corollary limbs_32_and_64_bit_agree b : (length b mod 8 = 0)%nat ->
  limbs_val 4 (limbs_of_be 4 (length b) b) = limbs_val 8 (limbs_of_be 8 (length b) b).
Proof.
  intro H. rewrite !limb_conversions_width_agnostic; try lia.
  pose proof (Nat.div_mod (length b) 8 ltac:(lia)) as D. rewrite H in D.
  replace (length b) with (4 * (2 * (length b / 8)))%nat at 1 by lia.
  rewrite Nat.mul_comm. apply Nat.mod_mul. lia.
Qed.
