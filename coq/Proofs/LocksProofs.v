(* Level 1 of Model/Locks.v: the boolean checker [chk] is sound for the path
   semantics [exec]: every complete trace of a method accepted by [chk_method]
   is a well-locked trace, hence so is every thread program (sequence of calls). *)
From Coq Require Import List String Bool Arith Lia.
From V Require Import Model.Skel Model.Locks.
Import ListNotations.
Open Scope list_scope.

Lemma mode_eqb_eq a b : mode_eqb a b = true <-> a = b.
Proof. destruct a, b; cbn; split; intro H; try reflexivity; try discriminate. Qed.

Lemma act_eqb_eq a b : act_eqb a b = true <-> a = b.
Proof.
  destruct a, b; cbn; split; intro H; try reflexivity; try discriminate;
    try (apply String.eqb_eq in H; subst; reflexivity);
    try (inversion H; subst; apply String.eqb_refl).
Qed.

Lemma acts_eqb_eq a b : acts_eqb a b = true <-> a = b.
Proof.
  revert b. induction a as [|x a IH]; intros [|y b]; cbn; split; intro H;
    try reflexivity; try discriminate.
  - apply andb_prop in H as [H1 H2]. apply act_eqb_eq in H1. apply IH in H2. subst. reflexivity.
  - inversion H; subst. apply andb_true_intro. split; [apply act_eqb_eq | apply IH]; reflexivity.
Qed.

Section Discipline.
  Variables guarded immutable : list string.
  Variable P : list (string * stmt).

  Notation act_ok := (act_ok guarded immutable).
  Notation run_tr := (run_tr guarded immutable).
  Notation return_ok := (return_ok guarded immutable).
  Notation chk := (chk guarded immutable P).
  Notation chk_method := (chk_method guarded immutable P).
  Notation exec := (exec P).
  Notation wl_trace := (wl_trace guarded immutable).

  Lemma run_tr_app h a b :
    run_tr h (a ++ b) = match run_tr h a with Some h' => run_tr h' b | None => None end.
  Proof.
    revert h. induction a as [|x a IH]; intro h; cbn; [reflexivity|].
    destruct (act_ok h x); [apply IH | reflexivity].
  Qed.

  Lemma return_ok_run h0 h ds : return_ok h0 h ds = true <-> run_tr h ds = Some h0.
  Proof.
    unfold Locks.return_ok. destruct (run_tr h ds) as [h'|].
    - rewrite mode_eqb_eq. split; intro H; [subst; reflexivity | inversion H; reflexivity].
    - split; discriminate.
  Qed.

  Lemma app_self_nil {A} (d ds : list A) : d ++ ds = ds -> d = [].
  Proof.
    intro H. assert (L : List.length (d ++ ds) = List.length ds) by (rewrite H; reflexivity).
    rewrite app_length in L. destruct d; [reflexivity | cbn in L; lia].
  Qed.

  (* soundness of the abstract interpretation along every path *)
  Lemma chk_sound s t d r :
    exec s t d r ->
    forall fuel h0 h ds e, chk fuel h0 s h ds = Some e ->
      exists h', run_tr h t = Some h' /\
                 (r = false -> e = Falls h' (d ++ ds)) /\
                 (r = true -> return_ok h0 h' (d ++ ds) = true).
  Proof.
    induction 1; intros fuel h0 h ds e C.
    - (* skip *) destruct fuel; cbn in C; inversion C; subst; exists h; cbn; repeat split; auto; discriminate.
    - (* act *) assert (C' : match act_ok h a with Some h' => Some (Falls h' ds) | None => None end = Some e)
        by (destruct fuel; exact C).
      cbn. destruct (act_ok h a) as [h'|]; [|discriminate]. inversion C'; subst.
      exists h'. repeat split; auto; discriminate.
    - (* defer *) assert (C' : Some (Falls h (a :: ds)) = Some e) by (destruct fuel; exact C).
      inversion C'; subst. exists h. cbn. repeat split; auto; discriminate.
    - (* return *) assert (C' : (if return_ok h0 h ds then Some Rets else None) = Some e) by (destruct fuel; exact C).
      exists h. cbn. destruct (return_ok h0 h ds) eqn:R; [|discriminate]. repeat split; auto; discriminate.
    - (* seq, first falls through *)
      assert (C' : match chk fuel h0 s1 h ds with Some (Falls h' ds') => chk fuel h0 s2 h' ds' | r => r end = Some e)
        by (destruct fuel; exact C).
      destruct (chk fuel h0 s1 h ds) as [e1|] eqn:C1; [|discriminate].
      destruct (IHexec1 _ _ _ _ _ C1) as (h1 & R1 & F1 & _). specialize (F1 eq_refl). subst e1.
      destruct (IHexec2 _ _ _ _ _ C') as (h2 & R2 & F2 & T2).
      exists h2. rewrite run_tr_app, R1. rewrite <- app_assoc. auto.
    - (* seq, first returns *)
      assert (C' : match chk fuel h0 s1 h ds with Some (Falls h' ds') => chk fuel h0 s2 h' ds' | r => r end = Some e)
        by (destruct fuel; exact C).
      destruct (chk fuel h0 s1 h ds) as [e1|] eqn:C1; [|discriminate].
      destruct (IHexec _ _ _ _ _ C1) as (h1 & R1 & _ & T1).
      exists h1. repeat split; auto; discriminate.
    - (* if left *)
      assert (C' : match chk fuel h0 s1 h ds, chk fuel h0 s2 h ds with Some x, Some y => join_exit x y | _, _ => None end = Some e)
        by (destruct fuel; exact C).
      destruct (chk fuel h0 s1 h ds) as [e1|] eqn:C1; [|discriminate].
      destruct (chk fuel h0 s2 h ds) as [e2|] eqn:C2; [|discriminate].
      destruct (IHexec _ _ _ _ _ C1) as (h1 & R1 & F1 & T1).
      exists h1. repeat split; auto. intro Hr. specialize (F1 Hr). subst e1.
      destruct e2 as [h2 d2|]; cbn in C'.
      + destruct (mode_eqb h1 h2 && acts_eqb (d ++ ds) d2); inversion C'; reflexivity.
      + inversion C'; reflexivity.
    - (* if right *)
      assert (C' : match chk fuel h0 s1 h ds, chk fuel h0 s2 h ds with Some x, Some y => join_exit x y | _, _ => None end = Some e)
        by (destruct fuel; exact C).
      destruct (chk fuel h0 s1 h ds) as [e1|] eqn:C1; [|discriminate].
      destruct (chk fuel h0 s2 h ds) as [e2|] eqn:C2; [|discriminate].
      destruct (IHexec _ _ _ _ _ C2) as (h2 & R2 & F2 & T2).
      exists h2. repeat split; auto. intro Hr. specialize (F2 Hr). subst e2.
      destruct e1 as [h1 d1|]; cbn in C'.
      + destruct (mode_eqb h1 h2 && acts_eqb d1 (d ++ ds)) eqn:Q; inversion C'.
        apply andb_prop in Q as [Q1 Q2]. apply mode_eqb_eq in Q1. apply acts_eqb_eq in Q2. subst. reflexivity.
      + inversion C'; reflexivity.
    - (* loop, zero iterations *)
      assert (C' : match chk fuel h0 s h ds with
                   | Some (Falls h' ds') => if mode_eqb h' h && acts_eqb ds' ds then Some (Falls h ds) else None
                   | Some Rets => Some (Falls h ds) | None => None end = Some e)
        by (destruct fuel; exact C).
      exists h. cbn. repeat split; try discriminate. intros _.
      destruct (chk fuel h0 s h ds) as [[h' ds'|]|]; try discriminate.
      + destruct (mode_eqb h' h && acts_eqb ds' ds); inversion C'; reflexivity.
      + inversion C'; reflexivity.
    - (* loop, one more iteration *)
      assert (C' : match chk fuel h0 s h ds with
                   | Some (Falls h' ds') => if mode_eqb h' h && acts_eqb ds' ds then Some (Falls h ds) else None
                   | Some Rets => Some (Falls h ds) | None => None end = Some e)
        by (destruct fuel; exact C).
      destruct (chk fuel h0 s h ds) as [e1|] eqn:C1; [|discriminate].
      destruct (IHexec1 _ _ _ _ _ C1) as (h1 & R1 & F1 & _). specialize (F1 eq_refl). subst e1.
      destruct (mode_eqb h1 h && acts_eqb (d1 ++ ds) ds) eqn:Q; [|discriminate].
      apply andb_prop in Q as [Q1 Q2]. apply mode_eqb_eq in Q1. apply acts_eqb_eq in Q2.
      apply app_self_nil in Q2. subst h1 d1.
      destruct (IHexec2 _ _ _ _ _ C) as (h2 & R2 & F2 & T2).
      exists h2. rewrite run_tr_app, R1, app_nil_r. auto.
    - (* loop, body returns *)
      assert (C' : match chk fuel h0 s h ds with
                   | Some (Falls h' ds') => if mode_eqb h' h && acts_eqb ds' ds then Some (Falls h ds) else None
                   | Some Rets => Some (Falls h ds) | None => None end = Some e)
        by (destruct fuel; exact C).
      destruct (chk fuel h0 s h ds) as [e1|] eqn:C1; [|discriminate].
      destruct (IHexec _ _ _ _ _ C1) as (h1 & R1 & _ & T1).
      exists h1. repeat split; auto; discriminate.
    - (* call *)
      destruct fuel as [|f]; [discriminate|]. cbn in C. rewrite H in C.
      destruct (chk f h body h []) as [e1|] eqn:C1; [|discriminate].
      destruct (IHexec _ _ _ _ _ C1) as (h1 & R1 & F1 & T1). rewrite app_nil_r in *.
      assert (RT : run_tr h1 d = Some h).
      { destruct r.
        - apply return_ok_run, T1; reflexivity.
        - rewrite (F1 eq_refl) in C. destruct (return_ok h h1 d) eqn:Q; [|discriminate].
          apply return_ok_run in Q. exact Q. }
      exists h. rewrite run_tr_app, R1, RT. repeat split; try discriminate. intros _.
      destruct e1 as [h' ds'|]; [destruct (return_ok h h' ds'); [|discriminate]|]; inversion C; reflexivity.
  Qed.

  Lemma lookup_in {A} m (Q : list (string * A)) b : lookup m Q = Some b -> In (m, b) Q.
  Proof.
    induction Q as [|[n c] Q IH]; cbn; [discriminate|].
    destruct (String.eqb m n) eqn:E.
    - intro H. inversion H; subst. apply String.eqb_eq in E. subst. left; reflexivity.
    - intro H. right. apply IH, H.
  Qed.

  (* every complete trace of an accepted method is well-locked *)
  Theorem chk_method_sound fuel m body tr :
    lookup m P = Some body -> chk_method fuel body = true -> mtrace P m tr -> wl_trace tr.
  Proof.
    intros Lk C (body' & t & d & r & Lk' & E & ->). rewrite Lk in Lk'. inversion Lk'; subst body'.
    unfold Locks.chk_method in C.
    destruct (chk fuel MNone body MNone []) as [e|] eqn:C1; [|discriminate].
    destruct (chk_sound _ _ _ _ E _ _ _ _ _ C1) as (h1 & R1 & F1 & T1). rewrite app_nil_r in *.
    unfold Locks.wl_trace. rewrite run_tr_app, R1.
    destruct r.
    - apply return_ok_run, T1; reflexivity.
    - rewrite (F1 eq_refl) in C. apply return_ok_run, C.
  Qed.

  Theorem chk_prog_sound fuel entries tr :
    chk_prog guarded immutable P fuel entries = true -> ttrace P entries tr -> wl_trace tr.
  Proof.
    intros C T. induction T as [|m tr rest I M _ IH]; [reflexivity|].
    unfold Locks.wl_trace. rewrite run_tr_app.
    assert (W : wl_trace tr).
    { destruct M as (body & t & d & r & Lk & E & Eq).
      apply (chk_method_sound fuel m body); [exact Lk | | exists body, t, d, r; auto].
      unfold Locks.chk_prog in C. rewrite forallb_forall in C.
      specialize (C m I). rewrite Lk in C. exact C. }
    rewrite W. exact IH.
  Qed.
End Discipline.
