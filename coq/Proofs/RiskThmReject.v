(* C09 - "invalid input is reported through the documented typed error": on the skeletons, the
   argument-validation guards make EVERY path return with the tag of the documented error
   constructor (or, for the DKG message parsers, after the Disqualify callback), before any
   risky operation is reached. *)
From Coq Require Import ZArith List String Bool Lia.
From V Require Import Model.Risk Generated.RiskSkel Proofs.RiskProofs Proofs.RiskBase.
Import ListNotations.
Open Scope string_scope.
Open Scope Z_scope.

(* every path returns, and R holds of (tag, values, environment at the return) *)
Definition returns_with (body : list ev) (e : env) (R : string -> list Z -> env -> Prop) : Prop :=
  Forall (fun o => exists tag vs e', o = Returned tag vs e' /\ R tag vs e') (exec risk_prog risk_fuel body e).

Definition tag_is (t : string) : string -> list Z -> env -> Prop := fun tag _ _ => tag = t.
Definition noted (n : string) (k : Z) : string -> list Z -> env -> Prop := fun _ _ e' => e' (note_name n) = k.

Ltac reject_auto :=
  unfold returns_with, tag_is, noted, risk_fuel; intros; lazy [note_name String.append] in *; apply wp_returns;
  risk_simpl; risk_split; try reflexivity; risk_arith.

Theorem rj_decodePrivateKey_length : forall e,
  e "privateKeyBytes" <> 32 ->
  returns_with skel_blsBLS12381Algo_decodePrivateKey e (tag_is "nil,invalidInputsErrorf").
Proof. reject_auto. Qed.

Theorem rj_decodePublicKey_length : forall e,
  e "publicKeyBytes" <> 96 ->
  returns_with skel_blsBLS12381Algo_decodePublicKey e (tag_is "nil,invalidInputsErrorf").
Proof. reject_auto. Qed.

Theorem rj_validIndex : forall e,
  (e "orig" < 0 \/ e "s.size" <= e "orig") ->
  returns_with skel_blsThresholdSignatureInspector_validIndex e (tag_is "invalidInputsErrorf").
Proof. reject_auto. Qed.

Theorem rj_VerifyShare_index : forall e,
  (e "orig" < 0 \/ e "s.size" <= e "orig") ->
  returns_with skel_blsThresholdSignatureInspector_VerifyShare e (tag_is "false,err").
Proof. reject_auto. Qed.

Theorem rj_Reconstruct_params : forall e,
  (e "size" < 2 \/ 254 < e "size" \/ e "threshold" < 1 \/ e "size" <= e "threshold") ->
  returns_with skel_BLSReconstructThresholdSignature e (tag_is "nil,invalidInputsErrorf").
Proof. reject_auto. Qed.

Theorem rj_vss_ForceDisqualify : forall e,
  e "s.running" <> 0 -> (e "participant" < 0 \/ e "s.size" <= e "participant") ->
  returns_with skel_feldmanVSSstate_ForceDisqualify e (tag_is "invalidInputsErrorf").
Proof. reject_auto. Qed.

Theorem rj_qual_ForceDisqualify : forall e,
  e "s.running" <> 0 -> (e "participant" < 0 \/ e "s.size" <= e "participant") ->
  returns_with skel_feldmanVSSQualState_ForceDisqualify e (tag_is "invalidInputsErrorf").
Proof. reject_auto. Qed.

Theorem rj_joint_ForceDisqualify : forall e,
  e "s.jointRunning" <> 0 -> (e "participant" < 0 \/ e "s.size" <= e "participant") ->
  returns_with skel_JointFeldmanState_ForceDisqualify e (tag_is "invalidInputsErrorf").
Proof. reject_auto. Qed.

Theorem rj_qual_HandleBroadcastMsg_origin : forall e,
  e "s.running" <> 0 -> (e "orig" < 0 \/ e "s.size" <= e "orig") ->
  returns_with skel_feldmanVSSQualState_HandleBroadcastMsg e (tag_is "invalidInputsErrorf").
Proof. reject_auto. Qed.

Theorem rj_newDKGCommon : forall e,
  (e "size" < 2 \/ 254 < e "size" \/ e "threshold" < 1 \/ e "size" <= e "threshold" \/
   e "myIndex" < 0 \/ e "size" <= e "myIndex" \/ e "dealerIndex" < 0 \/ e "size" <= e "dealerIndex") ->
  returns_with skel_newDKGCommon e (tag_is "nil,invalidInputsErrorf").
Proof. reject_auto. Qed.

(* a complaint (1 payload byte) from the dealer that names a participant >= size, before the
   complaint timeout: the dealer is reported through Disqualify exactly once, and the parser
   returns *)
Theorem rj_qual_receiveComplaint_bad_complainee : forall e,
  e "s.complaintsTimeout" = 0 -> e "data" = 1 -> e "s.size" <= (e "data[0]") mod 256 ->
  e "origin" = e "s.dealerIndex" -> e (note_name "Disqualify") = 0 ->
  returns_with skel_feldmanVSSQualState_receiveComplaint e (noted "Disqualify" 1).
Proof. reject_auto. Qed.

Theorem rj_qual_receiveComplaintAnswer_bad_complainer : forall e,
  e "origin" = e "s.dealerIndex" -> e "data" = 33 -> e "s.size" <= (e "data[0]") mod 256 ->
  e (note_name "Disqualify") = 0 ->
  returns_with skel_feldmanVSSQualState_receiveComplaintAnswer e (noted "Disqualify" 1).
Proof. reject_auto. Qed.
