(* Primality of the six moduli of the development, by Pocklington certificates checked
   with [vm_compute] on binary Z (see V.Lib.Pocklington).  No axioms, no hypotheses.

   Each certificate is a list of entries (N, a, [(q,e); ...]) in dependency order: the q's are
   prime factors of N-1 whose product of powers F satisfies F*F >= N; a is a witness with
   a^(N-1) = 1 (mod N) and gcd(a^((N-1)/q) - 1, N) = 1; each q is either below 2^32 (trial
   division) or the N of an earlier entry.  The factorisations were found with sympy
   (factorint / ECM); the checker trusts none of it. *)
From Coq Require Import ZArith List.
From V Require Import Lib.FermatZ Lib.Pocklington Prim.Bls12 Prim.EcdsaCurve.
Import ListNotations.
Open Scope Z_scope.

Definition cert_bls_r : list entry := [
  (0x73eda753299d7d483339d80809a1d80553bda402fffe5bfeffffffff00000001,
   5, [(2, 32); (906349, 2); (254760293, 2)])
].

Lemma cert_bls_r_ok : check_cert cert_bls_r = true.
Proof. vm_cast_no_check (@eq_refl bool true). Qed.

Theorem bls_r_prime : primeZ rZ.
Proof.
  apply (check_cert_sound_b cert_bls_r _ cert_bls_r_ok). vm_compute. reflexivity.
Qed.

Definition cert_bls_p : list entry := [
  (0xcf107c4885c1f60d4d,
   6, [(3, 2); (5, 1); (19, 1); (113, 1); (755057, 1)]);
  (0xd8b7e8de605a60610129ea5e2033cf,
   2, [(0xcf107c4885c1f60d4d, 1)]);
  (0x24940de9050250a366a091851a9a9b1c0b6ebd56195f3b017baa5e86063,
   2, [(0xd8b7e8de605a60610129ea5e2033cf, 1)]);
  (0x1a0111ea397fe69a4b1ba7b6434bacd764774b84f38512bf6730d2a0f6b0f6241eabfffeb153ffffb9feffffffffaaab,
   2, [(0x24940de9050250a366a091851a9a9b1c0b6ebd56195f3b017baa5e86063, 1)])
].

Lemma cert_bls_p_ok : check_cert cert_bls_p = true.
Proof. vm_cast_no_check (@eq_refl bool true). Qed.

Theorem bls_p_prime : primeZ pZ.
Proof.
  apply (check_cert_sound_b cert_bls_p _ cert_bls_p_ok). vm_compute. reflexivity.
Qed.

Definition cert_p256_p : list entry := [
  (0xa3b2bf8c32ceaf,
   2, [(78283, 1); (704251, 1)]);
  (0xf76c8ffcb,
   2, [(197, 1); (3677, 1)]);
  (0xa44e179dccf,
   2, [(0xf76c8ffcb, 1)]);
  (0x22b559b5c816ae00f2378e18df38c5410ed597,
   2, [(0xa3b2bf8c32ceaf, 1); (0xa44e179dccf, 1)]);
  (0x926d1276e41fae13fdda5f78edb7802a76951509,
   2, [(0x22b559b5c816ae00f2378e18df38c5410ed597, 1)]);
  (0xffffffff00000001000000000000000000000000ffffffffffffffffffffffff,
   2, [(0x926d1276e41fae13fdda5f78edb7802a76951509, 1)])
].

Lemma cert_p256_p_ok : check_cert cert_p256_p = true.
Proof. vm_cast_no_check (@eq_refl bool true). Qed.

(* the modulus as a Z literal: this statement does not mention BigZ, hence is closed *)
Theorem p256_p_prime_lit :
  primeZ 0xffffffff00000001000000000000000000000000ffffffffffffffffffffffff.
Proof.
  apply (check_cert_sound_b cert_p256_p _ cert_p256_p_ok). vm_compute. reflexivity.
Qed.

Lemma p256_p_lit :
  curve_p P256 = 0xffffffff00000001000000000000000000000000ffffffffffffffffffffffff.
Proof. vm_compute. reflexivity. Qed.

Theorem p256_p_prime : primeZ (curve_p P256).
Proof. rewrite p256_p_lit. exact p256_p_prime_lit. Qed.

Definition cert_p256_n : list entry := [
  (0x2e3802c35c7ed3b,
   2, [(3023, 1); (191039911, 1)]);
  (0x87b23e9d09d3e637b2aa341,
   2, [(0x2e3802c35c7ed3b, 1)]);
  (0xffffffff00000000ffffffffffffffffbce6faada7179e84f3b9cac2fc632551,
   2, [(187019741, 1); (622491383, 1); (0x87b23e9d09d3e637b2aa341, 1)])
].

Lemma cert_p256_n_ok : check_cert cert_p256_n = true.
Proof. vm_cast_no_check (@eq_refl bool true). Qed.

(* the modulus as a Z literal: this statement does not mention BigZ, hence is closed *)
Theorem p256_n_prime_lit :
  primeZ 0xffffffff00000000ffffffffffffffffbce6faada7179e84f3b9cac2fc632551.
Proof.
  apply (check_cert_sound_b cert_p256_n _ cert_p256_n_ok). vm_compute. reflexivity.
Qed.

Lemma p256_n_lit :
  curve_n P256 = 0xffffffff00000000ffffffffffffffffbce6faada7179e84f3b9cac2fc632551.
Proof. vm_compute. reflexivity. Qed.

Theorem p256_n_prime : primeZ (curve_n P256).
Proof. rewrite p256_n_lit. exact p256_n_prime_lit. Qed.

Definition cert_k1_p : list entry := [
  (0xc03a94b2d3e64419a05cd8ccbf987069,
   2, [(96557, 1); (7240687, 1); (107590001, 1)]);
  (0x1db8260e5e3b460a46a0088fccf6a3a5936d75d89a776d4c0da4f338aafb,
   2, [(0xc03a94b2d3e64419a05cd8ccbf987069, 1)]);
  (0xfffffffffffffffffffffffffffffffffffffffffffffffffffffffefffffc2f,
   2, [(0x1db8260e5e3b460a46a0088fccf6a3a5936d75d89a776d4c0da4f338aafb, 1)])
].

Lemma cert_k1_p_ok : check_cert cert_k1_p = true.
Proof. vm_cast_no_check (@eq_refl bool true). Qed.

(* the modulus as a Z literal: this statement does not mention BigZ, hence is closed *)
Theorem secp256k1_p_prime_lit :
  primeZ 0xfffffffffffffffffffffffffffffffffffffffffffffffffffffffefffffc2f.
Proof.
  apply (check_cert_sound_b cert_k1_p _ cert_k1_p_ok). vm_compute. reflexivity.
Qed.

Lemma secp256k1_p_lit :
  curve_p Secp256k1 = 0xfffffffffffffffffffffffffffffffffffffffffffffffffffffffefffffc2f.
Proof. vm_compute. reflexivity. Qed.

Theorem secp256k1_p_prime : primeZ (curve_p Secp256k1).
Proof. rewrite secp256k1_p_lit. exact secp256k1_p_prime_lit. Qed.

Definition cert_k1_n : list entry := [
  (0x5ddb9f12ef6348a3e23ba5e3,
   2, [(293, 1); (305873, 1); (545358713, 1)]);
  (0x10dbff26eab8198050172ee03275,
   2, [(0x5ddb9f12ef6348a3e23ba5e3, 1)]);
  (0xfffffffffffffffffffffffffffffffebaaedce6af48a03bbfd25e8cd0364141,
   5, [(2, 6); (149, 1); (631, 1); (0x10dbff26eab8198050172ee03275, 1)])
].

Lemma cert_k1_n_ok : check_cert cert_k1_n = true.
Proof. vm_cast_no_check (@eq_refl bool true). Qed.

(* the modulus as a Z literal: this statement does not mention BigZ, hence is closed *)
Theorem secp256k1_n_prime_lit :
  primeZ 0xfffffffffffffffffffffffffffffffebaaedce6af48a03bbfd25e8cd0364141.
Proof.
  apply (check_cert_sound_b cert_k1_n _ cert_k1_n_ok). vm_compute. reflexivity.
Qed.

Lemma secp256k1_n_lit :
  curve_n Secp256k1 = 0xfffffffffffffffffffffffffffffffebaaedce6af48a03bbfd25e8cd0364141.
Proof. vm_compute. reflexivity. Qed.

Theorem secp256k1_n_prime : primeZ (curve_n Secp256k1).
Proof. rewrite secp256k1_n_lit. exact secp256k1_n_prime_lit. Qed.

(* [bls_*] and the [_lit] statements are closed.  The four [curve_* C] statements mention
   [BigZ.to_Z] in their STATEMENT (definition of curve_p / curve_n in Prim/EcdsaCurve.v), so
   Print Assumptions lists the kernel's primitive 63-bit integer operations (PrimInt63.*:
   primitives, not logical axioms) for them, and nothing else. *)
Print Assumptions bls_r_prime.
Print Assumptions bls_p_prime.
Print Assumptions p256_p_prime_lit.
Print Assumptions p256_p_prime.
Print Assumptions p256_n_prime_lit.
Print Assumptions p256_n_prime.
Print Assumptions secp256k1_p_prime_lit.
Print Assumptions secp256k1_p_prime.
Print Assumptions secp256k1_n_prime_lit.
Print Assumptions secp256k1_n_prime.
