(* Refinement between the carriers of Lib/Num.v: a function written once over [num T] and run on
   BigZ computes what the same function computes on Z.  Used to execute models on BigZ. *)
From Coq Require Import ZArith List Bool.
From Bignums Require Import BigZ.
From V Require Import Lib.Num Prim.Bls12.
Open Scope Z_scope.

Section Refine.
Context {T : Type} (M : num T) (OK : num_ok M).
Notation "[ x ]" := (n_to_Z M x).

Lemma madd_refine m a b : [madd M m a b] = madd ZNum [m] [a] [b].
Proof. unfold madd. cbn [n_mod n_add ZNum]. now rewrite (ok_mod M OK), (ok_add M OK). Qed.
Lemma msub_refine m a b : [msub M m a b] = msub ZNum [m] [a] [b].
Proof. unfold msub. cbn [n_mod n_sub ZNum]. now rewrite (ok_mod M OK), (ok_sub M OK). Qed.
Lemma mmul_refine m a b : [mmul M m a b] = mmul ZNum [m] [a] [b].
Proof. unfold mmul. cbn [n_mod n_mul ZNum]. now rewrite (ok_mod M OK), (ok_mul M OK). Qed.
Lemma mneg_refine m a : [mneg M m a] = mneg ZNum [m] [a].
Proof. unfold mneg. cbn [n_mod n_sub ZNum]. now rewrite (ok_mod M OK), (ok_sub M OK). Qed.

Lemma mpow_pos_refine m a e : [mpow_pos M m a e] = mpow_pos ZNum [m] [a] e.
Proof.
  induction e as [e IH|e IH|]; cbn [mpow_pos].
  - now rewrite !mmul_refine, IH.
  - now rewrite mmul_refine, IH.
  - reflexivity.
Qed.
Lemma mpow_refine m a e : [mpow M m a e] = mpow ZNum [m] [a] e.
Proof.
  destruct e; cbn [mpow]; try apply mpow_pos_refine;
    cbn [n_mod n_of_Z ZNum]; now rewrite (ok_mod M OK), (ok_of_Z M OK).
Qed.
End Refine.

(* the BigZ instance *)
Lemma mpow_big m a e : BigZ.to_Z (mpow BNum (BigZ.of_Z m) (BigZ.of_Z a) e) = mpow ZNum m a e.
Proof.
  pose proof (mpow_refine BNum BNum_ok (BigZ.of_Z m) (BigZ.of_Z a) e) as H.
  cbn [n_to_Z BNum] in H. now rewrite !BigZ.spec_of_Z in H.
Qed.
