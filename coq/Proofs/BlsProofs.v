(* C01: Verify accepts exactly enc(sk * H(m)). *)
From Coq Require Import ZArith NArith List Bool String Ring.
From V Require Import Spec.Bilinear Generated.Guards Generated.Consts Model.BlsAbs.
Import ListNotations.

Section Proofs.
Context {B : bilinear} {C : codecs}.
Add Ring FRing2 : Fring.

(* the step lists extracted from the current sources are the ones these proofs are about *)
Lemma go_steps_eq : go_steps = Some [GHasher; GLen; GHash; GIdKey; GCallVerify].
Proof. reflexivity. Qed.
Lemma c_steps_eq : c_steps = Some [CRead; CInG1; CMap; CPair].
Proof. reflexivity. Qed.
(* the decoders and the signer still have the shape the models were written from *)
Lemma decode_pk_skeleton :
  skel_bls_blsBLS12381Algo_decodePublicKey =
  [Guard "len(publicKeyBytes) != PubKeyLenBLSBLS12381"; Guard "readPointE2("; Guard "C.E2_in_G2("; Call "isInfinity()"]%string.
Proof. reflexivity. Qed.
Lemma decode_sk_skeleton :
  skel_bls_blsBLS12381Algo_decodePrivateKey =
  [Guard "len(privateKeyBytes) != PrKeyLenBLSBLS12381"; Guard "readScalarFrStar("]%string.
Proof. reflexivity. Qed.
Lemma sign_skeletons :
  skel_bls_prKeyBLSBLS12381_Sign = [Guard "checkBLSHasher("; Call "ComputeHash("; Call "C.bls_sign("]%string /\
  skel_bls_core_bls_sign = [Guard "map_to_G1("; Call "bls_sign_E1("]%string /\
  skel_bls_core_bls_sign_E1 = [Call "E1_mult("; Call "E1_write_bytes("]%string /\
  skel_bls_core_bls_verify_E1 = [Call "BLS12_381_minus_g2"; Call "Fp12_multi_pairing("; Guard "Fp12_is_one("]%string /\
  skel_bls_checkBLSHasher = [Guard "hasher == nil"; Guard "hasher.Size() != expandMsgOutput"]%string.
Proof. repeat split; reflexivity. Qed.

(* numbers of return statements (tripwire for added or removed early exits) *)
Lemma return_counts_bls :
  (nret_bls_pubKeyBLSBLS12381_Verify, nret_bls_prKeyBLSBLS12381_Sign, nret_bls_blsBLS12381Algo_decodePublicKey,
   nret_bls_blsBLS12381Algo_decodePrivateKey, nret_bls_checkBLSHasher, nret_bls_core_bls_verify,
   nret_bls_core_bls_verify_E1, nret_bls_core_bls_sign, nret_bls_core_bls_sign_E1)
  = (6, 2, 4, 3, 3, 4, 2, 2, 0)%nat.
Proof. reflexivity. Qed.

Lemma sig_len_eq : Z.to_nat crypto_SignatureLenBLSBLS12381 = Z.to_nat C_G1_SER_BYTES.
Proof. reflexivity. Qed.

Lemma enc1_inj (P Q : E1) : enc1 P = enc1 Q -> P = Q.
Proof.
  intro H. assert (X : Some P = Some Q).
  { transitivity (dec1 (enc1 P)); [symmetry; apply dec1_enc1|]. rewrite H. apply dec1_enc1. }
  congruence.
Qed.

Definition good_hasher : hasher := HSize crypto_expandMsgOutput.

Lemma check_good : check_hasher good_hasher = None.
Proof. unfold check_hasher, good_hasher. now rewrite Z.eqb_refl. Qed.

Lemma verify_unfold pk b hpt :
  verify pk b good_hasher hpt =
  VBool (if Nat.eqb (List.length b) (Z.to_nat crypto_SignatureLenBLSBLS12381) then
           if pk_is_identity pk then false else
           match dec1 b with
           | Some P => if inG1 P then verify_E1 (pk_point pk) P hpt else false
           | None => false
           end
         else false).
Proof.
  unfold verify. rewrite go_steps_eq, c_steps_eq. cbn [go_run c_run]. rewrite check_good.
  destruct (Nat.eqb _ _); [|reflexivity].
  destruct (pk_is_identity pk); [reflexivity|].
  destruct (dec1 b) as [P|]; [|reflexivity].
  destruct (inG1 P); reflexivity.
Qed.

Lemma is_O2_pk sk : is_O2 (pk_of sk) = feqb sk f0.
Proof.
  rewrite pk_of_G. unfold is_O2. cbn [fst snd].
  rewrite (proj2 (t2_eqb_eq t2_0 t2_0) eq_refl). apply andb_true_r.
Qed.

(* identity-cache invariant: the flag cached from the scalar is the flag of the point *)
Lemma public_key_eq sk : public_key sk = mk_pubkey (pk_of sk).
Proof. unfold public_key, mk_pubkey. now rewrite is_O2_pk. Qed.

Lemma verify_E1_G sk sg eta :
  verify_E1 (pk_of sk) (sg, t1_0) (eta, t1_0) = feqb sg (fmul sk eta).
Proof.
  unfold verify_E1, multi_pairing_is_one. rewrite pk_of_G. unfold neg_g2.
  cbn [map fsum fold_right]. rewrite !pair_term_GG by reflexivity. cbn [fst snd].
  destruct (feqb_spec sg (fmul sk eta)) as [E|E].
  - apply feqb_eq. rewrite E. ring.
  - destruct (feqb_spec (fadd (fmul sg (fopp f1)) (fadd (fmul eta sk) f0)) f0) as [E2|E2]; [|reflexivity].
    exfalso. apply E.
    assert (H : sg = fadd (fmul sk eta) (fopp (fadd (fmul sg (fopp f1)) (fadd (fmul eta sk) f0)))) by ring.
    rewrite H, E2. ring.
Qed.

(* THE statement of C01 *)
Theorem verify_iff_canonical_sig sk b hpt :
  inG1 hpt = true ->
  (verify (public_key sk) b good_hasher hpt = VBool true
   <-> (sk <> f0 /\ b = enc1 (smul1 sk hpt))).
Proof.
  intro Hh. apply inG1_iff in Hh as [eta ->].
  rewrite verify_unfold. rewrite public_key_eq. unfold mk_pubkey. cbn [pk_is_identity pk_point].
  rewrite is_O2_pk. rewrite smul1_G. split.
  - intro H. injection H as H.
    destruct (Nat.eqb _ _) eqn:El; [|discriminate].
    destruct (feqb_spec sk f0) as [E0|E0]; [discriminate|].
    destruct (dec1 b) as [P|] eqn:Ed; [|discriminate].
    destruct (inG1 P) eqn:Eg; [|discriminate].
    apply inG1_iff in Eg as [sg ->]. rewrite verify_E1_G in H. apply feqb_eq in H. subst sg.
    split; [exact E0|]. symmetry. apply dec1_canonical. exact Ed.
  - intros [E0 ->]. f_equal.
    rewrite enc1_len, sig_len_eq, Nat.eqb_refl.
    destruct (feqb_spec sk f0) as [E|_]; [contradiction|].
    rewrite dec1_enc1.
    replace (inG1 (fmul sk eta, t1_0)) with true by (symmetry; apply inG1_iff; eauto).
    rewrite verify_E1_G. apply feqb_refl.
Qed.

(* with a valid hasher the verdict is always a boolean, never an error *)
Lemma verify_is_bool pk b hpt : exists v, verify pk b good_hasher hpt = VBool v.
Proof. rewrite verify_unfold. eauto. Qed.

Corollary sign_verifies sk hpt :
  inG1 hpt = true -> sk <> f0 ->
  verify (public_key sk) (snd (sign sk good_hasher hpt)) good_hasher hpt = VBool true.
Proof.
  intros Hh Hs. apply verify_iff_canonical_sig; [exact Hh|]. split; [exact Hs|].
  unfold sign. now rewrite check_good.
Qed.

Corollary unique_accepted_string sk hpt b b' :
  inG1 hpt = true ->
  verify (public_key sk) b good_hasher hpt = VBool true ->
  verify (public_key sk) b' good_hasher hpt = VBool true -> b = b'.
Proof.
  intros Hh H1 H2. apply (verify_iff_canonical_sig sk b hpt Hh) in H1 as [_ ->].
  apply (verify_iff_canonical_sig sk b' hpt Hh) in H2 as [_ ->]. reflexivity.
Qed.

(* identity public key (however it was obtained): every signature is rejected *)
Theorem identity_pk_rejects_all b hpt :
  verify (mk_pubkey O2) b good_hasher hpt = VBool false.
Proof.
  rewrite verify_unfold. unfold mk_pubkey. cbn [pk_is_identity].
  replace (is_O2 O2) with true.
  - destruct (Nat.eqb _ _); reflexivity.
  - unfold is_O2, O2. cbn [fst snd]. rewrite feqb_refl. symmetry.
    rewrite (proj2 (t2_eqb_eq t2_0 t2_0) eq_refl). reflexivity.
Qed.

Theorem wrong_length_rejects pk b hpt :
  List.length b <> Z.to_nat crypto_SignatureLenBLSBLS12381 ->
  verify pk b good_hasher hpt = VBool false.
Proof.
  intro H. rewrite verify_unfold. destruct (Nat.eqb_spec (List.length b) (Z.to_nat crypto_SignatureLenBLSBLS12381)); [contradiction|reflexivity].
Qed.

(* a curve point outside the prime-order subgroup is rejected whatever the pairing computes on it *)
Theorem non_subgroup_rejected pk b P hpt :
  dec1 b = Some P -> inG1 P = false -> verify pk b good_hasher hpt = VBool false.
Proof.
  intros Hd Hg. rewrite verify_unfold. rewrite Hd, Hg.
  destruct (Nat.eqb _ _); [|reflexivity]. destruct (pk_is_identity pk); reflexivity.
Qed.

Theorem undecodable_rejected pk b hpt :
  dec1 b = None -> verify pk b good_hasher hpt = VBool false.
Proof.
  intros Hd. rewrite verify_unfold. rewrite Hd.
  destruct (Nat.eqb _ _); [|reflexivity]. destruct (pk_is_identity pk); reflexivity.
Qed.

(* a signature on another hash-to-curve image is rejected (needs no zero divisors) *)
Theorem other_message_rejected sk hpt hpt' :
  inG1 hpt = true -> inG1 hpt' = true -> sk <> f0 -> hpt <> hpt' ->
  verify (public_key sk) (enc1 (smul1 sk hpt)) good_hasher hpt' = VBool false.
Proof.
  intros H1 H2 Hs Hne.
  destruct (verify_is_bool (public_key sk) (enc1 (smul1 sk hpt)) hpt') as [[|] Hv]; [|exact Hv].
  exfalso. apply (verify_iff_canonical_sig sk _ hpt' H2) in Hv as [_ Hv].
  assert (E : smul1 sk hpt = smul1 sk hpt').
  { assert (Q : Some (smul1 sk hpt) = Some (smul1 sk hpt')).
    { rewrite <- (dec1_enc1 (smul1 sk hpt)). rewrite Hv. apply dec1_enc1. }
    congruence. }
  apply inG1_iff in H1 as [a ->]. apply inG1_iff in H2 as [a' ->].
  rewrite !smul1_G in E. injection E as E. apply Hne. f_equal.
  assert (Z : fmul sk (fsub a a') = f0) by (replace (fmul sk (fsub a a')) with (fsub (fmul sk a) (fmul sk a')) by ring; rewrite E; ring).
  destruct (F_integral _ _ Z) as [Q|Q]; [contradiction|].
  replace a with (fadd (fsub a a') a') by ring. rewrite Q. ring.
Qed.

(* another key: the same bytes verify under sk' only if sk' * h = sk * h *)
Theorem other_key_rejected sk sk' hpt :
  inG1 hpt = true -> hpt <> O1 -> sk <> sk' ->
  verify (public_key sk') (enc1 (smul1 sk hpt)) good_hasher hpt = VBool false.
Proof.
  intros H1 Hnz Hne.
  destruct (verify_is_bool (public_key sk') (enc1 (smul1 sk hpt)) hpt) as [[|] Hv]; [|exact Hv].
  exfalso. apply (verify_iff_canonical_sig sk' _ hpt H1) in Hv as [_ Hv].
  assert (Q0 : Some (smul1 sk hpt) = Some (smul1 sk' hpt)).
  { rewrite <- (dec1_enc1 (smul1 sk hpt)). rewrite Hv. apply dec1_enc1. }
  assert (Q1 : smul1 sk hpt = smul1 sk' hpt) by congruence.
  apply inG1_iff in H1 as [a ->]. rewrite !smul1_G in Q1.
  assert (Q : fmul sk a = fmul sk' a) by congruence.
  assert (Z : fmul (fsub sk sk') a = f0) by (replace (fmul (fsub sk sk') a) with (fsub (fmul sk a) (fmul sk' a)) by ring; rewrite Q; ring).
  destruct (F_integral _ _ Z) as [E|E].
  - apply Hne. replace sk with (fadd (fsub sk sk') sk') by ring. rewrite E. ring.
  - apply Hnz. unfold O1. now rewrite E.
Qed.

(* hasher guards come first and give the two typed errors *)
Theorem hasher_guards pk b hpt :
  verify pk b HNil hpt = VErr ErrNilHasher /\
  (forall n, n <> crypto_expandMsgOutput -> verify pk b (HSize n) hpt = VErr ErrHasherSize).
Proof.
  unfold verify. rewrite go_steps_eq, c_steps_eq. cbn [go_run check_hasher]. split; [reflexivity|].
  intros n Hn. destruct (Z.eqb_spec n crypto_expandMsgOutput); [contradiction|reflexivity].
Qed.
End Proofs.
