(* Which participants the callbacks of a Feldman-VSS-Qual instance can name. *)
From Coq Require Import ZArith List Bool Arith Lia.
From V Require Import Model.DkgVss Model.DkgQual Spec.DkgApiSpec Spec.DkgQualFacts
  Proofs.DkgTactics Proofs.DkgC10Proofs Proofs.DkgQualRefine.
Import ListNotations.
Open Scope Z_scope.
Local Opaque peval fixpoly r.

Section Ev.
Variable cf : cfg.
Variable d : nat.

(* a callback names the origin of the processed message or the dealer *)
Definition ev_ok (o : nat) (e : event) : Prop :=
  match e with EvDisq j | EvFlag j => j = o \/ j = d | _ => True end.

Ltac evfin := repeat (apply Forall_app; split); repeat (apply Forall_cons; [cbn; auto|]); try apply Forall_nil;
  try (eapply Forall_impl; [|eassumption]; intros [] ?; cbn in *; tauto).

Lemma bc_events q q' ev : build_complaint cf d q = Some (q', ev) -> Forall (ev_ok d) ev.
Proof. unfold build_complaint. intro H. repeat brk_hyp H; inv_pairs; evfin. Qed.

Ltac bcs := repeat match goal with H : build_complaint _ _ _ = Some (_, _) |- _ => apply bc_events in H end.

Lemma share_events o m q q' ev : q_receive_share cf d o m q = Some (q', ev) -> Forall (ev_ok o) ev.
Proof. unfold q_receive_share. intro H. repeat brk_hyp H; inv_pairs; bcs; evfin. Qed.
Lemma vector_events o vb q q' ev : q_receive_vector cf d o vb q = Some (q', ev) -> Forall (ev_ok o) ev.
Proof. unfold q_receive_vector. intro H. repeat brk_hyp H; inv_pairs; bcs; evfin. Qed.
Lemma complaint_events o cb q q' ev : q_receive_complaint cf d o cb q = Some (q', ev) -> Forall (ev_ok o) ev.
Proof. unfold q_receive_complaint, build_answer. intro H. repeat brk_hyp H; inv_pairs; bcs; evfin. Qed.
Lemma answer_events o ab q q' ev : q_receive_answer cf d o ab q = Some (q', ev) -> Forall (ev_ok o) ev.
Proof. unfold q_receive_answer. intro H. repeat brk_hyp H; inv_pairs; bcs; evfin. Qed.

Definition origin (x : item) : nat :=
  match x with IB o _ | IP o _ => o | _ => d end.

Theorem istep_events_target q x : Forall (ev_ok (origin x)) (snd (istep cf d q x)).
Proof.
  unfold istep. destruct x as [o m|o m| |j]; cbn [call_of qual_step qs_run qs_q origin].
  - unfold q_broadcast. cbn [negb]. rewrite Nat2Z.id.
    destruct (in_range cf (Z.of_nat o)); cbn; [|constructor].
    destruct (Nat.eqb (c_my cf) o); cbn; [constructor|].
    destruct (q_disq q); cbn; [constructor|].
    destruct m as [|sb|vb|cb|ab|tg]; cbn; try (repeat constructor; cbn; auto; fail).
    + destruct (q_receive_vector cf d o vb q) as [[q' ev]|] eqn:E; cbn; [eapply vector_events; eauto|constructor].
    + destruct (q_receive_complaint cf d o cb q) as [[q' ev]|] eqn:E; cbn; [eapply complaint_events; eauto|constructor].
    + destruct (q_receive_answer cf d o ab q) as [[q' ev]|] eqn:E; cbn; [eapply answer_events; eauto|constructor].
  - unfold q_private. cbn [negb]. rewrite Nat2Z.id.
    destruct (in_range cf (Z.of_nat o)); cbn; [|constructor].
    destruct (Nat.eqb (c_my cf) o); cbn; [constructor|].
    destruct (q_disq q); cbn; [constructor|].
    destruct (q_receive_share cf d o m q) as [[q' ev]|] eqn:E; cbn; [eapply share_events; eauto|constructor].
  - unfold q_next_timeout. cbn [negb]. destruct (q_ct q); cbn; [constructor|].
    destruct (q_disq q); cbn; [destruct (negb (q_st q)); cbn; constructor|].
    destruct (negb (q_st q)); cbn.
    + unfold set_shares_timeout. cbn [qset_st q_v]. destruct (v_vArecv (q_v q)); cbn; [|repeat constructor; cbn; auto].
      destruct (v_xrecv (q_v q)); cbn; [constructor|].
      destruct (build_complaint cf d (qset_st q true)) as [[q' ev]|] eqn:E; cbn; [eapply bc_events; eauto|constructor].
    + unfold set_complaints_timeout. destruct (c_t cf <? ncompl cf (q_compl (qset_ct q true)))%nat; cbn; repeat constructor; cbn; auto.
  - unfold q_force. cbn [negb]. destruct (in_range cf (Z.of_nat j)); cbn; [|constructor].
    destruct (Nat.eqb (Z.to_nat (Z.of_nat j)) d); cbn; constructor.
Qed.

(* a Disqualify(dealer) callback is only made when the instance disqualifies the dealer *)
Ltac infin :=
  try match goal with
  | Hin : In _ _ |- _ => cbn in Hin; repeat (apply in_app_or in Hin; cbn in Hin)
  end;
  repeat match goal with H : _ \/ _ |- _ => destruct H end; try contradiction; try discriminate;
  repeat match goal with H : EvDisq _ = EvDisq _ |- _ => inversion H; subst; clear H end;
  cbn; auto;
  try (match goal with H : (?x =? ?x)%nat = false |- _ => rewrite Nat.eqb_refl in H; discriminate H end);
  try (match goal with H : negb (?x =? ?x)%nat = true |- _ => rewrite Nat.eqb_refl in H; discriminate H end).

Lemma bc_disq q q' ev : build_complaint cf d q = Some (q', ev) -> In (EvDisq d) ev -> q_disq q' = true.
Proof. unfold build_complaint. intros H Hin. repeat brk_hyp H; inv_pairs; infin. Qed.

Ltac bcd := try match goal with
  | H : build_complaint _ _ _ = Some (?q', ?l), Hin : In (EvDisq d) (?l ++ _) |- _ =>
      apply in_app_or in Hin; destruct Hin as [Hin|Hin]; [exact (bc_disq _ _ _ H Hin)|cbn in Hin]
  | H : build_complaint _ _ _ = Some (?q', ?l), Hin : In (EvDisq d) ?l |- _ => exact (bc_disq _ _ _ H Hin)
  end.

Lemma share_disq o m q q' ev : q_receive_share cf d o m q = Some (q', ev) -> In (EvDisq d) ev -> q_disq q' = true.
Proof. unfold q_receive_share. intros H Hin. repeat brk_hyp H; inv_pairs; bcd; infin. Qed.
Lemma vector_disq o vb q q' ev : q_receive_vector cf d o vb q = Some (q', ev) -> In (EvDisq d) ev -> q_disq q' = true.
Proof. unfold q_receive_vector. intros H Hin. repeat brk_hyp H; inv_pairs; bcd; infin. Qed.
Lemma complaint_disq o cb q q' ev : q_receive_complaint cf d o cb q = Some (q', ev) -> In (EvDisq d) ev -> q_disq q' = true.
Proof. unfold q_receive_complaint, build_answer. intros H Hin. repeat brk_hyp H; inv_pairs; bcd; infin. Qed.
Lemma answer_disq o ab q q' ev : q_receive_answer cf d o ab q = Some (q', ev) -> In (EvDisq d) ev -> q_disq q' = true.
Proof. unfold q_receive_answer. intros H Hin. repeat brk_hyp H; inv_pairs; bcd; infin. Qed.

Theorem istep_disq_event q x :
  In (EvDisq d) (snd (istep cf d q x)) -> q_disq (fst (istep cf d q x)) = true.
Proof.
  unfold istep. destruct x as [o m|o m| |j]; cbn [call_of qual_step qs_run qs_q].
  - unfold q_broadcast. cbn [negb]. rewrite Nat2Z.id.
    destruct (in_range cf (Z.of_nat o)); cbn; [|contradiction].
    destruct (Nat.eqb (c_my cf) o); cbn; [contradiction|].
    destruct (q_disq q) eqn:Hq; cbn; [contradiction|].
    destruct m as [|sb|vb|cb|ab|tg]; cbn;
      try (destruct (Nat.eqb_spec o d) as [->|Ho]; cbn; intros [E|[]]; [reflexivity|inversion E; contradiction]).
    + destruct (q_receive_vector cf d o vb q) as [[q' ev]|] eqn:E; cbn; [eapply vector_disq; eauto|contradiction].
    + destruct (q_receive_complaint cf d o cb q) as [[q' ev]|] eqn:E; cbn; [eapply complaint_disq; eauto|contradiction].
    + destruct (q_receive_answer cf d o ab q) as [[q' ev]|] eqn:E; cbn; [eapply answer_disq; eauto|contradiction].
  - unfold q_private. cbn [negb]. rewrite Nat2Z.id.
    destruct (in_range cf (Z.of_nat o)); cbn; [|contradiction].
    destruct (Nat.eqb (c_my cf) o); cbn; [contradiction|].
    destruct (q_disq q); cbn; [contradiction|].
    destruct (q_receive_share cf d o m q) as [[q' ev]|] eqn:E; cbn; [eapply share_disq; eauto|contradiction].
  - unfold q_next_timeout. cbn [negb]. destruct (q_ct q); cbn; [contradiction|].
    destruct (q_disq q); cbn; [destruct (negb (q_st q)); cbn; contradiction|].
    destruct (negb (q_st q)); cbn.
    + unfold set_shares_timeout. cbn [qset_st q_v]. destruct (v_vArecv (q_v q)); cbn; [|auto].
      destruct (v_xrecv (q_v q)); cbn; [contradiction|].
      destruct (build_complaint cf d (qset_st q true)) as [[q' ev]|] eqn:E; cbn; [eapply bc_disq; eauto|contradiction].
    + unfold set_complaints_timeout. destruct (c_t cf <? ncompl cf (q_compl (qset_ct q true)))%nat; cbn; [auto|contradiction].
  - unfold q_force. cbn [negb]. destruct (in_range cf (Z.of_nat j)); cbn; [|contradiction].
    destruct (Nat.eqb (Z.to_nat (Z.of_nat j)) d); cbn; contradiction.
Qed.

(* all callbacks of a run *)
Fixpoint irun_events (q : qinst) (L : list item) : list event :=
  match L with
  | [] => []
  | x :: L' => snd (istep cf d q x) ++ irun_events (fst (istep cf d q x)) L'
  end.

Lemma irun_cons q x L : irun cf d q (x :: L) = irun cf d (fst (istep cf d q x)) L.
Proof. reflexivity. Qed.

(* the disqualified flag never goes back *)
Lemma irun_disq_mono : forall L q, q_disq q = true -> q_disq (irun cf d q L) = true.
Proof.
  induction L as [|x L IH]; intros q Hq; [exact Hq|]. rewrite irun_cons. apply IH. apply istep_disq. exact Hq.
Qed.

(* no Disqualify(dealer) callback unless the dealer ends up disqualified *)
Theorem no_disq_event : forall L q, q_disq (irun cf d q L) = false -> ~ In (EvDisq d) (irun_events q L).
Proof.
  induction L as [|x L IH]; intros q Hq Hin; [contradiction|].
  cbn [irun_events] in Hin. rewrite irun_cons in Hq. apply in_app_or in Hin as [Hin|Hin].
  - apply istep_disq_event in Hin. rewrite (irun_disq_mono L _ Hin) in Hq. discriminate Hq.
  - exact (IH _ Hq Hin).
Qed.

(* a callback about a participant j other than the dealer can only come from processing a
   message whose origin is j *)
Theorem events_only_about_origin : forall L q j, j <> d ->
  (forall x, In x L -> origin x <> j) ->
  ~ In (EvDisq j) (irun_events q L) /\ ~ In (EvFlag j) (irun_events q L).
Proof.
  induction L as [|x L IH]; intros q j Hj Ho; [split; intros []|].
  destruct (IH (fst (istep cf d q x)) j Hj (fun y Hy => Ho y (or_intror Hy))) as [I1 I2].
  pose proof (istep_events_target q x) as HT. rewrite Forall_forall in HT.
  assert (Hox : origin x <> j) by (apply Ho; left; reflexivity).
  cbn [irun_events]. split; intro Hin; apply in_app_or in Hin as [Hin|Hin]; auto.
  - specialize (HT _ Hin). cbn in HT. destruct HT; congruence.
  - specialize (HT _ Hin). cbn in HT. destruct HT; congruence.
Qed.

Lemma irun_events_app : forall L1 L2 q,
  irun_events q (L1 ++ L2) = irun_events q L1 ++ irun_events (irun cf d q L1) L2.
Proof.
  induction L1 as [|x L1 IH]; intros L2 q; [reflexivity|].
  cbn [app irun_events]. rewrite IH, irun_cons, app_assoc. reflexivity.
Qed.

Hypothesis Hp : (c_my cf < c_n cf)%nat.
Hypothesis Hd : (d < c_n cf)%nat.
Hypothesis Hpd : c_my cf <> d.

Lemma compF_no_origin : forall A j, (forall k x, In (k, x) A -> origin x <> j) -> j <> d -> compF cf d A j = false.
Proof.
  induction A as [|[k x] A IH]; intros j H Hj; cbn; [reflexivity|].
  assert (IH' : compF cf d A j = false) by (apply IH; auto; intros; eapply H; right; eauto).
  destruct x as [o m| | |]; try exact IH'. rewrite IH', orb_false_r.
  unfold complaint_of. destruct m; try reflexivity. destruct c; try reflexivity.
  destruct (Nat.eqb_spec o j) as [->|]; [|reflexivity].
  exfalso. apply (H k (IB j (MComplaint (CIdx b))) (or_introl eq_refl)). reflexivity.
Qed.

Lemma annot_In L k x : In (k, x) (annot L) -> In x L.
Proof.
  unfold annot. generalize 0%nat. induction L as [|y L IH]; intros k0 H; cbn in H; [contradiction|].
  destruct H as [E|H]; [inversion E; left; reflexivity|right; eapply IH; eauto].
Qed.

(* an honest participant j (neither the dealer nor the receiver) whose only message is one
   valid complaint before the complaints timeout is never named in a callback *)
Theorem honest_complainer_not_blamed L1 L2 j :
  j <> d -> j <> c_my cf -> (j < c_n cf)%nat ->
  (forall x, In x L1 -> origin x <> j) -> (forall x, In x L2 -> origin x <> j) ->
  (ph L1 < 2)%nat ->
  let L := L1 ++ [IB j (MComplaint (CIdx (Z.of_nat d)))] ++ L2 in
  ~ In (EvDisq j) (irun_events q_init L) /\ ~ In (EvFlag j) (irun_events q_init L).
Proof.
  intros Hjd Hjp Hjn H1 H2 Hph L. unfold L. rewrite !irun_events_app.
  destruct (events_only_about_origin L1 q_init j Hjd H1) as [A1 A2].
  set (q1 := irun cf d q_init L1).
  destruct (events_only_about_origin L2 (irun cf d q1 [IB j (MComplaint (CIdx (Z.of_nat d)))]) j Hjd H2) as [B1 B2].
  (* the step that processes the complaint *)
  assert (Hmid : ~ In (EvDisq j) (irun_events q1 [IB j (MComplaint (CIdx (Z.of_nat d)))]) /\
                 ~ In (EvFlag j) (irun_events q1 [IB j (MComplaint (CIdx (Z.of_nat d)))])).
  { cbn [irun_events]. rewrite app_nil_r.
    pose proof (qual_refines_factset cf d Hp Hd Hpd L1) as [R1 R2]. fold q1 in R1, R2.
    unfold istep. cbn [call_of qual_step qs_run qs_q]. unfold q_broadcast. cbn [negb].
    rewrite (in_range_of_nat cf d Hp Hd Hpd), Nat2Z.id. rewrite (proj2 (Nat.ltb_lt j (c_n cf)) Hjn). cbn [negb].
    rewrite (proj2 (Nat.eqb_neq (c_my cf) j)) by (intro E; apply Hjp; symmetry; exact E).
    destruct (q_disq q1) eqn:Hq; cbn; [split; intros []|].
    destruct (R1 eq_refl) as [S P].
    unfold q_receive_complaint. rewrite (sa_ct _ _ _ _ S), nph_annot.
    assert (E2 : Nat.leb 2 (ph L1) = false) by (apply Nat.leb_gt; exact Hph). rewrite E2.
    rewrite (proj2 (Nat.eqb_neq j d) Hjd).
    assert (Eb : (Z.of_nat (c_n cf) <=? Z.of_nat d) = false) by (apply Z.leb_gt; lia). rewrite Eb.
    rewrite Nat2Z.id, Nat.eqb_refl. cbn [negb].
    rewrite (sa_compl _ _ _ _ S j). unfold complained.
    rewrite (proj2 (Nat.eqb_neq j (c_my cf)) Hjp).
    rewrite (compF_no_origin (annot L1) j) by (auto; intros k x Hin; apply H1; eapply annot_In; eauto).
    destruct (ansF cf d (annot L1) j) as [z|]; cbn [absEntry c_recv c_ans c_val].
    - rewrite (proj2 (Nat.eqb_neq (c_my cf) d) Hpd). cbn [negb andb].
      destruct (v_vArecv (q_v (qset_compl q1 (upd (q_compl q1) j (mkC true true z))))); cbn [andb].
      + destruct (check_complaint _ j z) as [[|]|]; cbn; split; intro Hin; try contradiction.
        all: destruct Hin as [E|[]]; inversion E. all: apply Hjd; symmetry; assumption.
      + cbn. split; intros [].
    - rewrite (proj2 (Nat.eqb_neq (c_my cf) d) Hpd). cbn. split; intros []. }
  destruct Hmid as [M1 M2].
  split; intro Hin.
  - apply in_app_or in Hin as [Hin|Hin]; [exact (A1 Hin)|].
    apply in_app_or in Hin as [Hin|Hin]; [exact (M1 Hin)|exact (B1 Hin)].
  - apply in_app_or in Hin as [Hin|Hin]; [exact (A2 Hin)|].
    apply in_app_or in Hin as [Hin|Hin]; [exact (M2 Hin)|exact (B2 Hin)].
Qed.

End Ev.

(* ---------------------------------------------------------------------- *)
(* FlagMisbehavior(dealer): when can it be called                          *)
(* ---------------------------------------------------------------------- *)
Section Flag.
Variable cf : cfg.
Variable d : nat.
Let p := c_my cf.

Definition own_recv (q : qinst) : bool :=
  match q_compl q p with Some c => c_recv c | None => false end.

Lemma bc_flag q q' ev : build_complaint cf d q = Some (q', ev) -> In (EvFlag d) ev ->
  q_disq q' = true \/ own_recv q' = true.
Proof.
  unfold build_complaint, own_recv. fold p. intros H Hin.
  repeat brk_hyp H; inv_pairs; cbn in *; unfold upd; rewrite ?Nat.eqb_refl; cbn; auto;
  try (repeat (apply in_app_or in Hin; cbn in Hin); repeat match goal with H : _ \/ _ |- _ => destruct H end; try contradiction; try discriminate).
Qed.

Ltac flfin :=
  try match goal with
  | Hin : In _ _ |- _ => cbn in Hin; repeat (apply in_app_or in Hin; cbn in Hin)
  end;
  repeat match goal with H : _ \/ _ |- _ => destruct H end; try contradiction; try discriminate;
  repeat match goal with H : EvFlag _ = EvFlag _ |- _ => inversion H; subst; clear H end.

Ltac bcf := try match goal with
  | H : build_complaint _ _ _ = Some (?q', ?l), Hin : In (EvFlag d) (?l ++ _) |- _ =>
      apply in_app_or in Hin; destruct Hin as [Hin|Hin]; [pose proof (bc_flag _ _ _ H Hin)|cbn in Hin]
  | H : build_complaint _ _ _ = Some (?q', ?l), Hin : In (EvFlag d) ?l |- _ => pose proof (bc_flag _ _ _ H Hin)
  end.

Lemma read_star_false z old z0 b : read_star z old = (b, z0) -> negb b = true -> readable z = false.
Proof.
  unfold read_star, readable. destruct ((0 <? z) && (z <? r)); intros H Hb; [inversion H; subst; discriminate Hb|reflexivity].
Qed.

Definition share_malformed (m : msg) : Prop :=
  match m with MShare (SVal z) => readable z = false | _ => True end.

Lemma share_flag o m q q' ev : q_receive_share cf d o m q = Some (q', ev) -> In (EvFlag d) ev ->
  o = d /\ (q_st q = true \/ v_xrecv (q_v q) = true \/ share_malformed m \/ q_disq q' = true \/ own_recv q' = true).
Proof.
  unfold q_receive_share. intros H Hin.
  destruct (Nat.eqb_spec o d) as [->|Ho]; cbn [negb] in H; [|inv_pairs; contradiction].
  split; [reflexivity|].
  repeat brk_hyp H; inv_pairs; auto; bcf; flfin; cbn; auto 6;
  try (right; right; left; eapply read_star_false; eauto).
Qed.

Lemma vector_flag o vb q q' ev : q_receive_vector cf d o vb q = Some (q', ev) -> In (EvFlag d) ev ->
  o = d /\ (q_st q = true \/ v_vArecv (q_v q) = true \/ q_disq q' = true \/ own_recv q' = true).
Proof.
  unfold q_receive_vector. intros H Hin.
  destruct (Nat.eqb_spec o d) as [->|Ho]; cbn [negb] in H; [|inv_pairs; contradiction].
  split; [reflexivity|].
  repeat brk_hyp H; inv_pairs; auto; bcf; flfin; cbn; auto 6.
Qed.

Definition answer_dup (ab : abody) (q : qinst) : Prop :=
  match ab with
  | AVal b z => match q_compl q (Z.to_nat b) with Some k => c_ans k = true | None => False end
  | ABadLen => False
  end.

Lemma answer_flag o ab q q' ev : q_receive_answer cf d o ab q = Some (q', ev) -> In (EvFlag d) ev ->
  o = d /\ answer_dup ab q.
Proof.
  unfold q_receive_answer, answer_dup. intros H Hin.
  destruct (Nat.eqb_spec o d) as [->|Ho]; cbn [negb] in H; [|inv_pairs; contradiction].
  split; [reflexivity|].
  repeat brk_hyp H; inv_pairs; flfin; auto.
Qed.

Lemma complaint_flag o cb q q' ev : q_receive_complaint cf d o cb q = Some (q', ev) -> In (EvFlag d) ev ->
  o = d /\ q_ct q = true.
Proof.
  unfold q_receive_complaint, build_answer. intros H Hin.
  repeat brk_hyp H; inv_pairs; flfin; auto;
  try match goal with H : (?x =? ?x)%nat = false |- _ => rewrite Nat.eqb_refl in H; discriminate H end.
Qed.

(* the possible causes of a FlagMisbehavior(dealer) callback in one step *)
Definition flag_cause (q q' : qinst) (x : item) : Prop :=
  match x with
  | IP o m => o = d /\ (q_st q = true \/ v_xrecv (q_v q) = true \/ share_malformed m \/ q_disq q' = true \/ own_recv q' = true)
  | IB o (MVec vb) => o = d /\ (q_st q = true \/ v_vArecv (q_v q) = true \/ q_disq q' = true \/ own_recv q' = true)
  | IB o (MAnswer ab) => o = d /\ answer_dup ab q
  | IB o (MComplaint cb) => o = d /\ q_ct q = true
  | IB _ _ => False
  | ITimeout => q_disq q' = true \/ own_recv q' = true
  | IForce _ => False
  end.

Theorem istep_flag_cause q x :
  In (EvFlag d) (snd (istep cf d q x)) -> flag_cause q (fst (istep cf d q x)) x.
Proof.
  unfold istep. destruct x as [o m|o m| |j]; cbn [call_of qual_step qs_run qs_q flag_cause].
  - unfold q_broadcast. cbn [negb]. rewrite Nat2Z.id.
    destruct (in_range cf (Z.of_nat o)); cbn; [|contradiction].
    destruct (Nat.eqb (c_my cf) o); cbn; [contradiction|].
    destruct (q_disq q) eqn:Hq; cbn; [contradiction|].
    destruct m as [|sb|vb|cb|ab|tg]; cbn; try (intros [E|[]]; discriminate E).
    + destruct (q_receive_vector cf d o vb q) as [[q' ev]|] eqn:E; cbn; [eapply vector_flag; eauto|contradiction].
    + destruct (q_receive_complaint cf d o cb q) as [[q' ev]|] eqn:E; cbn; [eapply complaint_flag; eauto|contradiction].
    + destruct (q_receive_answer cf d o ab q) as [[q' ev]|] eqn:E; cbn; [eapply answer_flag; eauto|contradiction].
  - unfold q_private. cbn [negb]. rewrite Nat2Z.id.
    destruct (in_range cf (Z.of_nat o)); cbn; [|contradiction].
    destruct (Nat.eqb (c_my cf) o); cbn; [contradiction|].
    destruct (q_disq q); cbn; [contradiction|].
    destruct (q_receive_share cf d o m q) as [[q' ev]|] eqn:E; cbn; [eapply share_flag; eauto|contradiction].
  - unfold q_next_timeout. cbn [negb]. destruct (q_ct q); cbn; [contradiction|].
    destruct (q_disq q); cbn; [destruct (negb (q_st q)); cbn; contradiction|].
    destruct (negb (q_st q)); cbn.
    + unfold set_shares_timeout. cbn [qset_st q_v]. destruct (v_vArecv (q_v q)); cbn; [|intros [E|[]]; discriminate E].
      destruct (v_xrecv (q_v q)); cbn; [contradiction|].
      destruct (build_complaint cf d (qset_st q true)) as [[q' ev]|] eqn:E; cbn; [eapply bc_flag; eauto|contradiction].
    + unfold set_complaints_timeout. destruct (c_t cf <? ncompl cf (q_compl (qset_ct q true)))%nat; cbn;
        [intros [E|[]]; discriminate E|contradiction].
  - unfold q_force. cbn [negb]. destruct (in_range cf (Z.of_nat j)); cbn; [|contradiction].
    destruct (Nat.eqb (Z.to_nat (Z.of_nat j)) d); cbn; contradiction.
Qed.

Lemma irun_events_split : forall L q e, In e (irun_events cf d q L) ->
  exists L1 x L2, L = L1 ++ x :: L2 /\ In e (snd (istep cf d (irun cf d q L1) x)).
Proof.
  induction L as [|x L IH]; intros q e Hin; [contradiction|].
  cbn [irun_events] in Hin. apply in_app_or in Hin as [Hin|Hin].
  - exists [], x, L. split; [reflexivity|exact Hin].
  - destruct (IH _ _ Hin) as (L1 & y & L2 & -> & Hy). exists (x :: L1), y, L2. split; [reflexivity|].
    rewrite irun_cons. exact Hy.
Qed.

(* ---- the own complaint is broadcast exactly when it is registered ---- *)
Definition cmp : event := EvBcast (MComplaint (CIdx (Z.of_nat d))).

Lemma bc_recv q q' ev : build_complaint cf d q = Some (q', ev) ->
  own_recv q = false -> (own_recv q' = true \/ q_disq q' = true) -> In cmp ev.
Proof.
  unfold build_complaint, own_recv, cmp. fold p. intros H H0 H1.
  repeat brk_hyp H; inv_pairs; cbn in *; try congruence; auto;
  try (apply in_or_app; left; right; left; reflexivity);
  try (right; left; reflexivity).
Qed.

Ltac recvfin :=
  cbn in *; unfold upd in *;
  repeat match goal with
  | H : context[Nat.eqb ?a ?b] |- _ => destruct (Nat.eqb_spec a b); cbn in H
  | |- context[Nat.eqb ?a ?b] => destruct (Nat.eqb_spec a b); cbn
  end; subst; try congruence; try contradiction; auto.

Ltac bcr := repeat match goal with
  | H : build_complaint _ _ ?x = Some (?q', ?l) |- _ =>
      let K := fresh "K" in pose proof (bc_recv _ _ _ H) as K; clear H
  end.

Lemma share_recv o m q q' ev : q_receive_share cf d o m q = Some (q', ev) ->
  own_recv q = false -> own_recv q' = true -> In cmp ev.
Proof.
  unfold q_receive_share. intros H H0 H1.
  repeat brk_hyp H; inv_pairs; try congruence; bcr;
  try (apply in_or_app; left); try (apply K; [exact H0|left; exact H1]);
  try (unfold own_recv in *; cbn [q_compl qset_v qset_compl qset_disq] in *; congruence).
Qed.

Ltac orf := unfold own_recv in *; cbn [q_compl qset_v qset_compl qset_disq qset_st qset_ct] in *.

Lemma vector_recv o vb q q' ev : q_receive_vector cf d o vb q = Some (q', ev) ->
  own_recv q = false -> own_recv q' = true -> In cmp ev.
Proof.
  unfold q_receive_vector. intros H H0 H1.
  repeat brk_hyp H; inv_pairs; try congruence; bcr;
  try (apply in_or_app; left); try (apply K; [exact H0|left; exact H1]);
  try (orf; congruence).
Qed.

Lemma answer_recv o ab q q' ev : q_receive_answer cf d o ab q = Some (q', ev) ->
  own_recv q = false -> own_recv q' = true -> In cmp ev.
Proof.
  unfold q_receive_answer. intros H H0 H1. exfalso.
  repeat brk_hyp H; inv_pairs; orf; unfold p, upd in *;
  repeat match goal with
  | H : context[Nat.eqb ?a ?b] |- _ => destruct (Nat.eqb_spec a b); cbn in H
  end; subst; try congruence;
  repeat match goal with e : c_my cf = _ |- _ => rewrite e in *; clear e end;
  repeat match goal with H : q_compl _ ?c = _, H' : context[q_compl _ ?c] |- _ => rewrite H in H' end; cbn in *; try congruence.
Qed.

Lemma complaint_recv o cb q q' ev : o <> c_my cf -> q_receive_complaint cf d o cb q = Some (q', ev) ->
  own_recv q = false -> own_recv q' = true -> In cmp ev.
Proof.
  unfold q_receive_complaint, build_answer. intros Ho H H0 H1. exfalso.
  repeat brk_hyp H; inv_pairs; orf; unfold p, upd in *;
  repeat match goal with
  | H : context[Nat.eqb ?a ?b] |- _ => destruct (Nat.eqb_spec a b); cbn in H
  end; subst; try congruence; try contradiction;
  repeat match goal with e : c_my cf = _ |- _ => rewrite e in *; clear e end; try congruence; try contradiction.
Qed.

Lemma bc_cmp q q' ev : build_complaint cf d q = Some (q', ev) -> In cmp ev ->
  q_disq q' = true \/ own_recv q' = true.
Proof.
  unfold build_complaint, own_recv, cmp. fold p. intros H Hin.
  repeat brk_hyp H; inv_pairs; cbn in *; unfold upd; rewrite ?Nat.eqb_refl; cbn; auto;
  try (repeat (apply in_app_or in Hin; cbn in Hin); repeat match goal with H : _ \/ _ |- _ => destruct H end; try contradiction; try discriminate).
Qed.

Ltac cmfin :=
  try match goal with
  | Hin : In _ _ |- _ => cbn in Hin; repeat (apply in_app_or in Hin; cbn in Hin)
  end;
  repeat match goal with H : _ \/ _ |- _ => destruct H end; try contradiction; try discriminate.

Ltac bcc := try match goal with
  | H : build_complaint _ _ _ = Some (?q', ?l), Hin : In cmp (?l ++ _) |- _ =>
      apply in_app_or in Hin; destruct Hin as [Hin|Hin]; [exact (bc_cmp _ _ _ H Hin)|cbn in Hin]
  | H : build_complaint _ _ _ = Some (?q', ?l), Hin : In cmp ?l |- _ => exact (bc_cmp _ _ _ H Hin)
  end.

Lemma share_cmp o m q q' ev : q_receive_share cf d o m q = Some (q', ev) -> In cmp ev -> q_disq q' = true \/ own_recv q' = true.
Proof. unfold q_receive_share. intros H Hin. repeat brk_hyp H; inv_pairs; bcc; unfold cmp in *; cmfin. Qed.
Lemma vector_cmp o vb q q' ev : q_receive_vector cf d o vb q = Some (q', ev) -> In cmp ev -> q_disq q' = true \/ own_recv q' = true.
Proof. unfold q_receive_vector. intros H Hin. repeat brk_hyp H; inv_pairs; bcc; unfold cmp in *; cmfin. Qed.
Lemma complaint_cmp o cb q q' ev : q_receive_complaint cf d o cb q = Some (q', ev) -> In cmp ev -> False.
Proof. unfold q_receive_complaint, build_answer. intros H Hin. repeat brk_hyp H; inv_pairs; unfold cmp in *; cmfin. Qed.
Lemma answer_cmp o ab q q' ev : q_receive_answer cf d o ab q = Some (q', ev) -> In cmp ev -> False.
Proof. unfold q_receive_answer. intros H Hin. repeat brk_hyp H; inv_pairs; unfold cmp in *; cmfin. Qed.

Theorem istep_cmp_cause q x :
  In cmp (snd (istep cf d q x)) -> q_disq (fst (istep cf d q x)) = true \/ own_recv (fst (istep cf d q x)) = true.
Proof.
  unfold istep. destruct x as [o m|o m| |j]; cbn [call_of qual_step qs_run qs_q].
  - unfold q_broadcast. cbn [negb]. rewrite Nat2Z.id.
    destruct (in_range cf (Z.of_nat o)); cbn; [|contradiction].
    destruct (Nat.eqb (c_my cf) o); cbn; [contradiction|].
    destruct (q_disq q) eqn:Hq; cbn; [contradiction|].
    destruct m as [|sb|vb|cb|ab|tg]; cbn; try (intros [E|[]]; discriminate E).
    + destruct (q_receive_vector cf d o vb q) as [[q' ev]|] eqn:E; cbn; [eapply vector_cmp; eauto|contradiction].
    + destruct (q_receive_complaint cf d o cb q) as [[q' ev]|] eqn:E; cbn; [intro Hin; exfalso; eapply complaint_cmp; eauto|contradiction].
    + destruct (q_receive_answer cf d o ab q) as [[q' ev]|] eqn:E; cbn; [intro Hin; exfalso; eapply answer_cmp; eauto|contradiction].
  - unfold q_private. cbn [negb]. rewrite Nat2Z.id.
    destruct (in_range cf (Z.of_nat o)); cbn; [|contradiction].
    destruct (Nat.eqb (c_my cf) o); cbn; [contradiction|].
    destruct (q_disq q); cbn; [contradiction|].
    destruct (q_receive_share cf d o m q) as [[q' ev]|] eqn:E; cbn; [eapply share_cmp; eauto|contradiction].
  - unfold q_next_timeout. cbn [negb]. destruct (q_ct q); cbn; [contradiction|].
    destruct (q_disq q); cbn; [destruct (negb (q_st q)); cbn; contradiction|].
    destruct (negb (q_st q)); cbn.
    + unfold set_shares_timeout. cbn [qset_st q_v]. destruct (v_vArecv (q_v q)); cbn; [|intros [E|[]]; discriminate E].
      destruct (v_xrecv (q_v q)); cbn; [contradiction|].
      destruct (build_complaint cf d (qset_st q true)) as [[q' ev]|] eqn:E; cbn; [eapply bc_cmp; eauto|contradiction].
    + unfold set_complaints_timeout. destruct (c_t cf <? ncompl cf (q_compl (qset_ct q true)))%nat; cbn;
        [intros [E|[]]; discriminate E|contradiction].
  - unfold q_force. cbn [negb]. destruct (in_range cf (Z.of_nat j)); cbn; [|contradiction].
    destruct (Nat.eqb (Z.to_nat (Z.of_nat j)) d); cbn; contradiction.
Qed.

Theorem istep_recv q x :
  own_recv q = false -> own_recv (fst (istep cf d q x)) = true -> In cmp (snd (istep cf d q x)).
Proof.
  unfold istep. destruct x as [o m|o m| |j]; cbn [call_of qual_step qs_run qs_q].
  - unfold q_broadcast. cbn [negb]. rewrite Nat2Z.id.
    destruct (in_range cf (Z.of_nat o)); cbn; [|congruence].
    destruct (Nat.eqb_spec (c_my cf) o) as [Ho|Ho]; cbn; [congruence|].
    destruct (q_disq q) eqn:Hq; cbn; [congruence|].
    destruct m as [|sb|vb|cb|ab|tg]; cbn;
      try (destruct (Nat.eqb o d); cbn; unfold own_recv; cbn; intros; congruence).
    + destruct (q_receive_vector cf d o vb q) as [[q' ev]|] eqn:E; cbn; [eapply vector_recv; eauto|congruence].
    + destruct (q_receive_complaint cf d o cb q) as [[q' ev]|] eqn:E; cbn; [eapply complaint_recv; eauto|congruence].
    + destruct (q_receive_answer cf d o ab q) as [[q' ev]|] eqn:E; cbn; [eapply answer_recv; eauto|congruence].
  - unfold q_private. cbn [negb]. rewrite Nat2Z.id.
    destruct (in_range cf (Z.of_nat o)); cbn; [|congruence].
    destruct (Nat.eqb (c_my cf) o); cbn; [congruence|].
    destruct (q_disq q); cbn; [congruence|].
    destruct (q_receive_share cf d o m q) as [[q' ev]|] eqn:E; cbn; [eapply share_recv; eauto|congruence].
  - unfold q_next_timeout. cbn [negb]. destruct (q_ct q); cbn; [congruence|].
    destruct (q_disq q); cbn; [destruct (negb (q_st q)); cbn; unfold own_recv; cbn; congruence|].
    destruct (negb (q_st q)); cbn.
    + unfold set_shares_timeout. cbn [qset_st q_v]. destruct (v_vArecv (q_v q)); cbn; [|unfold own_recv; cbn; congruence].
      destruct (v_xrecv (q_v q)); cbn; [unfold own_recv; cbn; congruence|].
      destruct (build_complaint cf d (qset_st q true)) as [[q' ev]|] eqn:E; cbn; [|congruence].
      intros H0 H1. apply (bc_recv _ _ _ E); [exact H0|left; exact H1].
    + unfold set_complaints_timeout. destruct (c_t cf <? ncompl cf (q_compl (qset_ct q true)))%nat; cbn; unfold own_recv; cbn; congruence.
  - unfold q_force. cbn [negb]. destruct (in_range cf (Z.of_nat j)); cbn; [|congruence].
    destruct (Nat.eqb (Z.to_nat (Z.of_nat j)) d); cbn; unfold own_recv; cbn; congruence.
Qed.

End Flag.
