(* C16: proofs of possession are sound and domain-separated. *)
From Coq Require Import ZArith NArith List Bool String Ring Lia.
From V Require Import Spec.Bilinear Generated.Guards Generated.Consts Model.BlsAbs Model.PopAbs Proofs.BlsProofs.
Import ListNotations.
Open Scope string_scope.

Lemma pop_go_skeleton :
  skel_bls_multisig_BLSVerifyPOP = [Guard ".(*pubKeyBLSBLS12381)"; Call ".Verify("; Call "Encode()"; Call "popKMAC"] /\
  skel_bls_multisig_BLSGeneratePOP = [Guard ".(*prKeyBLSBLS12381)"; Call ".Sign("; Call "Encode()"; Call "popKMAC"].
Proof. split; reflexivity. Qed.

Lemma return_counts_pop : (nret_bls_multisig_BLSVerifyPOP, nret_bls_multisig_BLSGeneratePOP) = (2, 2)%nat.
Proof. reflexivity. Qed.

(* string-level separation: no application tag makes the signature KMAC key equal to the PoP key *)
Theorem pop_key_never_a_sig_key : forall tag : list N, sig_key tag <> pop_key.
Proof.
  intros tag E. unfold sig_key, pop_key in E.
  assert (L : List.length (tag ++ crypto_blsSigCipherSuite)%list = List.length crypto_blsPOPCipherSuite) by (now rewrite E).
  rewrite app_length in L.
  assert (L0 : List.length tag = 0%nat).
  { change (List.length crypto_blsSigCipherSuite) with (List.length crypto_blsPOPCipherSuite) in L. lia. }
  destruct tag; [|discriminate]. cbn [app] in E. vm_compute in E. discriminate.
Qed.

Section Proofs.
Context {B : bilinear} {C : codecs}.
Add Ring FRing4 : Fring.
Variable H : list N -> list N -> E1.
Hypothesis H_in_G1 : forall k m, inG1 (H k m) = true.

Lemma good_is : HSize crypto_expandMsgOutput = good_hasher. Proof. reflexivity. Qed.

Theorem pop_iff sk b :
  verify_pop H (Some (public_key sk)) b = Some (VBool true) <->
  (sk <> f0 /\ b = enc1 (smul1 sk (H pop_key (enc2 (pk_of sk))))).
Proof.
  unfold verify_pop. rewrite good_is. cbn [public_key pk_point].
  split.
  - intro E. injection E as E. apply verify_iff_canonical_sig in E; [exact E|apply H_in_G1].
  - intro E. f_equal. apply verify_iff_canonical_sig; [apply H_in_G1|exact E].
Qed.

Corollary generated_pop_verifies sk : sk <> f0 ->
  exists p, generate_pop H (Some sk) = Some p /\ verify_pop H (Some (public_key sk)) p = Some (VBool true).
Proof.
  intro Hs. eexists. split; [reflexivity|]. apply pop_iff. split; [exact Hs|].
  unfold sign. rewrite good_is, check_good. reflexivity.
Qed.

Theorem pop_identity_key_rejected b :
  verify_pop H (Some (mk_pubkey O2)) b = Some (VBool false).
Proof. unfold verify_pop. rewrite good_is. f_equal. apply identity_pk_rejects_all. Qed.

Theorem pop_not_bls_key : forall b, verify_pop H None b = None /\ generate_pop H None = None.
Proof. intro b. split; reflexivity. Qed.

Lemma verify_pop_bool sk b : exists v, verify_pop H (Some (public_key sk)) b = Some (VBool v).
Proof.
  unfold verify_pop. rewrite good_is.
  destruct (verify_is_bool (public_key sk) b (H pop_key (enc2 (pk_point (public_key sk))))) as [v E].
  exists v. now rewrite E.
Qed.

(* ---- domain separation as reductions (no assumption): a cross-domain acceptance exhibits a
   non-trivial relation between the hash images of two DISTINCT framed inputs ---- *)

(* a signature under an application tag accepted as a proof of possession *)
Theorem sig_as_pop_gives_relation sk sk' tag msg :
  verify_pop H (Some (public_key sk)) (sign_tag H sk' tag msg) = Some (VBool true) ->
  sig_key tag <> pop_key /\
  smul1 sk' (H (sig_key tag) msg) = smul1 sk (H pop_key (enc2 (pk_of sk))).
Proof.
  intro E. split; [apply pop_key_never_a_sig_key|].
  apply pop_iff in E as [_ E].
  unfold sign_tag, sign in E. rewrite good_is, check_good in E. cbn [snd] in E.
  now apply enc1_inj in E.
Qed.

(* a proof of possession accepted as a signature under some tag, message and key *)
Theorem pop_as_sig_gives_relation sk sk' tag msg p :
  generate_pop H (Some sk) = Some p ->
  verify_tag H (public_key sk') p tag msg = VBool true ->
  sig_key tag <> pop_key /\
  smul1 sk (H pop_key (enc2 (pk_of sk))) = smul1 sk' (H (sig_key tag) msg).
Proof.
  intros Hp E. split; [apply pop_key_never_a_sig_key|].
  unfold generate_pop, sign in Hp. rewrite good_is, check_good in Hp.
  cbn [snd] in Hp. injection Hp as Hp. subst p.
  unfold verify_tag in E. rewrite good_is in E.
  apply verify_iff_canonical_sig in E as [_ E]; [|apply H_in_G1].
  now apply enc1_inj in E.
Qed.

(* a proof of possession accepted under another key *)
Theorem pop_other_key_gives_relation sk sk' p :
  generate_pop H (Some sk) = Some p ->
  verify_pop H (Some (public_key sk')) p = Some (VBool true) ->
  smul1 sk (H pop_key (enc2 (pk_of sk))) = smul1 sk' (H pop_key (enc2 (pk_of sk'))).
Proof.
  intros Hp E. unfold generate_pop, sign in Hp. rewrite good_is, check_good in Hp.
  cbn [snd] in Hp. injection Hp as Hp. subst p.
  apply pop_iff in E as [_ E]. now apply enc1_inj in E.
Qed.

(* ---- the same under the explicit random-oracle style assumption: multiples of hash images of
   distinct framed inputs never coincide ---- *)
Section Idealised.
Hypothesis hash_outputs_unrelated :
  forall k m k' m' (a a' : F), a <> f0 -> a' <> f0 ->
    smul1 a (H k m) = smul1 a' (H k' m') -> k = k' /\ m = m'.

Theorem sig_never_verifies_as_pop sk sk' tag msg :
  sk <> f0 -> sk' <> f0 ->
  verify_pop H (Some (public_key sk)) (sign_tag H sk' tag msg) = Some (VBool false).
Proof.
  intros Hs Hs'. destruct (verify_pop_bool sk (sign_tag H sk' tag msg)) as [[|] E]; [|exact E].
  exfalso. apply sig_as_pop_gives_relation in E as [K R].
  destruct (hash_outputs_unrelated _ _ _ _ _ _ Hs' Hs R) as [K' _]. contradiction.
Qed.

Theorem pop_never_verifies_as_sig sk sk' tag msg :
  sk <> f0 -> sk' <> f0 ->
  forall p, generate_pop H (Some sk) = Some p ->
  verify_tag H (public_key sk') p tag msg = VBool false.
Proof.
  intros Hs Hs' p Hp. unfold verify_tag. rewrite good_is.
  destruct (verify_is_bool (public_key sk') p (H (sig_key tag) msg)) as [[|] E]; [|exact E].
  exfalso. fold good_hasher in E. rewrite <- good_is in E.
  destruct (pop_as_sig_gives_relation sk sk' tag msg p Hp E) as [K R].
  destruct (hash_outputs_unrelated _ _ _ _ _ _ Hs Hs' R) as [K' _]. apply K. now symmetry.
Qed.

Theorem pop_other_key_rejected sk sk' :
  sk <> f0 -> sk' <> f0 -> enc2 (pk_of sk) <> enc2 (pk_of sk') ->
  forall p, generate_pop H (Some sk) = Some p ->
  verify_pop H (Some (public_key sk')) p = Some (VBool false).
Proof.
  intros Hs Hs' Hne p Hp.
  destruct (verify_pop_bool sk' p) as [[|] E]; [|exact E].
  exfalso. pose proof (pop_other_key_gives_relation sk sk' p Hp E) as R.
  destruct (hash_outputs_unrelated _ _ _ _ _ _ Hs Hs' R) as [_ K]. contradiction.
Qed.
End Idealised.
End Proofs.
