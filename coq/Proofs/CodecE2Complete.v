(* C05, G2 side, round-trip direction (Z instance): completeness of the F_p^2 square root that
   E2_read_bytes uses, and decode (encode P) = P for every affine point of E2 with reduced coordinates.
   Ingredients, all for the prime p = 3 mod 4 (primality is an explicit hypothesis, [primeZ]):
   - Euler's criterion facts: a^((p-1)/2) is 1 or -1 for a <> 0; squares give 1; (-a)^((p-1)/2) =
     -(a^((p-1)/2)) because (p-1)/2 is odd; so -1 is a non-residue and u^2 + v^2 = 0 forces u = v = 0
     (x^2 + 1 is irreducible, the norm of F_p^2 = F_p[u]/(u^2+1) has trivial kernel);
   - F_p^2 has no zero divisors: c^2 = y^2 implies c = y or c = -y (through the norm);
   - the "complex method" of [f2sqrt] finds a root of every square. *)
From Coq Require Import ZArith NArith List Bool Lia Zdiv Zpow_facts Morphisms Setoid.
From V Require Import Lib.Num Lib.ListX Lib.FermatZ Prim.Bls12 Model.BlsCodec Proofs.ModArith
  Proofs.BytesZ Proofs.CodecProofs Proofs.CodecE2Proofs.
Import ListNotations.
Open Scope Z_scope.

Local Notation f2m := (f2mul ZNum pZ).
Local Notation f2n := (f2neg ZNum pZ).

(* helper lemmas live in a module so that their short names (shared with Proofs/MapToG1Proofs.v)
   are not exported to importers of this file *)
Module E2Aux.

Lemma pZ_gt1 : 1 < pZ. Proof. pose proof pZ_gt. lia. Qed.

(* ---- congruence modulo p as a setoid ---- *)
#[local] Instance eqm_p_equiv : Equivalence (eqm pZ) := eqm_setoid pZ.
#[local] Instance eqm_p_add : Proper (eqm pZ ==> eqm pZ ==> eqm pZ) Z.add := Zplus_eqm pZ.
#[local] Instance eqm_p_mul : Proper (eqm pZ ==> eqm pZ ==> eqm pZ) Z.mul := Zmult_eqm pZ.
#[local] Instance eqm_p_sub : Proper (eqm pZ ==> eqm pZ ==> eqm pZ) Z.sub := Zminus_eqm pZ.
#[local] Instance eqm_p_opp : Proper (eqm pZ ==> eqm pZ) Z.opp := Zopp_eqm pZ.
Local Notation "a == b" := (eqm pZ a b) (at level 70).

Lemma eq_eqm a b : a = b -> a == b. Proof. intros ->. reflexivity. Qed.
Lemma mod_eqm a : a mod pZ == a. Proof. apply (Zmod_eqm pZ). Qed.
Lemma fmul_eqm a b : fmul ZNum pZ a b == a * b. Proof. apply (Zmod_eqm pZ). Qed.
Lemma fadd_eqm a b : fadd ZNum pZ a b == a + b. Proof. apply (Zmod_eqm pZ). Qed.
Lemma fsub_eqm a b : fsub ZNum pZ a b == a - b. Proof. apply (Zmod_eqm pZ). Qed.
Lemma fneg_eqm a : fneg ZNum pZ a == - a.
Proof.
  pose proof pZ_gt1. rewrite fneg_Z. rewrite mod_eqm.
  unfold eqm. replace (pZ - a) with (- a + 1 * pZ) by ring. apply Z.mod_add. lia.
Qed.
Lemma eqm_small a b : inF a -> inF b -> a == b -> a = b.
Proof. unfold inF, eqm. intros Ha Hb H. rewrite !Z.mod_small in H by lia. exact H. Qed.
Lemma eqm0_iff a : a == 0 <-> a mod pZ = 0.
Proof. pose proof pZ_gt1. unfold eqm. rewrite Z.mod_0_l by lia. reflexivity. Qed.
Lemma eqm_sub0 a b : a - b == 0 <-> a == b.
Proof.
  split; intro H.
  - replace a with ((a - b) + b) by ring. rewrite H. apply eq_eqm. ring.
  - rewrite H. apply eq_eqm. ring.
Qed.
Lemma pow_eqm a b e : a == b -> a ^ e == b ^ e.
Proof.
  unfold eqm. intro H. pose proof pZ_gt1.
  rewrite (Zpower_mod a), (Zpower_mod b) by lia. rewrite H. reflexivity.
Qed.
Lemma fpow_eqm a e : 0 < e -> fpow ZNum pZ a e == a ^ e.
Proof.
  intro He. destruct e as [|e|e]; try lia. unfold fpow, mpow. apply (mpow_pos_Z pZ pZ_gt1).
Qed.
Lemma fpow_in a e : inF a -> inF (fpow ZNum pZ a e).
Proof.
  intro Ha. pose proof pZ_gt1. unfold fpow, mpow, inF.
  destruct e; [apply Z.mod_pos_bound; lia | apply (mpow_pos_range pZ pZ_gt1); exact Ha | apply Z.mod_pos_bound; lia].
Qed.
Lemma one_ne_mone : ~ 1 == -1.
Proof.
  pose proof pZ_gt. unfold eqm. rewrite Z.mod_small by lia.
  replace (-1) with (pZ - 1 + (-1) * pZ) by ring. rewrite Z.mod_add by lia.
  rewrite Z.mod_small by lia. lia.
Qed.
Lemma two_nz : ~ 2 == 0.
Proof. pose proof pZ_gt. unfold eqm. rewrite Z.mod_small by lia. rewrite Z.mod_0_l by lia. lia. Qed.
Lemma eqm_opp_swap a b : a == - b -> - a == b.
Proof. intro H. rewrite H. apply eq_eqm. ring. Qed.

(* ---- the two exponents: (p-1)/2 (Euler) and (p+1)/4 (square root) ---- *)
Definition hh := (pZ - 1) / 2.
Definition ee := (pZ + 1) / 4.
Lemma hh_ee : exists q, 0 <= q /\ pZ = 4 * q + 3 /\ hh = 2 * q + 1 /\ ee = q + 1.
Proof.
  pose proof pZ_3mod4 as H4. pose proof pZ_gt as Hp. unfold hh, ee. exists (pZ / 4).
  pose proof (Z.div_mod pZ 4 ltac:(lia)) as D. rewrite H4 in D.
  split; [apply Z.div_pos; lia|]. split; [exact D|]. split.
  - replace (pZ - 1) with ((2 * (pZ / 4) + 1) * 2) by lia. apply Z.div_mul. lia.
  - replace (pZ + 1) with ((pZ / 4 + 1) * 4) by lia. apply Z.div_mul. lia.
Qed.
Lemma hh_pos : 0 < hh. Proof. destruct hh_ee as (q & ? & ? & ? & ?). lia. Qed.
Lemma ee_pos : 0 < ee. Proof. destruct hh_ee as (q & ? & ? & ? & ?). lia. Qed.
Lemma hh_double : hh + hh = pZ - 1. Proof. destruct hh_ee as (q & ? & ? & ? & ?). lia. Qed.
Lemma ee_double : ee + ee = hh + 1. Proof. destruct hh_ee as (q & ? & ? & ? & ?). lia. Qed.
Lemma pow_neg_hh a : (- a) ^ hh = - (a ^ hh).
Proof. destruct hh_ee as (q & Hq & _ & Hh & _). apply Z.pow_opp_odd. exists q. exact Hh. Qed.

Lemma f2eqb_refl a : f2eqb ZNum a a = true.
Proof. destruct a. unfold f2eqb, feqb. cbn [fst snd n_eqb ZNum]. rewrite !Z.eqb_refl. reflexivity. Qed.

(* c^2 = a in F_p^2, from the two coordinate congruences *)
Lemma f2mul_eq c0 c1 a0 a1 : inF a0 -> inF a1 ->
  c0 * c0 - c1 * c1 == a0 -> c0 * c1 + c1 * c0 == a1 -> f2m (c0, c1) (c0, c1) = (a0, a1).
Proof.
  intros H0 H1 E0 E1. pose proof pZ_gt1 as Hp. rewrite f2mul_Z. cbn [fst snd]. f_equal.
  - apply eqm_small; [unfold inF; apply Z.mod_pos_bound; lia|exact H0|].
    rewrite !mod_eqm. exact E0.
  - apply eqm_small; [unfold inF; apply Z.mod_pos_bound; lia|exact H1|].
    rewrite !mod_eqm. exact E1.
Qed.
Lemma f2mul_eqm y0 y1 a0 a1 : f2m (y0, y1) (y0, y1) = (a0, a1) ->
  a0 == y0 * y0 - y1 * y1 /\ a1 == y0 * y1 + y1 * y0.
Proof.
  rewrite f2mul_Z. cbn [fst snd]. intro H. injection H as <- <-.
  split; rewrite !mod_eqm; reflexivity.
Qed.

(* the candidate of f2sqrt before the final check *)
Definition f2cand (a : Z * Z) : option (Z * Z) :=
  let a0 := fst a in let a1 := snd a in
  if a1 =? 0 then
    match fsqrt ZNum pZ a0 with
    | Some s => Some (s, 0)
    | None => match fsqrt ZNum pZ (fneg ZNum pZ a0) with Some s => Some (0, s) | None => None end
    end
  else
    match fsqrt ZNum pZ (fadd ZNum pZ (fmul ZNum pZ a0 a0) (fmul ZNum pZ a1 a1)) with
    | None => None
    | Some s =>
        let t1 := fmul ZNum pZ (fadd ZNum pZ a0 s) (finv ZNum pZ 2) in
        let t := if fis_sq ZNum pZ t1 then t1 else fmul ZNum pZ (fsub ZNum pZ a0 s) (finv ZNum pZ 2) in
        match fsqrt ZNum pZ t with
        | None => None
        | Some x0 => Some (x0, fmul ZNum pZ a1 (finv ZNum pZ (fadd ZNum pZ x0 x0)))
        end
    end.
Lemma f2sqrt_cand a :
  f2sqrt ZNum pZ a =
    match f2cand a with
    | Some c => if f2eqb ZNum (f2m c c) a then Some c else None
    | None => None
    end.
Proof. reflexivity. Qed.

Section Complete.
Hypothesis Hpr : primeZ pZ.

(* Euclid's lemma for arbitrary integers *)
Lemma eqm_mul_zero a b : a * b == 0 -> a == 0 \/ b == 0.
Proof.
  pose proof pZ_gt1 as Hp.
  intro H. rewrite !eqm0_iff in *. rewrite Zmult_mod in H.
  destruct (euclid_Z pZ (a mod pZ) (b mod pZ) Hpr) as [Q|Q]; try (apply Z.mod_pos_bound; lia).
  - exact H.
  - left. rewrite Z.mod_mod in Q by lia. exact Q.
  - right. rewrite Z.mod_mod in Q by lia. exact Q.
Qed.
Lemma eqm_cancel c a b : ~ c == 0 -> c * a == c * b -> a == b.
Proof.
  intros Hc H. apply eqm_sub0.
  destruct (eqm_mul_zero c (a - b)) as [Q|Q]; [|contradiction|exact Q].
  replace (c * (a - b)) with (c * a - c * b) by ring. apply eqm_sub0. exact H.
Qed.
Lemma eqm_sq_one w : w * w == 1 -> w == 1 \/ w == - 1.
Proof.
  intro H. destruct (eqm_mul_zero (w - 1) (w + 1)) as [Q|Q].
  - replace ((w - 1) * (w + 1)) with (w * w - 1) by ring. apply eqm_sub0. exact H.
  - left. apply eqm_sub0. exact Q.
  - right. apply eqm_sub0. replace (w - - 1) with (w + 1) by ring. exact Q.
Qed.
Lemma eqm_mul_nz a b : ~ a == 0 -> ~ b == 0 -> ~ a * b == 0.
Proof. intros Ha Hb H. destruct (eqm_mul_zero a b H); contradiction. Qed.

(* Fermat *)
Lemma fermat_eqm a : ~ a == 0 -> a ^ (pZ - 1) == 1.
Proof.
  intro Ha. pose proof pZ_gt1 as H1.
  transitivity ((a mod pZ) ^ (pZ - 1)). { apply pow_eqm. symmetry. apply mod_eqm. }
  unfold eqm. rewrite (fermat_unit pZ H1 Hpr (a mod pZ)).
  - symmetry. apply Z.mod_small. lia.
  - apply Z.mod_pos_bound. lia.
  - rewrite Z.mod_mod by lia. rewrite <- eqm0_iff. exact Ha.
Qed.

(* Euler's criterion, the easy halves *)
Lemma euler_pm a : ~ a == 0 -> a ^ hh == 1 \/ a ^ hh == -1.
Proof.
  intro Ha. pose proof hh_pos. apply eqm_sq_one. rewrite <- Z.pow_add_r by lia.
  rewrite hh_double. apply fermat_eqm. exact Ha.
Qed.
Lemma sq_pow_hh w : ~ w == 0 -> (w * w) ^ hh == 1.
Proof.
  intro Hw. pose proof hh_pos. rewrite Z.pow_mul_l. rewrite <- Z.pow_add_r by lia.
  rewrite hh_double. apply fermat_eqm. exact Hw.
Qed.
(* a non-residue's negative is a residue *)
Lemma euler_neg a : ~ a == 0 -> ~ a ^ hh == 1 -> (- a) ^ hh == 1.
Proof.
  intros Ha Hn. rewrite pow_neg_hh. destruct (euler_pm a Ha) as [Q|Q]; [contradiction|].
  rewrite Q. apply eq_eqm. ring.
Qed.

(* -1 is not a square: the norm form u^2 + v^2 is anisotropic *)
Lemma sum_sq_zero u v : u * u + v * v == 0 -> u == 0 /\ v == 0.
Proof.
  intro H.
  assert (Huv : u * u == - (v * v)).
  { apply eqm_sub0. replace (u * u - - (v * v)) with (u * u + v * v) by ring. exact H. }
  assert (D : v == 0 \/ ~ v == 0).
  { unfold eqm. destruct (Z.eq_dec (v mod pZ) (0 mod pZ)); [left|right]; assumption. }
  destruct D as [Hv|Hv].
  - split; [|exact Hv].
    assert (Q : u * u == 0). { rewrite Huv, Hv. apply eq_eqm. ring. }
    destruct (eqm_mul_zero u u Q); assumption.
  - exfalso.
    assert (Hu : ~ u == 0).
    { intro Hu. apply Hv.
      assert (Q : v * v == 0). { apply eqm_opp_swap in Huv. rewrite <- Huv, Hu. apply eq_eqm. ring. }
      destruct (eqm_mul_zero v v Q); assumption. }
    apply one_ne_mone.
    rewrite <- (sq_pow_hh u Hu). rewrite (pow_eqm _ _ hh Huv). rewrite pow_neg_hh.
    rewrite (sq_pow_hh v Hv). reflexivity.
Qed.

(* ---- F_p^2 has no zero divisors: the two roots of a square ---- *)
Lemma f2_sq_eq c y : inF2 c -> inF2 y -> f2m c c = f2m y y -> c = y \/ c = f2n y.
Proof.
  destruct c as [c0 c1], y as [y0 y1]. intros [Hc0 Hc1] [Hy0 Hy1] H. cbn [fst snd] in *.
  destruct (f2m (y0, y1) (y0, y1)) as [a0 a1] eqn:Ey.
  apply f2mul_eqm in H as [Hc_0 Hc_1]. apply f2mul_eqm in Ey as [Hy_0 Hy_1].
  set (d0 := c0 - y0). set (d1 := c1 - y1). set (s0 := c0 + y0). set (s1 := c1 + y1).
  assert (P0 : d0 * s0 - d1 * s1 == 0).
  { transitivity ((c0 * c0 - c1 * c1) - (y0 * y0 - y1 * y1)); [apply eq_eqm; unfold d0, d1, s0, s1; ring|].
    rewrite <- Hc_0, <- Hy_0. apply eq_eqm. ring. }
  assert (P1 : d0 * s1 + d1 * s0 == 0).
  { transitivity ((c0 * c1 + c1 * c0) - (y0 * y1 + y1 * y0)); [apply eq_eqm; unfold d0, d1, s0, s1; ring|].
    rewrite <- Hc_1, <- Hy_1. apply eq_eqm. ring. }
  assert (N : (d0 * d0 + d1 * d1) * (s0 * s0 + s1 * s1) == 0).
  { transitivity ((d0 * s0 - d1 * s1) * (d0 * s0 - d1 * s1) + (d0 * s1 + d1 * s0) * (d0 * s1 + d1 * s0));
      [apply eq_eqm; ring|]. rewrite P0, P1. apply eq_eqm. ring. }
  destruct (eqm_mul_zero _ _ N) as [Q|Q]; apply sum_sq_zero in Q as [Q0 Q1].
  - left. apply (proj1 (eqm_sub0 c0 y0)) in Q0. apply (proj1 (eqm_sub0 c1 y1)) in Q1.
    f_equal; apply eqm_small; assumption.
  - right. rewrite f2neg_Z. cbn [fst snd].
    change ((pZ - y0) mod pZ) with (fneg ZNum pZ y0). change ((pZ - y1) mod pZ) with (fneg ZNum pZ y1).
    f_equal; (apply eqm_small; [assumption|apply fneg_in|]); rewrite fneg_eqm; apply eqm_sub0.
    + replace (c0 - - y0) with s0 by (unfold s0; ring). exact Q0.
    + replace (c1 - - y1) with s1 by (unfold s1; ring). exact Q1.
Qed.

(* ---- the F_p square root succeeds on residues and on zero ---- *)
Lemma fsqrt_euler a : inF a -> (a == 0 \/ a ^ hh == 1) ->
  exists s, fsqrt ZNum pZ a = Some s /\ inF s /\ s * s == a.
Proof.
  intros Ha Hres. pose proof ee_pos as He. pose proof hh_pos as Hh.
  set (s := fpow ZNum pZ a ee).
  assert (Hs : inF s) by (apply fpow_in; exact Ha).
  assert (Hss : s * s == a).
  { unfold s. rewrite (fpow_eqm a ee He). rewrite <- Z.pow_add_r by lia. rewrite ee_double.
    rewrite Z.pow_add_r by lia. rewrite Z.pow_1_r.
    destruct Hres as [Q|Q].
    - transitivity (a ^ hh * 0); [apply eqm_p_mul; [reflexivity|exact Q]|].
      rewrite Z.mul_0_r. symmetry. exact Q.
    - rewrite Q. apply eq_eqm. ring. }
  exists s. split; [|split; assumption].
  unfold fsqrt. fold ee. fold s. unfold feqb. cbn [n_eqb ZNum].
  assert (E : fmul ZNum pZ s s = a).
  { apply eqm_small; [apply fmul_in|exact Ha|]. rewrite fmul_eqm. exact Hss. }
  rewrite E, Z.eqb_refl. reflexivity.
Qed.
Lemma fsqrt_of_square a w : inF a -> a == w * w ->
  exists s, fsqrt ZNum pZ a = Some s /\ inF s /\ s * s == a.
Proof.
  intros Ha Hw. apply fsqrt_euler; [exact Ha|].
  assert (D : w == 0 \/ ~ w == 0).
  { unfold eqm. destruct (Z.eq_dec (w mod pZ) (0 mod pZ)); [left|right]; assumption. }
  destruct D as [Q|Q].
  - left. rewrite Hw, Q. apply eq_eqm. ring.
  - right. rewrite (pow_eqm _ _ hh Hw). apply sq_pow_hh. exact Q.
Qed.
Lemma fsqrt_none a : inF a -> fsqrt ZNum pZ a = None -> ~ a == 0 /\ ~ a ^ hh == 1.
Proof.
  intros Ha Hn. split; intro Q.
  - destruct (fsqrt_euler a Ha (or_introl Q)) as (s & Es & _). congruence.
  - destruct (fsqrt_euler a Ha (or_intror Q)) as (s & Es & _). congruence.
Qed.

(* ---- the residue test ---- *)
Lemma fis_sq_true t : inF t -> fis_sq ZNum pZ t = true -> t = 0 \/ t ^ hh == 1.
Proof.
  intros Ht. unfold fis_sq, feqb. cbn [n_eqb n_of_Z ZNum]. fold hh. intro H.
  apply orb_prop in H as [H|H]; apply Z.eqb_eq in H; [left; exact H|right].
  rewrite <- (fpow_eqm t hh hh_pos). rewrite H. reflexivity.
Qed.
Lemma fis_sq_false t : inF t -> fis_sq ZNum pZ t = false -> ~ t ^ hh == 1.
Proof.
  intros Ht. unfold fis_sq, feqb. cbn [n_eqb n_of_Z ZNum]. fold hh. intros H Q.
  apply orb_false_elim in H as [_ H]. apply Z.eqb_neq in H. apply H.
  apply eqm_small; [apply fpow_in; exact Ht|pose proof pZ_gt; unfold inF; lia|].
  rewrite (fpow_eqm t hh hh_pos). exact Q.
Qed.

(* ---- the Fermat inverse ---- *)
Lemma finv_eqm a : ~ a == 0 -> a * finv ZNum pZ a == 1.
Proof.
  intro Ha. pose proof pZ_gt as Hp. unfold finv. rewrite fpow_eqm by lia.
  transitivity (a ^ (pZ - 1)); [|apply fermat_eqm; exact Ha].
  apply eq_eqm. replace (pZ - 1) with (1 + (pZ - 2)) by ring. rewrite Z.pow_add_r by lia.
  rewrite Z.pow_1_r. reflexivity.
Qed.

(* ---- case a1 = 0: every element of F_p has a root in F_p^2 ---- *)
Lemma f2cand_real a0 : inF a0 -> exists c, f2cand (a0, 0) = Some c /\ f2m c c = (a0, 0).
Proof.
  intro H0. unfold f2cand. cbn [fst snd]. change (0 =? 0) with true. cbv iota.
  destruct (fsqrt ZNum pZ a0) as [s|] eqn:E1.
  - exists (s, 0). split; [reflexivity|].
    destruct (fsqrt_Z a0 s E1 H0) as [Hs Hss].
    apply f2mul_eq; [exact H0|exact zero_in| |apply eq_eqm; ring].
    transitivity (s * s); [apply eq_eqm; ring|]. rewrite <- Hss. symmetry. apply mod_eqm.
  - destruct (fsqrt_none a0 H0 E1) as [Hnz Hnr].
    assert (R : fneg ZNum pZ a0 ^ hh == 1).
    { rewrite (pow_eqm _ _ hh (fneg_eqm a0)). apply euler_neg; assumption. }
    destruct (fsqrt_euler _ (fneg_in a0) (or_intror R)) as (s & Es & Hs & Hss). rewrite Es.
    exists (0, s). split; [reflexivity|].
    apply f2mul_eq; [exact H0|exact zero_in| |apply eq_eqm; ring].
    transitivity (- (s * s)); [apply eq_eqm; ring|]. rewrite Hss, fneg_eqm. apply eq_eqm. ring.
Qed.

(* ---- case a1 <> 0, last step: t a non-zero residue with 4t^2 - 4 a0 t = a1^2 ---- *)
Lemma f2cand_tail a0 a1 t : inF a0 -> inF a1 -> inF t -> ~ t == 0 -> t ^ hh == 1 ->
  4 * t * t - 4 * a0 * t == a1 * a1 ->
  exists c,
    match fsqrt ZNum pZ t with
    | None => None
    | Some x0 => Some (x0, fmul ZNum pZ a1 (finv ZNum pZ (fadd ZNum pZ x0 x0)))
    end = Some c /\ f2m c c = (a0, a1).
Proof.
  intros H0 H1 Ht Htnz Htr Hq.
  destruct (fsqrt_euler t Ht (or_intror Htr)) as (x0 & Es & Hx0 & Hxx). rewrite Es.
  set (d := fadd ZNum pZ x0 x0). set (x1 := fmul ZNum pZ a1 (finv ZNum pZ d)).
  exists (x0, x1). split; [reflexivity|].
  assert (Hx0nz : ~ x0 == 0).
  { intro Q. apply Htnz. rewrite <- Hxx, Q. apply eq_eqm. ring. }
  assert (Hd : d == 2 * x0). { unfold d. rewrite fadd_eqm. apply eq_eqm. ring. }
  assert (Hdnz : ~ d == 0). { rewrite Hd. apply eqm_mul_nz; [exact two_nz|exact Hx0nz]. }
  pose proof (finv_eqm d Hdnz) as Hinv.
  assert (K : 2 * x0 * x1 == a1).
  { unfold x1. rewrite fmul_eqm, <- Hd.
    transitivity (a1 * (d * finv ZNum pZ d)); [apply eq_eqm; ring|]. rewrite Hinv. apply eq_eqm. ring. }
  apply f2mul_eq; [exact H0|exact H1| |].
  - apply (eqm_cancel (4 * (x0 * x0))).
    + apply eqm_mul_nz; [|apply eqm_mul_nz; exact Hx0nz].
      replace 4 with (2 * 2) by reflexivity. apply eqm_mul_nz; exact two_nz.
    + rewrite <- Hxx in Hq. rewrite <- K in Hq. apply eqm_sub0. apply eqm_sub0 in Hq.
      rewrite <- Hq. apply eq_eqm. ring.
  - rewrite <- K. apply eq_eqm. ring.
Qed.

(* ---- case a1 <> 0: the norm a0^2 + a1^2 is a square ---- *)
Lemma f2cand_nonreal a0 a1 w : inF a0 -> inF a1 -> a1 <> 0 -> a0 * a0 + a1 * a1 == w * w ->
  exists c, f2cand (a0, a1) = Some c /\ f2m c c = (a0, a1).
Proof.
  intros H0 H1 Hnz Hn. unfold f2cand. cbn [fst snd]. rewrite (proj2 (Z.eqb_neq a1 0) Hnz).
  set (n := fadd ZNum pZ (fmul ZNum pZ a0 a0) (fmul ZNum pZ a1 a1)).
  assert (Hn0 : n == a0 * a0 + a1 * a1). { unfold n. rewrite fadd_eqm, !fmul_eqm. reflexivity. }
  assert (Hnw : n == w * w). { rewrite Hn0. exact Hn. }
  destruct (fsqrt_of_square n w (fadd_in _ _) Hnw) as (s & Es & Hs & Hss). rewrite Es. cbv zeta.
  set (half := finv ZNum pZ 2).
  assert (Hhalf : 2 * half == 1) by (apply finv_eqm, two_nz).
  set (t1 := fmul ZNum pZ (fadd ZNum pZ a0 s) half).
  set (t2 := fmul ZNum pZ (fsub ZNum pZ a0 s) half).
  assert (E1 : 2 * t1 == a0 + s).
  { unfold t1. rewrite fmul_eqm, fadd_eqm.
    transitivity ((a0 + s) * (2 * half)); [apply eq_eqm; ring|]. rewrite Hhalf. apply eq_eqm. ring. }
  assert (E2 : 2 * t2 == a0 - s).
  { unfold t2. rewrite fmul_eqm, fsub_eqm.
    transitivity ((a0 - s) * (2 * half)); [apply eq_eqm; ring|]. rewrite Hhalf. apply eq_eqm. ring. }
  assert (A1nz : ~ a1 == 0).
  { intro Q. apply Hnz. apply eqm_small; [exact H1|exact zero_in|exact Q]. }
  (* t1 t2 = -(a1/2)^2, in the form (2 t1)(2 t2) = -(a1^2) *)
  assert (P : (2 * t1) * (2 * t2) == - (a1 * a1)).
  { rewrite E1, E2. transitivity (a0 * a0 - s * s); [apply eq_eqm; ring|].
    rewrite Hss, Hn0. apply eq_eqm. ring. }
  assert (T1nz : ~ t1 == 0).
  { intro Q. apply (eqm_mul_nz a1 a1 A1nz A1nz). apply eqm_opp_swap in P. rewrite <- P, Q. apply eq_eqm. ring. }
  assert (T2nz : ~ t2 == 0).
  { intro Q. apply (eqm_mul_nz a1 a1 A1nz A1nz). apply eqm_opp_swap in P. rewrite <- P, Q. apply eq_eqm. ring. }
  (* the Legendre symbols of t1 and t2 are opposite *)
  assert (L : t1 ^ hh * t2 ^ hh == - 1).
  { transitivity ((2 * 2) ^ hh * (t1 ^ hh * t2 ^ hh)).
    { rewrite (sq_pow_hh 2 two_nz). apply eq_eqm. ring. }
    transitivity ((2 * t1 * (2 * t2)) ^ hh).
    { apply eq_eqm. rewrite <- !Z.pow_mul_l. f_equal. ring. }
    rewrite (pow_eqm _ _ hh P). rewrite pow_neg_hh. rewrite (sq_pow_hh a1 A1nz). reflexivity. }
  assert (Q1 : forall t, 2 * t == a0 + s \/ 2 * t == a0 - s -> 4 * t * t - 4 * a0 * t == a1 * a1).
  { intros t Et.
    assert (Q : (2 * t - a0) * (2 * t - a0) == s * s).
    { destruct Et as [Et|Et]; rewrite Et; apply eq_eqm; ring. }
    transitivity ((2 * t - a0) * (2 * t - a0) - a0 * a0); [apply eq_eqm; ring|].
    rewrite Q, Hss, Hn0. apply eq_eqm. ring. }
  destruct (fis_sq ZNum pZ t1) eqn:Ef.
  - apply (f2cand_tail a0 a1 t1 H0 H1 (fmul_in _ _) T1nz).
    + destruct (fis_sq_true t1 (fmul_in _ _) Ef) as [Z0|R]; [|exact R].
      exfalso. apply T1nz. rewrite Z0. reflexivity.
    + apply Q1. left. exact E1.
  - apply (f2cand_tail a0 a1 t2 H0 H1 (fmul_in _ _) T2nz).
    + pose proof (fis_sq_false t1 (fmul_in _ _) Ef) as Nr.
      destruct (euler_pm t1 T1nz) as [R|R]; [contradiction|].
      rewrite R in L. transitivity (- (-1 * t2 ^ hh)); [apply eq_eqm; ring|].
      rewrite L. apply eq_eqm. reflexivity.
    + apply Q1. right. exact E2.
Qed.

(* ---- completeness of the square root of F_p^2 ---- *)
Theorem f2sqrt_complete_pr : forall y, inF2 y ->
  exists c, f2sqrt ZNum pZ (f2m y y) = Some c /\ (c = y \/ c = f2n y).
Proof.
  intros [y0 y1] Hy.
  destruct (f2m (y0, y1) (y0, y1)) as [a0 a1] eqn:Ea.
  assert (Ha : inF2 (a0, a1)) by (rewrite <- Ea; apply f2mul_in).
  destruct Ha as [Ha0 Ha1]. cbn [fst snd] in Ha0, Ha1.
  destruct (f2mul_eqm _ _ _ _ Ea) as [A0 A1].
  assert (C : exists c, f2cand (a0, a1) = Some c /\ f2m c c = (a0, a1)).
  { destruct (Z.eq_dec a1 0) as [->|Hnz].
    - apply f2cand_real. exact Ha0.
    - apply (f2cand_nonreal a0 a1 (y0 * y0 + y1 * y1) Ha0 Ha1 Hnz).
      rewrite A0, A1. apply eq_eqm. ring. }
  destruct C as (c & Ec & Hcc). exists c.
  assert (Es : f2sqrt ZNum pZ (a0, a1) = Some c).
  { rewrite f2sqrt_cand, Ec, Hcc, f2eqb_refl. reflexivity. }
  split; [exact Es|].
  destruct (f2sqrt_sound (a0, a1) c (conj Ha0 Ha1) Es) as [Hc _].
  apply f2_sq_eq; [exact Hc|exact Hy|]. rewrite Hcc, Ea. reflexivity.
Qed.
End Complete.


(* ------------------------------------------------------------------ E2 round trip
   every affine point of E2 with reduced coordinates encodes to bytes that decode back to it *)
Lemma firstn_app_len {A} (l1 l2 : list A) : firstn (length l1) (l1 ++ l2) = l1.
Proof. induction l1 as [|a l IH]; [reflexivity|]. cbn [length app firstn]. now rewrite IH. Qed.
Lemma skipn_app_len {A} (l1 l2 : list A) : skipn (length l1) (l1 ++ l2) = l2.
Proof. induction l1 as [|a l IH]; [reflexivity|]. cbn [length app skipn]. exact IH. Qed.

(* the first byte of the 48-byte big-endian form of x < p < 2^381 has its top three bits clear *)
Lemma i2Z_hd_small x : inF x -> exists h0 t, i2Z 48 x = h0 :: t /\ (h0 < 32)%N.
Proof.
  intro Hx. unfold inF in Hx. pose proof pZ_lt as Hp.
  assert (Hlen : length (i2Z 48 x) = 48%nat) by apply i2Z_length.
  assert (Hwf : wf (i2Z 48 x)) by apply i2Z_wf.
  assert (Hval : osZ (i2Z 48 x) = x) by (apply osZ_i2Z; change (Z.of_nat 48) with 48; lia).
  destruct (i2Z 48 x) as [|h0 t] eqn:Ei; [discriminate|]. exists h0, t. split; [reflexivity|].
  assert (Ht : wf t) by (inversion Hwf; assumption).
  assert (B : osZ (h0 :: t) < 2 ^ 381) by (rewrite Hval; assert (pZ < 2 ^ 381) by (vm_compute; reflexivity); lia).
  change (h0 :: t) with ([h0] ++ t) in B. unfold osZ, os2ip in B. rewrite fold_left_app in B.
  cbn [fold_left n_add n_mul n_of_Z ZNum] in B.
  assert (G : forall l a, wf l -> a * 256 ^ Z.of_nat (length l) <= fold_left (fun acc x0 => acc * 256 + Z.of_N x0) l a).
  { induction l as [|q l IH]; intros a0 W; [cbn; lia|]. inversion W; subst. cbn [fold_left length].
    specialize (IH (a0 * 256 + Z.of_N q) ltac:(assumption)).
    replace (Z.of_nat (S (length l))) with (Z.succ (Z.of_nat (length l))) by lia.
    rewrite Z.pow_succ_r by lia. assert (0 < 256 ^ Z.of_nat (length l)) by (apply Z.pow_pos_nonneg; lia). nia. }
  specialize (G t (0 * 256 + Z.of_N h0) Ht). cbn [length] in Hlen. injection Hlen as Hl. rewrite Hl in G.
  change (Z.of_nat 47) with 47 in G. assert (Z.of_N h0 * 256 ^ 47 < 2 ^ 381) by lia.
  assert (E381 : 2 ^ 381 = 32 * 256 ^ 47) by (vm_compute; reflexivity). rewrite E381 in H.
  assert (0 < 256 ^ 47) by (vm_compute; reflexivity). nia.
Qed.

(* header byte: compression bit set, infinity bit clear, sign bit as given, low five bits kept *)
Lemma hdr_bits h0 (s : bool) : (h0 < 32)%N ->
  (N.shiftr (N.lor (N.lor h0 (if s then 32 else 0)) 128) 7 =? 1)%N = true /\
  (N.land (N.lor (N.lor h0 (if s then 32 else 0)) 128) 64 =? 0)%N = true /\
  N.land (N.lor (N.lor h0 (if s then 32 else 0)) 128) 31 = h0 /\
  (N.land (N.shiftr (N.lor (N.lor h0 (if s then 32 else 0)) 128) 5) 1 =? 1)%N = s.
Proof.
  intro Hh032.
  assert (Q : forall b : bool, forallb (fun v => let hh := N.lor (N.lor v (if b then 32 else 0)) 128 in
            (N.shiftr hh 7 =? 1)%N && (N.land hh 64 =? 0)%N && (N.land hh 31 =? v)%N &&
            Bool.eqb (N.land (N.shiftr hh 5) 1 =? 1)%N b) (map N.of_nat (seq 0 32)) = true)
    by (intros [|]; vm_compute; reflexivity).
  specialize (Q s). rewrite forallb_forall in Q.
  assert (I : In h0 (map N.of_nat (seq 0 32))).
  { apply in_map_iff. exists (N.to_nat h0). split; [apply N2Nat.id|apply in_seq; lia]. }
  specialize (Q h0 I). cbv zeta in Q. repeat (apply andb_prop in Q as [Q ?]).
  repeat split; try assumption.
  - now apply N.eqb_eq.
  - now apply eqb_prop.
Qed.

Lemma f2neg_invol y : inF2 y -> f2n (f2n y) = y.
Proof.
  destruct y as [y0 y1]. intros [H0 H1]. cbn [fst snd] in *. rewrite !f2neg_Z. cbn [fst snd].
  change ((pZ - (pZ - y0) mod pZ) mod pZ) with (fneg ZNum pZ (fneg ZNum pZ y0)).
  change ((pZ - (pZ - y1) mod pZ) mod pZ) with (fneg ZNum pZ (fneg ZNum pZ y1)).
  f_equal; (apply eqm_small; [apply fneg_in|assumption|]); rewrite !fneg_eqm; apply eq_eqm; ring.
Qed.

End E2Aux.
Import E2Aux.

(* every square of F_p^2 has its root found by the decoder's square root, and the root is y or -y *)
Theorem f2sqrt_complete : primeZ pZ -> forall y, inF2 y ->
  exists c, f2sqrt ZNum pZ (f2mul ZNum pZ y y) = Some c /\ (c = y \/ c = f2neg ZNum pZ y).
Proof. exact f2sqrt_complete_pr. Qed.

(* F_p^2 has no zero divisors, in the form used above *)
Theorem f2_square_roots : primeZ pZ -> forall c y, inF2 c -> inF2 y ->
  f2mul ZNum pZ c c = f2mul ZNum pZ y y -> c = y \/ c = f2neg ZNum pZ y.
Proof. exact f2_sq_eq. Qed.

Theorem e2_encode_decode_roundtrip : primeZ pZ -> forall x y,
  inF2 x -> inF2 y -> f2mul ZNum pZ y y = rhs2 x ->
  decode_e2 (encode_e2 (Aff x y)) = (VALID, Aff x y).
Proof.
  intros Hpr [x0 x1] y [Hx0 Hx1] Hy Hon. cbn [fst snd] in Hx0, Hx1. pose proof pZ_lt as Hp.
  assert (Hy0 : y <> (0, 0)).
  { intro; subst y. apply (rhs2_nonzero Hpr (x0, x1)). rewrite <- Hon. vm_compute. reflexivity. }
  unfold encode_e2, e2_write_bytes, fp2_write_bytes, fp_write_bytes. change Fp_BYTES with 48%nat.
  cbn [fst snd].
  change (i2osp ZNum 48 x0) with (i2Z 48 x0). change (i2osp ZNum 48 x1) with (i2Z 48 x1).
  destruct (i2Z_hd_small x0 Hx0) as (h0 & t & Ei & Hh032).
  assert (L0 : length (h0 :: t) = 48%nat) by (rewrite <- Ei; apply i2Z_length).
  assert (V0 : osZ (h0 :: t) = x0).
  { rewrite <- Ei. apply osZ_i2Z. change (Z.of_nat 48) with 48. unfold inF in Hx0. lia. }
  rewrite Ei. clear Ei.
  set (B1 := i2Z 48 x1).
  assert (L1 : length B1 = 48%nat) by apply i2Z_length.
  assert (V1 : osZ B1 = x1).
  { apply osZ_i2Z. change (Z.of_nat 48) with 48. unfold inF in Hx1. lia. }
  clearbody B1.
  cbn [app hd0 set_hd].
  set (s := f2sign ZNum y).
  destruct (hdr_bits h0 s Hh032) as (B7 & B6 & B31 & B5).
  set (h := N.lor (N.lor h0 (if s then 32 else 0)) 128) in *.
  assert (Len : forall q, length (q :: t ++ B1) = 96%nat).
  { intro q. cbn [length] in *. rewrite app_length. lia. }
  unfold decode_e2, e2_read_bytes. change G2_SER_BYTES with 96%nat.
  change (Z.eqb Generated.Consts.C_G2_SERIALIZATION Generated.Consts.C_COMPRESSED) with true.
  rewrite Len, Nat.eqb_refl. cbn [negb hd0 tl set_hd].
  rewrite B7. cbn [Bool.eqb negb]. rewrite B6. cbn [negb]. rewrite B5, B31.
  rewrite fp2_read_spec. rewrite Len, Nat.eqb_refl. cbn [negb].
  assert (F1 : firstn 48 (h0 :: t ++ B1) = h0 :: t).
  { change (h0 :: t ++ B1) with ((h0 :: t) ++ B1). rewrite <- L0. apply firstn_app_len. }
  assert (F2 : skipn 48 (h0 :: t ++ B1) = B1).
  { change (h0 :: t ++ B1) with ((h0 :: t) ++ B1). rewrite <- L0. apply skipn_app_len. }
  rewrite F1, F2. rewrite !fp_read_spec. rewrite L0, L1, Nat.eqb_refl. cbn [negb].
  rewrite V0, V1. unfold inF in Hx0, Hx1.
  destruct (Z.ltb_spec x0 pZ) as [_|]; [|lia].
  destruct (Z.ltb_spec x1 pZ) as [_|]; [|lia].
  fold (rhs2 (x0, x1)). rewrite <- Hon.
  destruct (f2sqrt_complete Hpr y Hy) as (c & Es & Hc). rewrite Es.
  f_equal. f_equal. fold s.
  destruct Hc as [Hc | Hc]; subst c.
  - fold s. now rewrite eqb_reflx.
  - rewrite f2sign_neg by assumption. fold s.
    assert (Ef : Bool.eqb (negb s) s = false) by (destruct s; reflexivity). rewrite Ef.
    apply f2neg_invol. exact Hy.
Qed.

Theorem e2_encode_decode_roundtrip_inf : decode_e2 (encode_e2 Inf) = (VALID, Inf).
Proof. vm_compute. reflexivity. Qed.

(* the hypotheses are satisfiable: the generator of G2 *)
Example roundtrip_hyps_sat :
  inF2 (g2x ZNum) /\ inF2 (g2y ZNum) /\ f2mul ZNum pZ (g2y ZNum) (g2y ZNum) = rhs2 (g2x ZNum).
Proof.
  split; [|split].
  - unfold inF2, inF. vm_compute. repeat split; discriminate.
  - unfold inF2, inF. vm_compute. repeat split; discriminate.
  - vm_compute. reflexivity.
Qed.

Print Assumptions f2sqrt_complete.
Print Assumptions e2_encode_decode_roundtrip.
