(* C09 - no-panic theorems for Joint-Feldman (dkg_jointfeldman.go).  The instance holds
   s.size Feldman-VSS-Qual sub-instances s.fvss[i]; the loops over i are executed for an
   arbitrary i, so a hypothesis about the names "s.fvss[i].xxx" is the invariant of EVERY
   sub-instance.  Names with a suffix "@L1" are the values at the head of an arbitrary
   iteration (fields the body writes are havoced there).  Fuel: the callees are the Qual
   entry points, inlined. *)
From Coq Require Import ZArith List String Bool Lia.
From V Require Import Model.Risk Generated.RiskSkel Proofs.RiskProofs Proofs.RiskBase Proofs.RiskThmDkg.
Import ListNotations.
Open Scope string_scope.
Open Scope Z_scope.

(* an accepted verification vector (flags recv / disq) has full-size y and vA *)
Definition vectors_ok (e : env) (recv disq y vA size thr : string) : Prop :=
  e recv <> 0 -> e disq = 0 -> e y = e size /\ e vA = e thr + 1.

(* s.fvss = make([]feldmanVSSQualState, s.size) in init() *)
Theorem np_joint_ForceDisqualify : forall e,
  e "s.fvss" = e "s.size" ->
  safe skel_JointFeldmanState_ForceDisqualify e.
Proof. dkg_auto. Qed.

Theorem np_joint_Start : forall e,
  0 <= e "s.size" -> e "s.fvss" = e "s.size" ->
  safe_cut sponge_cut skel_JointFeldmanState_Start e.
Proof. dkg_auto. Qed.

(* jf embeds the dkgCommon just built from the validated size *)
Theorem np_NewJointFeldman : forall e,
  e "jf.size" = e "size" ->
  safe skel_NewJointFeldman e.
Proof. dkg_auto. Qed.

Theorem np_joint_NextTimeout : forall e,
  e "s.fvss" = e "s.size" -> dkg_params e "s.fvss[i]." ->
  vectors_ok e "s.fvss[i].vAReceived" "s.fvss[i].disqualified@L1" "s.fvss[i].y" "s.fvss[i].vA"
             "s.fvss[i].size" "s.fvss[i].threshold" ->
  safe skel_JointFeldmanState_NextTimeout e.
Proof. unfold vectors_ok. dkg_auto. Qed.

Theorem np_joint_HandlePrivateMsg : forall e,
  e "s.fvss" = e "s.size" -> dkg_params e "s.fvss[i]." -> 0 <= e "msg" ->
  vectors_ok e "s.fvss[i].vAReceived" "s.fvss[i].disqualified@L1" "s.fvss[i].y" "s.fvss[i].vA"
             "s.fvss[i].size" "s.fvss[i].threshold" ->
  safe skel_JointFeldmanState_HandlePrivateMsg e.
Proof. unfold vectors_ok. dkg_auto. Qed.

Theorem np_joint_HandleBroadcastMsg : forall e,
  e "s.fvss" = e "s.size" -> dkg_params e "s.fvss[i]." -> 0 <= e "msg" ->
  0 <= e "s.fvss[i].dealerIndex" < e "s.fvss[i].size" ->
  vectors_ok e "s.fvss[i].vAReceived@L1" "s.fvss[i].disqualified@L1" "s.fvss[i].y@L1" "s.fvss[i].vA@L1"
             "s.fvss[i].size" "s.fvss[i].threshold" ->
  (e "s.fvss[i].myIndex" = e "s.fvss[i].dealerIndex" -> e "s.fvss[i].a" = e "s.fvss[i].threshold" + 1) ->
  0 <= e "complainer@key1" < e "s.fvss[i].size" ->
  e "ok?s.complaints[complainee]" = 1 ->
  safe skel_JointFeldmanState_HandleBroadcastMsg e.
Proof. unfold vectors_ok. dkg_auto. Qed.

(* End: every sub-instance that is not disqualified when the keys are summed up has
   delivered a valid vector (both timeouts have passed); more than threshold dealers are
   qualified (checked just before), so the lists of qualified keys are non-empty *)
Theorem np_joint_End : forall e,
  0 <= e "s.size" -> e "s.fvss" = e "s.size" ->
  (e "s.fvss[i].disqualified@E1" = 0 ->
   e "s.fvss[i].vA" = e "s.fvss[i].threshold" + 1 /\ e "s.fvss[i].y" = e "s.size") ->
  0 <= e "s.fvss[i].threshold" ->
  0 < e "qualifiedx@E2" -> 0 < e "qualifiedPubKey@E2" -> 0 < e "qualifiedy[i]" ->
  safe skel_JointFeldmanState_End e.
Proof. dkg_auto. Qed.
