(* Lagrange interpolation at zero over an abstract field.
   For pairwise distinct points x_0..x_{n-1} and a polynomial P of degree < n,
     sum_i lambda_i * P(x_i) = P(0),  lambda_i = prod_{j<>i} x_j / prod_{j<>i} (x_j - x_i).
   Route: pointwise factor theorem P(x) = P(c) + (x - c) * Q(x) (synthetic division on
   coefficient lists, no polynomial library), and a "zipper" form of the sum in which removing a
   point c multiplies the weight of every other point x by c / (c - x). *)
From Coq Require Import List Field Ring Permutation Lia Arith.
Import ListNotations.

Section LagrangeField.
Variable K : Type.
Variables (k0 k1 : K) (kadd kmul ksub : K -> K -> K) (kopp : K -> K) (kdiv : K -> K -> K) (kinv : K -> K).
Hypothesis Kfield : field_theory k0 k1 kadd kmul ksub kopp kdiv kinv (@eq K).
Add Field KF : Kfield.

(* ---- definitions ---- *)
Definition peval (a : list K) (x : K) : K := fold_right (fun c acc => kadd c (kmul x acc)) k0 a.

Definition prodf (f : K -> K) (ys : list K) : K := fold_right (fun y acc => kmul (f y) acc) k1 ys.

Definition others (xs : list K) (i : nat) : list K := firstn i xs ++ skipn (S i) xs.

Definition prod_except (xs : list K) (i : nat) (f : K -> K) : K := prodf f (others xs i).

Definition lambda (xs : list K) (i : nat) : K :=
  kdiv (prod_except xs i (fun x => x)) (prod_except xs i (fun x => ksub x (nth i xs k0))).

Definition lagrange_sum (f : K -> K) (xs : list K) : K :=
  fold_right kadd k0 (map (fun i => kmul (lambda xs i) (f (nth i xs k0))) (seq 0 (length xs))).

(* weight of the point x against the other points ys *)
Definition w (ys : list K) (x : K) : K := kdiv (prodf (fun y => y) ys) (prodf (fun y => ksub y x) ys).

(* zipper form of the sum: [pre] are the points already passed *)
Fixpoint Lsum (f : K -> K) (pre post : list K) : K :=
  match post with
  | [] => k0
  | x :: post' => kadd (kmul (w (pre ++ post') x) (f x)) (Lsum f (pre ++ [x]) post')
  end.

(* quotient of a0 + X * t(X) by (X - c); it does not depend on a0 *)
Fixpoint sdt (t : list K) (c : K) : list K :=
  match t with
  | [] => []
  | b :: t' => peval t c :: sdt t' c
  end.
Definition synth_div (a : list K) (c : K) : list K := match a with [] => [] | _ :: t => sdt t c end.

(* ---- field facts ---- *)
Lemma sub_neq x y : x <> y -> ksub x y <> k0.
Proof. intros H E. apply H. replace x with (kadd (ksub x y) y) by ring. rewrite E. ring. Qed.

Lemma mul_neq0 a b : a <> k0 -> b <> k0 -> kmul a b <> k0.
Proof.
  intros Ha Hb E. apply Hb.
  assert (H : b = kdiv (kmul a b) a) by (field; exact Ha).
  rewrite H, E. field. exact Ha.
Qed.

Lemma prodf_neq0 f ys : (forall y, In y ys -> f y <> k0) -> prodf f ys <> k0.
Proof.
  induction ys as [|y ys IH]; intro H; cbn [prodf fold_right].
  - intro E. apply (F_1_neq_0 Kfield). exact E.
  - apply mul_neq0. apply H; left; reflexivity. apply IH. intros z Hz. apply H. right; exact Hz.
Qed.

Lemma prodf_perm f ys ys' : Permutation ys ys' -> prodf f ys = prodf f ys'.
Proof.
  induction 1 as [|x l l' _ IH|x y l|l l' l'' _ IH1 _ IH2]; cbn [prodf fold_right].
  - reflexivity.
  - fold (prodf f l). fold (prodf f l'). rewrite IH. reflexivity.
  - fold (prodf f l). ring.
  - congruence.
Qed.

(* ---- weights ---- *)
Lemma w_nil x : w [] x = k1.
Proof. unfold w. cbn [prodf fold_right]. field. exact (F_1_neq_0 Kfield). Qed.

Lemma w_cons y ys x : y <> x -> ~ In x ys ->
  w (y :: ys) x = kmul (kdiv y (ksub y x)) (w ys x).
Proof.
  intros Hy Hn. unfold w. cbn [prodf fold_right].
  fold (prodf (fun y => y) ys). fold (prodf (fun y => ksub y x) ys).
  assert (D : prodf (fun y => ksub y x) ys <> k0).
  { apply prodf_neq0. intros z Hz. apply sub_neq. intro E. subst z. contradiction. }
  pose proof (sub_neq y x Hy) as D1.
  generalize dependent (prodf (fun y => ksub y x) ys). intros d D.
  generalize (prodf (fun y => y) ys). intro n.
  field. split; assumption.
Qed.

Lemma w_perm ys ys' x : Permutation ys ys' -> w ys x = w ys' x.
Proof. intro P. unfold w. rewrite (prodf_perm _ _ _ P), (prodf_perm _ _ _ P). reflexivity. Qed.

(* ---- the zipper sum: linearity, permutation of the passed points ---- *)
Lemma Lsum_ext f g : (forall x, f x = g x) -> forall post pre, Lsum f pre post = Lsum g pre post.
Proof. intros E post. induction post as [|x post IH]; intro pre; cbn [Lsum]. reflexivity. rewrite E, IH. reflexivity. Qed.

Lemma Lsum_scal c f : forall post pre, Lsum (fun x => kmul c (f x)) pre post = kmul c (Lsum f pre post).
Proof. intro post. induction post as [|x post IH]; intro pre; cbn [Lsum]. ring. rewrite IH. ring. Qed.

Lemma Lsum_add f g : forall post pre, Lsum (fun x => kadd (f x) (g x)) pre post = kadd (Lsum f pre post) (Lsum g pre post).
Proof. intro post. induction post as [|x post IH]; intro pre; cbn [Lsum]. ring. rewrite IH. ring. Qed.

Lemma Lsum_perm f : forall post pre pre', Permutation pre pre' -> Lsum f pre post = Lsum f pre' post.
Proof.
  intro post. induction post as [|x post IH]; intros pre pre' P; cbn [Lsum]. reflexivity.
  rewrite (w_perm (pre ++ post) (pre' ++ post) x) by (apply Permutation_app_tail; exact P).
  rewrite (IH (pre ++ [x]) (pre' ++ [x])) by (apply Permutation_app_tail; exact P).
  reflexivity.
Qed.

(* ---- removing a point ---- *)
Lemma Lsum_remove_pre f c : forall post pre, NoDup (c :: pre ++ post) ->
  Lsum (fun x => kmul (ksub x c) (f x)) (c :: pre) post = kmul (kopp c) (Lsum f pre post).
Proof.
  intro post. induction post as [|x post IH]; intros pre ND; cbn [Lsum]. ring.
  assert (ND' : NoDup (c :: (pre ++ [x]) ++ post)) by (rewrite <- app_assoc; exact ND).
  change ((c :: pre) ++ [x]) with (c :: (pre ++ [x])).
  rewrite (IH (pre ++ [x]) ND').
  change ((c :: pre) ++ post) with (c :: (pre ++ post)).
  inversion ND as [|c' l' Hc ND0]; subst.
  assert (Hcx : c <> x). { intro E. apply Hc. subst x. apply in_or_app. right. left. reflexivity. }
  rewrite w_cons; [| exact Hcx | apply (NoDup_remove_2 _ _ _ ND0) ].
  pose proof (sub_neq c x Hcx) as D.
  generalize (w (pre ++ post) x) (Lsum f (pre ++ [x]) post) (f x). intros W L F.
  field. exact D.
Qed.

Lemma Lsum_remove_first f c r : NoDup (c :: r) ->
  Lsum (fun x => kmul (ksub x c) (f x)) [] (c :: r) = kmul (kopp c) (Lsum f [] r).
Proof.
  intro ND. cbn [Lsum app].
  rewrite (Lsum_remove_pre f c r []) by exact ND. ring.
Qed.

Lemma Lsum_remove_second f c d r : NoDup (c :: d :: r) ->
  Lsum (fun x => kmul (ksub x d) (f x)) [] (c :: d :: r) = kmul (kopp d) (Lsum f [] (c :: r)).
Proof.
  intro ND. cbn [Lsum app].
  assert (ND2 : NoDup (d :: c :: r)).
  { apply (Permutation_NoDup (l := c :: d :: r)). apply perm_swap. exact ND. }
  rewrite (Lsum_perm _ r [c; d] [d; c]) by apply perm_swap.
  rewrite (Lsum_remove_pre f d r [c]) by exact ND2.
  inversion ND as [|c' l' Hc ND0]; subst. inversion ND0 as [|d' l'' Hd ND1]; subst.
  assert (Hdc : d <> c). { intro E. apply Hc. left. exact E. }
  rewrite (w_cons d r c); [| exact Hdc | intro Hi; apply Hc; right; exact Hi ].
  pose proof (sub_neq d c Hdc) as D.
  generalize (w r c) (w (c :: r) d) (Lsum f [c] r) (f c) (f d). intros W1 W2 L F1 F2.
  field. exact D.
Qed.

(* ---- the weights sum to one ---- *)
Lemma Lsum_one : forall n xs, length xs = S n -> NoDup xs -> Lsum (fun _ => k1) [] xs = k1.
Proof.
  induction n as [|n IH]; intros xs Hl ND.
  - destruct xs as [|c [|d r]]; try discriminate. cbn [Lsum app]. rewrite w_nil. ring.
  - destruct xs as [|c [|d r]]; try discriminate.
    assert (Hdc : d <> c).
    { inversion ND as [|c' l' Hc _]; subst. intro E. apply Hc. left. exact E. }
    pose proof (sub_neq d c Hdc) as D.
    set (S0 := Lsum (fun _ => k1) [] (c :: d :: r)).
    assert (H : kmul (ksub d c) S0 = ksub d c).
    { unfold S0. rewrite <- Lsum_scal.
      rewrite (Lsum_ext _ (fun x => kadd (kmul (ksub x c) k1) (kmul (kopp k1) (kmul (ksub x d) k1))))
        by (intro; ring).
      rewrite Lsum_add, Lsum_scal.
      rewrite (Lsum_remove_first (fun _ => k1) c (d :: r) ND).
      rewrite (Lsum_remove_second (fun _ => k1) c d r ND).
      rewrite (IH (d :: r)); [| cbn in *; lia | inversion ND; assumption ].
      rewrite (IH (c :: r)); [ ring | cbn in *; lia | ].
      inversion ND as [|c' l' Hc ND0]; subst. inversion ND0 as [|d' l'' Hd ND1]; subst.
      constructor. intro Hi; apply Hc; right; exact Hi. exact ND1. }
    replace S0 with (kdiv (kmul (ksub d c) S0) (ksub d c)) by (field; exact D).
    rewrite H. field. exact D.
Qed.

(* ---- factor theorem ---- *)
Lemma peval_cons c t x : peval (c :: t) x = kadd c (kmul x (peval t x)).
Proof. reflexivity. Qed.

Lemma sdt_length t c : length (sdt t c) = length t.
Proof. induction t as [|b t IH]; cbn [sdt length]; congruence. Qed.

Lemma factor_sdt c x : forall t a0,
  peval (a0 :: t) x = kadd (peval (a0 :: t) c) (kmul (ksub x c) (peval (sdt t c) x)).
Proof.
  induction t as [|b t IH]; intro a0.
  - cbn [sdt peval fold_right]. ring.
  - rewrite (peval_cons a0 (b :: t) x), (peval_cons a0 (b :: t) c).
    cbn [sdt]. rewrite (peval_cons (peval (b :: t) c)).
    rewrite (IH b).
    generalize (peval (b :: t) c) (peval (sdt t c) x). intros u v. ring.
Qed.

Lemma factor_theorem a c x :
  peval a x = kadd (peval a c) (kmul (ksub x c) (peval (synth_div a c) x)).
Proof.
  destruct a as [|a0 t].
  - cbn [synth_div peval fold_right]. ring.
  - apply factor_sdt.
Qed.

Lemma synth_div_length a c : length (synth_div a c) = pred (length a).
Proof. destruct a as [|a0 t]; cbn [synth_div length pred]. reflexivity. apply sdt_length. Qed.

(* ---- interpolation, zipper form ---- *)
Lemma Lsum_interpolation : forall xs a, NoDup xs -> length a <= length xs ->
  Lsum (peval a) [] xs = peval a k0.
Proof.
  induction xs as [|c r IH]; intros a ND Hl.
  - destruct a; [reflexivity | cbn in Hl; lia].
  - rewrite (Lsum_ext _ (fun x => kadd (kmul (peval a c) k1) (kmul (ksub x c) (peval (synth_div a c) x))))
      by (intro x; rewrite (factor_theorem a c x); ring).
    rewrite Lsum_add, Lsum_scal.
    rewrite (Lsum_one (length r) (c :: r) eq_refl ND).
    rewrite (Lsum_remove_first _ c r ND).
    rewrite (IH (synth_div a c)).
    + rewrite (factor_theorem a c k0). ring.
    + inversion ND; assumption.
    + rewrite synth_div_length. cbn in Hl. lia.
Qed.

(* ---- positional form = zipper form ---- *)
Lemma others_middle pre x post : others (pre ++ x :: post) (length pre) = pre ++ post.
Proof.
  unfold others.
  rewrite firstn_app, firstn_all, Nat.sub_diag. cbn [firstn]. rewrite app_nil_r.
  change (S (length pre)) with (1 + length pre). rewrite Nat.add_comm.
  replace (pre ++ x :: post) with ((pre ++ [x]) ++ post) by (rewrite <- app_assoc; reflexivity).
  rewrite skipn_app.
  replace (length pre + 1) with (length (pre ++ [x])) by (rewrite app_length; reflexivity).
  rewrite skipn_all, Nat.sub_diag. reflexivity.
Qed.

Lemma lambda_middle pre x post : lambda (pre ++ x :: post) (length pre) = w (pre ++ post) x.
Proof.
  unfold lambda, prod_except, w. rewrite others_middle, nth_middle. reflexivity.
Qed.

Lemma positional_zipper f : forall post pre,
  fold_right kadd k0 (map (fun i => kmul (lambda (pre ++ post) i) (f (nth i (pre ++ post) k0)))
                          (seq (length pre) (length post)))
  = Lsum f pre post.
Proof.
  induction post as [|x post IH]; intro pre. reflexivity.
  cbn [length seq map fold_right Lsum].
  rewrite lambda_middle, nth_middle. f_equal.
  rewrite <- (IH (pre ++ [x])).
  rewrite <- app_assoc. cbn [app].
  replace (length (pre ++ [x])) with (S (length pre)) by (rewrite app_length, Nat.add_comm; reflexivity).
  reflexivity.
Qed.

Lemma lagrange_sum_zipper f xs : lagrange_sum f xs = Lsum f [] xs.
Proof. exact (positional_zipper f xs []). Qed.

(* ---- main theorems ---- *)
Theorem interpolation_at_zero : forall (xs a : list K), NoDup xs -> length a <= length xs ->
  fold_right kadd k0 (map (fun i => kmul (lambda xs i) (peval a (nth i xs k0))) (seq 0 (length xs)))
  = peval a k0.
Proof.
  intros xs a ND Hl. rewrite <- (Lsum_interpolation xs a ND Hl).
  exact (lagrange_sum_zipper (peval a) xs).
Qed.

Lemma peval_const_coeff a : peval a k0 = nth 0 a k0.
Proof. destruct a as [|c t]; cbn [nth]. reflexivity. rewrite peval_cons. ring. Qed.

Corollary sum_lambda_is_one : forall xs, xs <> [] -> NoDup xs ->
  fold_right kadd k0 (map (fun i => lambda xs i) (seq 0 (length xs))) = k1.
Proof.
  intros xs Hne ND.
  assert (Hl : length [k1] <= length xs) by (destruct xs; [contradiction | cbn; lia]).
  pose proof (interpolation_at_zero xs [k1] ND Hl) as H.
  rewrite peval_const_coeff in H. cbn [nth] in H. rewrite <- H.
  f_equal. apply map_ext. intro i. cbn [peval fold_right]. ring.
Qed.

End LagrangeField.

(* ---- non-vacuity: the five-element field ---- *)
Module F5Example.
Inductive F5 := A0 | A1 | A2 | A3 | A4.
Definition to_nat (a : F5) : nat := match a with A0 => 0 | A1 => 1 | A2 => 2 | A3 => 3 | A4 => 4 end.
Definition of_nat (n : nat) : F5 :=
  match n mod 5 with 0 => A0 | 1 => A1 | 2 => A2 | 3 => A3 | _ => A4 end.
Definition add a b := of_nat (to_nat a + to_nat b).
Definition mul a b := of_nat (to_nat a * to_nat b).
Definition opp a := of_nat (5 - to_nat a).
Definition sub a b := add a (opp b).
Definition inv a := match a with A0 => A0 | A1 => A1 | A2 => A3 | A3 => A2 | A4 => A4 end.
Definition div a b := mul a (inv b).

Lemma F5_field : field_theory A0 A1 add mul sub opp div inv (@eq F5).
Proof.
  constructor; [constructor | | | ].
  - intros []; reflexivity.
  - intros [] []; reflexivity.
  - intros [] [] []; reflexivity.
  - intros []; reflexivity.
  - intros [] []; reflexivity.
  - intros [] [] []; reflexivity.
  - intros [] [] []; reflexivity.
  - intros [] []; reflexivity.
  - intros []; reflexivity.
  - discriminate.
  - intros [] []; reflexivity.
  - intros [] H; try reflexivity. contradiction H; reflexivity.
Qed.

(* P = 3 + 2X + 4X^2 over F5 at the points 1, 2, 4 *)
Example F5_interpolation :
  let xs := [A1; A2; A4] in let a := [A3; A2; A4] in
  NoDup xs /\ length a <= length xs /\
  fold_right add A0 (map (fun i => mul (lambda F5 A0 A1 mul sub div xs i) (peval F5 A0 add mul a (nth i xs A0)))
                         (seq 0 (length xs))) = A3.
Proof.
  split; [|split].
  - repeat constructor; cbn; intuition discriminate.
  - cbn. lia.
  - exact (interpolation_at_zero F5 A0 A1 add mul sub opp div inv F5_field [A1; A2; A4] [A3; A2; A4]
             ltac:(repeat constructor; cbn; intuition discriminate) ltac:(cbn; lia)).
Qed.

Example F5_interpolation_computed :
  fold_right add A0 (map (fun i => mul (lambda F5 A0 A1 mul sub div [A1; A2; A4] i)
                                       (peval F5 A0 add mul [A3; A2; A4] (nth i [A1; A2; A4] A0)))
                         (seq 0 3)) = A3.
Proof. vm_compute. reflexivity. Qed.
End F5Example.

Print Assumptions interpolation_at_zero.
Print Assumptions sum_lambda_is_one.
Print Assumptions F5Example.F5_interpolation.
