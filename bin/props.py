# Per-property configuration of bin/check.
JOBS = 16
COQ_TIMEOUT = 1500
CASE_TIMEOUT = 900
VH_TIMEOUT = {"quick": 600, "thorough": 3000}

TRUSTED_BASE = [
    "Coq 8.16.1 kernel incl. vm_compute (no native_compute); full .vo build (no -vos/-vok)",
    "no Axiom/Parameter/Admitted in the development (bin/lint greps); no extraction, hence no Extract directives",
    "translator harness/cmd/extract (go/parser const folding, C #define evaluator) -> coq/Generated/Consts.v",
    "correspondence harness harness/cmd/vh + bin/check (generators, canonicalisers, coqc output parsing)",
]

HOOK_COMMITS = []

PROPS = {
    "C14": {
        "corr": ["Corr/C14Corr.v"],
        "functions": [r"random\.(NewChacha20PRG|chachaCore\.Read|chachaPRG\.Store|RestoreChacha20PRG)"],
        "trusted": [
            "golang.org/x/crypto/chacha20 Cipher modelled by its specification (key, nonce, keystream byte position); exercised against the Gallina RFC 8439 block function on every run",
            "chacha20.KeySize=32 and NonceSize=12 are constants of the external package (fixed in the translator)",
        ],
        "level_text": "Theorems over all seeds, customizers and read-size lists (total <= 2^38 bytes): concatenated reads equal the RFC 8439 keystream; Restore(Store()) after any prefix rebuilds the identical generator; length rejections. Model constants are regenerated from the Go source; the model is run against random.NewChacha20PRG/Read/Store/Restore on every run, together with an independent RFC 8439 oracle on the implementation's own output.",
        "level_note": "x/crypto chacha20.Cipher is modelled by its specification (exercised, not verified); 2^38-byte bound in the statements; Coq kernel + vm_compute; translator and harness trusted.",
        "assumptions": [
            "total output at most 2^38 bytes (32-bit block counter), stated in the theorems",
            "Go runtime, x/crypto/chacha20 not verified",
        ],
    },
}
