# Per-property configuration of bin/check.
COQCHK_TIMEOUT = 1500
JOBS = 16
COQ_TIMEOUT = 1500
CASE_TIMEOUT = 900
VH_TIMEOUT = {"quick": 600, "thorough": 3000}

TRUSTED_BASE = [
    "Coq 8.16.1 kernel incl. vm_compute (no native_compute); full .vo build (no -vos/-vok)",
    "no Axiom/Parameter/Admitted in the development (bin/lint greps); no extraction, hence no Extract directives",
    "translator harness/cmd/extract (go/parser const folding, C #define evaluator) -> coq/Generated/Consts.v",
    "correspondence harness harness/cmd/vh + bin/check (generators, canonicalisers, coqc output parsing)",
]

HOOK_COMMITS = ["d570ad2"]

import glob as _glob, json as _json, os as _os

# one JSON file per property under bin/props.d/ (keys: corr, functions, trusted, level_text, level_note,
# assumptions, optional technique / design_ref / claimed / na_reason)
PROPS = {}
for _f in sorted(_glob.glob(_os.path.join(_os.path.dirname(_os.path.abspath(__file__)), "props.d", "*.json"))):
    PROPS[_os.path.basename(_f)[:-5]] = _json.load(open(_f))
