#!/usr/bin/env python3
"""Rewrites the theorem count (start of column 2) and the quick-tier column of the table in DESIGN.md section 6
from evidence/*.json of the last runs (quick tier only)."""
import json, re, glob, os
root = os.path.dirname(os.path.dirname(os.path.abspath(__file__)))
ev = {}
for f in glob.glob(os.path.join(root, 'evidence', 'C*.json')):
    d = json.load(open(f))
    ev[d['property_id']] = d
lines = open(os.path.join(root, 'DESIGN.md')).read().split('\n')
out = []
for ln in lines:
    m = re.match(r'^\| (C\d\d) \| (\d+)([ :(].*)$', ln)
    if m and m.group(1) in ev and ev[m.group(1)].get('tier') == 'quick':
        d = ev[m.group(1)]; c = d['coverage']
        cells = ln.split(' | ')
        cells[1] = re.sub(r'^\d+', str(c['obligations']), cells[1])
        cells[-1] = '%s cases, ~%d s |' % (format(c['evaluations'], ',').replace(',', ' '), round(d['wall_s']))
        ln = ' | '.join(cells)
    out.append(ln)
open(os.path.join(root, 'DESIGN.md'), 'w').write('\n'.join(out))
