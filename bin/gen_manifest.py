#!/usr/bin/env python3
"""Regenerate MANIFEST.json from bin/props.py (claimed) and the properties file."""
import json, os, sys
ROOT = os.path.dirname(os.path.dirname(os.path.abspath(__file__)))
sys.path.insert(0, os.path.join(ROOT, "bin"))
import props as P
ids = [json.loads(l)["id"] for l in open(os.path.join(ROOT, "properties.jsonl"))]
checks, na = [], []
for i in ids:
    c = P.PROPS.get(i)
    if c and c.get("claimed", True):
        checks.append({
            "property_id": i,
            "quick_cmd": "bin/check %s quick" % i,
            "thorough_cmd": "bin/check %s thorough" % i,
            "evidence_file": "/verif/evidence/%s.json" % i,
            "replay_cmd_template": "bin/check %s quick --replay {path}" % i,
            "engine": "coq-proof+correspondence",
            "level_claimed": {"category": "proof", "text": c["level_text"], "design_ref": c.get("design_ref", "DESIGN.md section 6, " + i)},
            "level_note": c["level_note"],
            "technique": c.get("technique", "machine-checked proof in Coq 8.16 over an executable Gallina model; model tied to /repo by a translator (constants) and a correspondence run evaluated in the Coq kernel"),
        })
    else:
        na.append({"property_id": i, "reason": (c or {}).get("na_reason", "not built yet in this session: the Coq model and correspondence for this property are still to be written (see DESIGN.md section 6)")})
m = {
    "version": 1,
    "setup_cmd": "bin/setup",
    "hooks": {"guard": "verif", "enable": "go build -tags verif", "add_only": True,
              "baseline_off_cmd": "cd /repo && GOFLAGS=-mod=mod GOPROXY=off go test -vet=off -count=1 -timeout 25m ./...",
              "source_commits": P.HOOK_COMMITS},
    "engines": [{"name": "coq-proof+correspondence", "path": "/verif/coq", "serves_properties": [c["property_id"] for c in checks],
                 "kind_free_text": "Coq 8.16.1 development (models, proofs, per-property theorem files) + Go correspondence harness whose cases are evaluated by vm_compute inside Coq"}],
    "checks": checks,
    "not_applicable": na,
    "notes": "see DESIGN.md; known findings in known_findings.txt",
}
json.dump(m, open(os.path.join(ROOT, "MANIFEST.json"), "w"), indent=1)
print("claimed:", [c["property_id"] for c in checks])
